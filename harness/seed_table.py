"""Re-run every seeded defect in /verif/seeded against the checks recorded for it and write seeded/RESULTS.md.
usage: seed_table.py [id ...]        re-run the given ids (default: all) and write the table for them
       seed_table.py --collect       only write seeded/RESULTS.md from the `last_run` recorded in every meta.json
(parallel re-run:  ls seeded | grep -v RESULTS | xargs -P 4 -n 1 /venv/bin/python harness/seed_table.py --one ; then --collect)"""
import os, sys, json, subprocess, re
VERIF = os.path.dirname(os.path.dirname(os.path.abspath(__file__)))
SD = os.path.join(VERIF, "seeded")
args = [a for a in sys.argv[1:] if not a.startswith("--")]
collect, one = "--collect" in sys.argv, "--one" in sys.argv
ids = args or sorted(d for d in os.listdir(SD) if os.path.isdir(os.path.join(SD, d)))
rows = []
for sid in ids:
    d = os.path.join(SD, sid)
    if not os.path.exists(os.path.join(d, "meta.json")):
        continue
    meta = json.load(open(os.path.join(d, "meta.json")))
    if collect:
        lr = meta.get("last_run")
        if not lr:
            out = meta.get("confirmed", {}).get("output", "")
            demo = re.search(r"demo: mutant rc=(\d+) clean rc=(\d+)", out)
            verdicts = {}
            for c in meta.get("checks", [meta.get("property")]):
                m = re.search(r"^\[%s\] rc=(\d+)(.*)$" % c, out, re.M)
                verdicts[c] = ("VIOLATION" + (" (no-failing-input-found)" if m and "no-failing-input-found" in m.group(2) else "")) if m and m.group(1) == "1" else ("silent" if m and m.group(1) == "0" else "error")
            lr = {"demo_mutant_rc": demo and int(demo.group(1)), "demo_clean_rc": demo and int(demo.group(2)), "verdicts": verdicts}
        rows.append((sid, meta.get("property"), (meta.get("needs_to_manifest") or "")[:160].replace("\n", " ").replace("|", "/"), lr["verdicts"], lr))
        continue
    checks = meta.get("checks")
    if not checks:
        m = re.search(r"muttest.py seeded/\S+ (.*?)  \(", meta.get("confirmed", {}).get("ran_here", ""))
        checks = m.group(1).split() if m else [meta["property"]]
    r = subprocess.run(["/venv/bin/python", os.path.join(VERIF, "harness", "muttest.py"), d] + checks, capture_output=True, text=True, cwd=VERIF)
    out = r.stdout
    demo = re.search(r"demo: mutant rc=(\d+) clean rc=(\d+)", out)
    verdicts = {}
    for c in checks:
        m = re.search(r"^\[%s\] rc=(\d+)(.*)$" % c, out, re.M)
        verdicts[c] = ("VIOLATION" + (" (no-failing-input-found)" if "no-failing-input-found" in m.group(2) else "")) if m and m.group(1) == "1" else ("silent" if m and m.group(1) == "0" else "error")
    eg = re.search(r"e\.g\. (.*)", out)
    meta["checks"] = checks
    meta["last_run"] = {"demo_mutant_rc": demo and int(demo.group(1)), "demo_clean_rc": demo and int(demo.group(2)), "verdicts": verdicts,
                        "example": eg.group(1)[:400] if eg else None, "patch_applies": "PATCH FAILED" not in out}
    json.dump(meta, open(os.path.join(d, "meta.json"), "w"), indent=1)
    rows.append((sid, meta.get("property"), meta.get("needs_to_manifest", "")[:160].replace("\n", " ").replace("|", "/"), verdicts, meta["last_run"]))
    print(sid, verdicts, flush=True)
if one:
    sys.exit(0)
with open(os.path.join(SD, "RESULTS.md"), "w") as f:
    f.write("# Seeded defects and what the checks report on them\n\nEach row: `harness/muttest.py seeded/<id> <checks>` — scratch copy of /repo + patch; the demo must fail on the mutant and pass on /repo; checks run with VERIF_REPO=<copy>.\n\n")
    f.write("| id | property | needs, to manifest | demo (mutant/clean rc) | checks |\n|---|---|---|---|---|\n")
    for sid, prop, needs, verdicts, lr in rows:
        f.write(f"| {sid} | {prop} | {needs} | {lr['demo_mutant_rc']}/{lr['demo_clean_rc']} | " + ", ".join(f"{k}: {v}" for k, v in verdicts.items()) + " |\n")
print("written", len(rows))
