"""Source-to-Lean translator for the index-arithmetic core of bitstring (DESIGN.md section 3A, item 6).

Every run re-reads the listed functions from the working tree (VERIF_REPO, default /repo), translates their Python
AST into Lean definitions and writes them (write-if-changed) to

    lean/BitstringModel/Gen/Src.lean            namespace BM.Gen.Src

`Props/Cxx_Src.lean` then proves, for every input, that the hand-written ALG transcription each property's theorems
are about computes the same function as the definition generated from what the source says NOW.  A change of the
source changes the generated definition; the equivalence theorem then no longer checks (a broken proof obligation)
or - when the change leaves the translatable subset - the translator emits a definition whose body is the marker
`Untranslatable.<function>` (an `opaque`), with the same effect.

The translatable subset (anything else -> untranslatable):
  * parameters / locals of type int, Optional[int], bool, slice, tuples of these; `self` only through `len(self)`
    (parameter `self_len`) and the attributes named in `state` (parameter `self_<attr>`, result = new value);
  * statements: assignment (also tuple targets, augmented assignment), if / elif / else, return, raise <Exc>(...),
    assert, a docstring;  the statements after an `if` are duplicated into the branches that fall through;
  * expressions: int / None / bool literals, names, + - * // % unary -, comparisons (chains), and / or / not,
    conditional expressions, `x is None` / `x is not None` (narrowing an Optional[int] to int in the guarded part),
    len(self), len(range(a, b, c)), slice(a, b, c), s.start / s.stop / s.step, s.indices(n) (may raise ValueError),
    tuples.
  * trace mode (`mode="trace"`): effects on objects are recorded as `Py.Act` (text with `_` / `_b` holes + values), see
    DESIGN 3A.6; declared vocabularies: `lens` (len(x) of an opaque object), `attrs` (typed attributes / globals, e.g.
    self._pos, bitstring.options.bytealigned), `bools` (opaque conditions such as `bs is self`), `locals_attr`;
  * loops: `for x in range(a, b, c)` / `for x in <list of ints>` become a structurally recursive auxiliary definition over
    the list of values, `while c:` one over a fuel counter (`fuel={k: "<python int expr>"}` for the k-th loop; running out of
    fuel is an internal error, so an equivalence theorem with a total model also proves the fuel adequate); the loop
    carries the integer variables its body assigns and the trace; `break` / `continue` are supported, `return` inside a
    loop is not; `err_trace=True` makes an exception carry the effects recorded before it;
  * `region="<text>"`: translate only the part of the body from the statement starting with that text (the typed
    parameters are then the variables live at that point) - used for the arithmetic core behind a type dispatch;
  * `if c: x = e1 else: x = e2` with integer assignments only is joined into one conditional `let` (no duplication).
Python `//` and `%` are translated to `Int.fdiv` / `Int.fmod` (floor semantics, what Python computes).

API:  translate_all(repo) -> (lean_text, report) ;  write(gen_dir, text) -> bool (changed)
"""
from __future__ import annotations
import ast, os, sys, json, hashlib, textwrap

VERIF = os.path.dirname(os.path.dirname(os.path.abspath(__file__)))
GEN_DIR = os.path.join(VERIF, "lean", "BitstringModel", "Gen")

# ----------------------------------------------------------------------------------------------------------------------
# what to translate
# ----------------------------------------------------------------------------------------------------------------------
TARGETS = [
    dict(file="bitstring/bitstore.py", cls=None, func="offset_slice_indices_lsb0", lean="offset_slice_indices_lsb0",
         params=[("key", "slice"), ("length", "int")], ret="slice"),
    dict(file="bitstring/bits.py", cls="Bits", func="_validate_slice", lean="validate_slice",
         params=[("start", "optint"), ("end", "optint")], ret=("int", "int")),
    dict(file="bitstring/bitstream.py", cls="ConstBitStream", func="_setbitpos", lean="setbitpos",
         params=[("pos", "int")], ret="state", state=["_pos"]),
    dict(file="bitstring/bitstream.py", cls="ConstBitStream", func="_getbytepos", lean="getbytepos",
         params=[], ret="int", state=["_pos"], readonly=True),
    # ---- trace mode: guards and index arithmetic are translated, effects on objects are recorded -------------------------
    dict(file="bitstring/bits.py", cls="Bits", func="_setbytes_with_truncation", lean="setbytes_with_truncation", mode="trace",
         pynames=["data", "length", "offset"], params=[("length", "optint"), ("offset", "optint")],
         lens={"len(data)": "len_data"}, no_self_len=True),
    dict(file="bitstring/bits.py", cls="Bits", func="_setbitarray", lean="setbitarray", mode="trace",
         pynames=["ba", "length", "offset"], params=[("length", "optint"), ("offset", "optint")],
         lens={"len(ba)": "len_ba"}, no_self_len=True),
    dict(file="bitstring/bitstore.py", cls="BitStore", func="frombuffer", lean="frombuffer", mode="trace",
         pynames=["buffer", "length"], params=[("length", "optint")], locals_attr=["x.modified_length"],
         lens={"len(x._bitarray)": "len_buffer_bits"}, no_self_len=True),
    dict(file="bitstring/bits.py", cls="Bits", func="__lshift__", lean="lshift", mode="trace", params=[("n", "int")]),
    dict(file="bitstring/bits.py", cls="Bits", func="__rshift__", lean="rshift", mode="trace", params=[("n", "int")]),
    dict(file="bitstring/bitarray_.py", cls="BitArray", func="__ilshift__", lean="ilshift", mode="trace", params=[("n", "int")]),
    dict(file="bitstring/bitarray_.py", cls="BitArray", func="__irshift__", lean="irshift", mode="trace", params=[("n", "int")]),
    dict(file="bitstring/bits.py", cls="Bits", func="__hash__", lean="hash", mode="trace", params=[]),
    dict(file="bitstring/bits.py", cls="Bits", func="__invert__", lean="invert", mode="trace", params=[]),
    dict(file="bitstring/bits.py", cls="Bits", func="__mul__", lean="mul", mode="trace", params=[("n", "int")]),
    dict(file="bitstring/bitarray_.py", cls="BitArray", func="__imul__", lean="imul", mode="trace", params=[("n", "int")]),
    dict(file="bitstring/bits.py", cls="Bits", func="_absolute_slice", lean="absolute_slice", mode="trace",
         params=[("start", "int"), ("end", "int")]),
    dict(file="bitstring/bits.py", cls="Bits", func="_truncateleft", lean="truncateleft", mode="trace", params=[("bits", "int")]),
    dict(file="bitstring/bits.py", cls="Bits", func="_truncateright", lean="truncateright", mode="trace", params=[("bits", "int")]),
    dict(file="bitstring/bitarray_.py", cls="BitArray", func="ror", lean="ror", mode="trace",
         params=[("bits", "int"), ("start", "optint"), ("end", "optint")]),
    dict(file="bitstring/bitarray_.py", cls="BitArray", func="rol", lean="rol", mode="trace",
         params=[("bits", "int"), ("start", "optint"), ("end", "optint")]),
    dict(file="bitstring/bitarray_.py", cls="BitArray", func="_ror_msb0", lean="ror_msb0", mode="trace",
         params=[("bits", "int"), ("start", "optint"), ("end", "optint")]),
    dict(file="bitstring/bitarray_.py", cls="BitArray", func="_rol_msb0", lean="rol_msb0", mode="trace",
         params=[("bits", "int"), ("start", "optint"), ("end", "optint")]),
    # ---- batch 2: mutators with a position, searches (guards, defaults, stream position bookkeeping) -------------------
    dict(file="bitstring/bitarray_.py", cls="BitArray", func="insert", lean="ba_insert", mode="trace",
         pynames=["bs", "pos"], params=[("pos", "int")], lens={"len(bs)": "len_bs"}, bools={"bs is self": "bs_is_self"}),
    dict(file="bitstring/bitarray_.py", cls="BitArray", func="overwrite", lean="ba_overwrite", mode="trace",
         pynames=["bs", "pos"], params=[("pos", "int")], lens={"len(bs)": "len_bs"}, bools={"bs is self": "bs_is_self"}),
    dict(file="bitstring/bitstream.py", cls="BitStream", func="insert", lean="bs_insert", mode="trace",
         pynames=["bs", "pos"], params=[("pos", "optint")], lens={"len(bs)": "len_bs"}, bools={"bs is self": "bs_is_self"},
         attrs={"self._pos": ("self_pos", "int")}),
    dict(file="bitstring/bitstream.py", cls="BitStream", func="overwrite", lean="bs_overwrite", mode="trace",
         pynames=["bs", "pos"], params=[("pos", "optint")], lens={"len(bs)": "len_bs"}, bools={"bs is self": "bs_is_self"},
         attrs={"self._pos": ("self_pos", "int")}),
    # `self._pos = len(self)` is read AFTER self._append(bs): the length after the append is its own parameter
    dict(file="bitstring/bitstream.py", cls="BitStream", func="append", lean="bs_append", mode="trace", pynames=["bs"], params=[],
         post_lens={"len(self)": "self_len_after"}),
    # the length is read again AFTER the mutation: its own parameter (see bs_append)
    dict(file="bitstring/bitstream.py", cls="BitStream", func="__setitem__", lean="bs_setitem", mode="trace", pynames=["key", "value"], params=[],
         post_lens={"len(self)": "self_len_after"}),
    dict(file="bitstring/bitstream.py", cls="BitStream", func="__delitem__", lean="bs_delitem", mode="trace", pynames=["key"], params=[],
         post_lens={"len(self)": "self_len_after"}),
    dict(file="bitstring/bitstream.py", cls="BitStream", func="prepend", lean="bs_prepend", mode="trace", pynames=["bs"], params=[]),
    dict(file="bitstring/bits.py", cls="Bits", func="find", lean="find", mode="trace",
         pynames=["bs", "start", "end", "bytealigned"], params=[("start", "optint"), ("end", "optint"), ("bytealigned", "optbool")],
         lens={"len(bs)": "len_bs"}, attrs={"bitstring.options.bytealigned": ("opt_bytealigned", "bool")}),
    dict(file="bitstring/bits.py", cls="Bits", func="rfind", lean="rfind", mode="trace",
         pynames=["bs", "start", "end", "bytealigned"], params=[("start", "optint"), ("end", "optint"), ("bytealigned", "optbool")],
         lens={"len(bs)": "len_bs"}, attrs={"bitstring.options.bytealigned": ("opt_bytealigned", "bool")}),
    dict(file="bitstring/bits.py", cls="Bits", func="startswith", lean="startswith", mode="trace",
         pynames=["prefix", "start", "end"], params=[("start", "optint"), ("end", "optint")], lens={"len(prefix)": "len_prefix"}),
    dict(file="bitstring/bits.py", cls="Bits", func="endswith", lean="endswith", mode="trace",
         pynames=["suffix", "start", "end"], params=[("start", "optint"), ("end", "optint")], lens={"len(suffix)": "len_suffix"}),
    dict(file="bitstring/bitarray_.py", cls="BitArray", func="reverse", lean="ba_reverse", mode="trace",
         pynames=["start", "end"], params=[("start", "optint"), ("end", "optint")]),
    dict(file="bitstring/bits.py", cls="Bits", func="__add__", lean="add", mode="trace", pynames=["bs"], params=[],
         lens={"len(bs)": "len_bs"}),
    dict(file="bitstring/array_.py", cls="Array", func="append", lean="array_append", mode="trace", pynames=["x"], params=[],
         attrs={"self._dtype.bitlength": ("itemsize", "int")}, lens={"len(self.data)": "len_data"}, no_self_len=True),
    dict(file="bitstring/array_.py", cls="Array", func="pop", lean="array_pop", mode="trace", pynames=["i"], params=[("i", "int")]),
    # ---- batch 5: the length rules of the integer / float setters and the whole-byte rules of the endian getters --------
    dict(file="bitstring/bits.py", cls="Bits", func="_setuint", lean="setuint", mode="trace",
         pynames=["uint", "length"], params=[("length", "optint")], bools={"hasattr(self, 'len')": "has_len"}),
    dict(file="bitstring/bits.py", cls="Bits", func="_setint", lean="setint", mode="trace",
         pynames=["int_", "length"], params=[("length", "optint")], bools={"hasattr(self, 'len')": "has_len"}),
    dict(file="bitstring/bits.py", cls="Bits", func="_setuintbe", lean="setuintbe", mode="trace",
         pynames=["uintbe", "length"], params=[("length", "optint")], bools={"hasattr(self, 'len')": "has_len"}),
    dict(file="bitstring/bits.py", cls="Bits", func="_setintbe", lean="setintbe", mode="trace",
         pynames=["intbe", "length"], params=[("length", "optint")], bools={"hasattr(self, 'len')": "has_len"}),
    dict(file="bitstring/bits.py", cls="Bits", func="_setuintle", lean="setuintle", mode="trace",
         pynames=["uintle", "length"], params=[("length", "optint")], bools={"hasattr(self, 'len')": "has_len"}),
    dict(file="bitstring/bits.py", cls="Bits", func="_setintle", lean="setintle", mode="trace",
         pynames=["intle", "length"], params=[("length", "optint")], bools={"hasattr(self, 'len')": "has_len"}),
    dict(file="bitstring/bits.py", cls="Bits", func="_setfloat", lean="setfloat", mode="trace",
         pynames=["f", "length", "big_endian"], params=[("length", "optint"), ("big_endian", "bool")],
         bools={"hasattr(self, 'len')": "has_len"}),
    dict(file="bitstring/bits.py", cls="Bits", func="_getuint", lean="getuint", mode="trace", params=[]),
    dict(file="bitstring/bits.py", cls="Bits", func="_getint", lean="getint", mode="trace", params=[]),
    dict(file="bitstring/bits.py", cls="Bits", func="_getuintbe", lean="getuintbe", mode="trace", params=[]),
    dict(file="bitstring/bits.py", cls="Bits", func="_getintbe", lean="getintbe", mode="trace", params=[]),
    dict(file="bitstring/bits.py", cls="Bits", func="_getuintle", lean="getuintle", mode="trace", params=[]),
    dict(file="bitstring/bits.py", cls="Bits", func="_getintle", lean="getintle", mode="trace", params=[]),
    # ---- batch 3: loops ----------------------------------------------------------------------------------------------
    dict(file="bitstring/bits.py", cls="Bits", func="_imul", lean="imul_loop", mode="trace", params=[("n", "int")], fuel={1: "n"}),
    # BitArray.invert(pos) once pos is an iterable of ints (the part after the None / single-int dispatch)
    dict(file="bitstring/bitarray_.py", cls="BitArray", func="invert", lean="invert_positions", mode="trace", region=r"\w+ = len\(self\)$",
         params=[("pos", "intlist")], err_trace=True),
    # BitArray.byteswap once the format is a list of byte sizes and the range is validated
    dict(file="bitstring/bitarray_.py", cls="BitArray", func="byteswap", lean="byteswap_core", mode="trace", region=r"\w+ = 0$",
         params=[("start_v", "int"), ("end_v", "int"), ("bytesizes", "intlist"), ("repeat", "bool")]),
    # ---- batch 4: exponential-Golomb readers (loops over the bits, try/except IndexError -> ReadError) ------------------
    dict(file="bitstring/bits.py", cls="Bits", func="_readue", lean="readue", params=[("pos", "int")], ret=("int", "int"),
         self_bits=True, attrs={"bitstring.options.lsb0": ("opt_lsb0", "bool")}, fuel={1: "2 * len(self) + 2"},
         calls={"self[_:_]._getuint()": ("Py.uintOfSlice self_bits", ["int", "int"], "int", True)}),
    dict(file="bitstring/bits.py", cls="Bits", func="_readse", lean="readse", params=[("pos", "int")], ret=("int", "int"),
         self_bits=True, attrs={"bitstring.options.lsb0": ("opt_lsb0", "bool")}),
    dict(file="bitstring/bits.py", cls="Bits", func="_readuie", lean="readuie", params=[("pos", "int")], ret=("int", "int"),
         self_bits=True, attrs={"bitstring.options.lsb0": ("opt_lsb0", "bool")}, fuel={1: "2 * len(self) + 2"}),
    dict(file="bitstring/bits.py", cls="Bits", func="_readsie", lean="readsie", params=[("pos", "int")], ret=("int", "int"),
         self_bits=True, attrs={"bitstring.options.lsb0": ("opt_lsb0", "bool")}),
    # Array.fromfile after the file has been read into new_data; Array.reverse (the slice swaps keep len(self.data))
    dict(file="bitstring/array_.py", cls="Array", func="fromfile", lean="array_fromfile", mode="trace", region=r"\w+ = len\(new_data\) // ",
         params=[("n", "optint")], attrs={"self._dtype.bitlength": ("itemsize", "int")}, lens={"len(new_data)": "len_new_data"},
         err_trace=True, no_self_len=True),
    dict(file="bitstring/array_.py", cls="Array", func="reverse", lean="array_reverse", mode="trace", params=[],
         attrs={"self._dtype.bitlength": ("itemsize", "int")}, lens={"len(self.data)": "len_data"}, stable_lens=["len(self.data)"],
         no_self_len=True),
    # Bits.tofile: the chunk loop (the chunk size itself - constant or hook override - is extracted by extract_C17)
    dict(file="bitstring/bits.py", cls="Bits", func="tofile", lean="tofile_loop", mode="trace", region=r"for \w+ in range\(",
         params=[("chunk_size", "int")]),
    # Array: len(self) is the number of items, self._dtype.bitlength the item width in bits
    dict(file="bitstring/array_.py", cls="Array", func="insert", lean="array_insert", mode="trace",
         pynames=["i", "x"], params=[("i", "int")], attrs={"self._dtype.bitlength": ("itemsize", "int")}),
    # `self.pos += skipped` goes through the property: pos = property(_getbitpos, _setbitpos) (checked in the source)
    dict(file="bitstring/bitstream.py", cls="ConstBitStream", func="bytealign", lean="bytealign",
         params=[], ret="int", state=["_pos"], returns_state=True, uses_pos_property=True),
]

# calls of functions translated earlier in TARGETS: python callee -> (lean name, leading lean args, param types, result types)
KNOWN_CALLS = {"self._validate_slice": ("validate_slice", ["self_len"], ["optint", "optint"], ["int", "int"], []),
               "self._readue": ("readue", ["self_bits"], ["int"], ["int", "int"], ["opt_lsb0"]),
               "self._readuie": ("readuie", ["self_bits"], ["int"], ["int", "int"], ["opt_lsb0"])}

EXC = {"ValueError": ".value", "CreationError": ".value", "InterpretError": ".value", "IndexError": ".index",
       "ReadError": ".read", "TypeError": ".type", "Error": ".bitstring", "ByteAlignError": ".byteAlign",
       "AssertionError": '(.internal "AssertionError")', "EOFError": '(.internal "EOFError")'}

LEAN_T = {"int": "Int", "optint": "Option Int", "bool": "Bool", "optbool": "Option Bool", "slice": "Py.Slice",
          "intlist": "List Int", "trace": "List Py.Act"}
OPT = {"optint": "int", "optbool": "bool"}          # Optional[...] types and what `is not None` narrows them to


class Untranslatable(Exception):
    pass


class _SubEnd(ast.stmt):
    """synthetic statement: the end of a try body (fall through with the current values of its variables)"""
    _fields = ()


class _LoopNext(ast.stmt):
    """synthetic statement: go to the next iteration of the innermost loop being translated"""
    _fields = ()


LEAN_KEYWORDS = {"repeat", "end", "at", "from", "in", "do", "then", "else", "fun", "let", "match", "with", "open", "by", "have", "show",
                 "if", "where", "instance", "structure", "def", "theorem", "namespace", "section", "local", "export"}


def lname(p):
    return p + "_" if p in LEAN_KEYWORDS else p


def lean_type(t):
    if isinstance(t, tuple):
        return " × ".join(("(" + lean_type(x) + ")") if isinstance(x, tuple) else lean_type(x) for x in t)
    return LEAN_T[t]


# ----------------------------------------------------------------------------------------------------------------------
# expressions: (lean term, type)
# ----------------------------------------------------------------------------------------------------------------------
class Tr:
    def __init__(self, spec):
        self.spec = spec
        self.fresh = 0
        self.state = spec.get("state", [])
        self.trace = spec.get("mode") == "trace"
        self.dirty = set()          # roots changed AFTER one of their lengths was first read on this path
        self.len_read = set()       # roots one of whose lengths has been read on this path
        self.changed = set()        # roots that a statement on this path may have changed (read or not)
        self.single_self_mutation = False   # the function has exactly one statement that can change self (set by translate_one)
        self.local_objs = {}        # local names bound in the body -> L1, L2, ... (so that renaming a local is harmless)
        self.local_names = set()    # every name the body binds
        self.aux = []               # auxiliary Lean definitions (one per loop), emitted before the function
        self.loops = []             # stack of loops being translated: dict(call=…, state=[keys])
        self.nloops = 0
        self.sig_params = ""        # the Lean binders of the function (loops take the same ones)
        self.hoist_stack = []       # raising sub-expressions of the statement being translated: [(var, term)]
        self.subs = []              # try bodies being translated: dict(keys=[...])
        self.sc_depth = 0           # > 0 inside the non-first operand of and / or (no raising sub-expression allowed there)

    def key(self, node):
        return ast.unparse(node)

    def hoist(self, term, base="h"):
        """bind a raising sub-expression before the statement that contains it; returns the bound name"""
        if self.sc_depth or not self.hoist_stack:
            raise Untranslatable("raising sub-expression in a short-circuited position")
        v = self.new(base)
        self.hoist_stack[-1].append((v, term))
        return v

    def ok(self, term):
        """`return term` — inside a try body the value is tagged (Sum.inl), the fall-through is Sum.inr"""
        return f".ok (Sum.inl {term})" if self.subs else f".ok {term}"

    def new(self, base):
        self.fresh += 1
        return f"{base}_{self.fresh}"

    # -- coercion ------------------------------------------------------------------------------------------------
    def coerce(self, term, t, want):
        if t == want:
            return term
        if (t, want) in (("int", "optint"), ("bool", "optbool")):
            return f"(some {term})"
        if t == "none" and want in OPT:
            return "none"
        if isinstance(t, tuple) and isinstance(want, tuple) and len(t) == len(want):
            # only literal tuples reach here (built by expr), re-coerce componentwise
            raise Untranslatable(f"tuple coercion {t} -> {want}")
        raise Untranslatable(f"cannot use a {t} where a {want} is needed")

    def join(self, t1, t2):
        if t1 == t2:
            return t1
        if {t1, t2} <= {"int", "optint", "none"}:
            return "optint"
        if {t1, t2} <= {"bool", "optbool", "none"}:
            return "optbool"
        raise Untranslatable(f"branches of different types {t1} / {t2}")

    # -- expressions ---------------------------------------------------------------------------------------------
    def expr(self, n, env):
        if isinstance(n, ast.Constant):
            if n.value is None:
                return "none", "none"
            if isinstance(n.value, bool):
                return ("true" if n.value else "false"), "bool"
            if isinstance(n.value, int):
                return f"({n.value} : Int)", "int"
            raise Untranslatable(f"constant {n.value!r}")
        if isinstance(n, (ast.Name, ast.Attribute)):
            k = self.key(n)
            if k in env:
                return env[k]
            if isinstance(n, ast.Attribute) and n.attr in ("start", "stop", "step"):
                b, t = self.expr(n.value, env)
                if t == "slice":
                    return f"{b}.{n.attr}", "optint"
            raise Untranslatable(f"unknown name {k}")
        if isinstance(n, ast.UnaryOp):
            if isinstance(n.op, ast.USub):
                a, t = self.expr(n.operand, env)
                self.need(t, "int", n)
                return f"(-{a})", "int"
            if isinstance(n.op, ast.Not):
                return f"(!{self.cond(n.operand, env)})", "bool"
        if isinstance(n, ast.Subscript) and isinstance(n.value, ast.Name) and n.value.id == "self" and self.spec.get("self_bits") \
                and not isinstance(n.slice, ast.Slice):
            i, ti = self.expr(n.slice, env)
            self.need(ti, "int", n)
            return self.hoist(f"Py.bitAt self_bits {i}", "bit"), "bool"       # IndexError outside the data
        if isinstance(n, (ast.Call, ast.Attribute, ast.Subscript)) and self.spec.get("calls"):
            saved = self.fresh
            try:
                text, raw = self.abstract(n, env, raw=True)
            except Untranslatable:
                text, raw = None, None
            if text in self.spec["calls"]:
                fn, ptypes, rtype, raising = self.spec["calls"][text]
                if [t for _, t in raw] != ptypes:
                    raise Untranslatable(f"{ast.unparse(n)}: argument types {[t for _, t in raw]}")
                term = f"{fn} " + " ".join(a for a, _ in raw)
                return (self.hoist(term, "c") if raising else f"({term})"), rtype
            self.fresh = saved
        if isinstance(n, ast.BinOp):
            a, ta = self.expr(n.left, env)
            b, tb = self.expr(n.right, env)
            if ta == "bool":
                a, ta = f"(if {a} then (1 : Int) else 0)", "int"          # True + 1 == 2
            if tb == "bool":
                b, tb = f"(if {b} then (1 : Int) else 0)", "int"
            self.need(ta, "int", n); self.need(tb, "int", n)
            if isinstance(n.op, (ast.LShift, ast.RShift)):
                fn = "Py.shlE" if isinstance(n.op, ast.LShift) else "Py.shrE"   # ValueError for a negative count
                return self.hoist(f"{fn} {a} {b}", "sh"), "int"
            op = {ast.Add: "+", ast.Sub: "-", ast.Mult: "*"}.get(type(n.op))
            if op:
                return f"({a} {op} {b})", "int"
            if isinstance(n.op, (ast.FloorDiv, ast.Mod)):
                fn = "fdiv" if isinstance(n.op, ast.FloorDiv) else "fmod"
                if isinstance(n.right, ast.Constant) and isinstance(n.right.value, int) and n.right.value != 0:
                    return f"(Int.{fn} {a} {b})", "int"
                # a divisor that is not a non-zero literal: ZeroDivisionError is possible, so the operation is a raising one
                return self.hoist(f"Py.{fn}E {a} {b}", "q"), "int"
            raise Untranslatable(f"operator {type(n.op).__name__}")
        if isinstance(n, (ast.Compare, ast.BoolOp)):
            return self.cond(n, env), "bool"
        if isinstance(n, ast.IfExp):
            return self.ifexp(n, env)
        if isinstance(n, ast.Tuple):
            parts = [self.expr(e, env) for e in n.elts]
            return "(" + ", ".join(p[0] for p in parts) + ")", tuple(p[1] for p in parts)
        if isinstance(n, ast.Call):
            f = n.func
            if isinstance(f, ast.Name) and f.id == "len" and len(n.args) == 1:
                a = n.args[0]
                if isinstance(a, ast.Name) and a.id == "self":
                    if "self" in self.changed:
                        # the length AFTER the effects recorded so far: a separately declared parameter, or out of the subset
                        # (if the length was also read BEFORE the change, the two reads are only unambiguous when the
                        #  function contains exactly one statement that can change self)
                        if "len(self)" in self.spec.get("post_lens", {}) and ("self" not in self.dirty or self.single_self_mutation):
                            return self.spec["post_lens"]["len(self)"], "int"
                        raise Untranslatable("len(self) read after a statement that may have changed self")
                    self.len_read.add("self")
                    return ("(self_bits.length : Int)" if self.spec.get("self_bits") else "self_len"), "int"
                k = self.key(n)
                if k in self.spec.get("lens", {}):
                    root = k[4:-1].split(".")[0].split("[")[0]
                    if root in self.dirty and k not in self.spec.get("stable_lens", []):   # declared len(x) = value at its FIRST read
                        raise Untranslatable(f"{k} read after a statement that may have changed {root}")
                    self.len_read.add(root)
                    return self.spec["lens"][k], "int"
                if isinstance(a, ast.Call) and isinstance(a.func, ast.Name) and a.func.id == "range" and len(a.args) == 3:
                    xs = [self.expr(x, env) for x in a.args]
                    for _, t in xs:
                        self.need(t, "int", n)
                    return f"(Py.rangeLenI {xs[0][0]} {xs[1][0]} {xs[2][0]})", "int"
            if isinstance(f, ast.Name) and f.id == "slice" and len(n.args) == 3:
                xs = [self.expr(x, env) for x in n.args]
                return "(Py.Slice.mk " + " ".join(self.coerce(a, t, "optint") for a, t in xs) + ")", "slice"
            if isinstance(f, ast.Name) and f.id == "sum" and len(n.args) == 1:
                a, t = self.expr(n.args[0], env)
                self.need(t, "intlist", n)
                return f"(Py.sumI {a})", "int"
            if isinstance(f, ast.Name) and f.id in ("min", "max") and len(n.args) == 2:
                xs = [self.expr(x, env) for x in n.args]
                for _, t in xs:
                    self.need(t, "int", n)
                return f"({f.id} {xs[0][0]} {xs[1][0]})", "int"
        raise Untranslatable(f"expression {ast.unparse(n)}")

    def need(self, t, want, n):
        if t != want:
            raise Untranslatable(f"{ast.unparse(n)}: operand of type {t}, {want} needed")

    def none_test(self, n):
        """(expr node, is_none?) when n is `X is None` / `X is not None`."""
        if isinstance(n, ast.Compare) and len(n.ops) == 1 and isinstance(n.comparators[0], ast.Constant) \
                and n.comparators[0].value is None:
            if isinstance(n.ops[0], ast.Is):
                return n.left, True
            if isinstance(n.ops[0], ast.IsNot):
                return n.left, False
        return None

    def narrowed(self, x, env):
        """env in which the Optional[int] expression x is the int bound to a fresh name."""
        v = self.new("v")
        e2 = dict(env); e2[self.key(x)] = (v, OPT[self.expr(x, env)[1]])
        return v, e2

    def cond(self, n, env):
        """Bool-valued Lean term for the Python condition n."""
        if self.key(n) in self.spec.get("bools", {}):               # declared opaque condition (e.g. `bs is self`)
            return self.spec["bools"][self.key(n)]
        nt = self.none_test(n)
        if nt:
            a, t = self.expr(nt[0], env)
            if t in ("int", "bool"):
                return "false" if nt[1] else "true"
            if t == "none":
                return "true" if nt[1] else "false"
            if t not in OPT:
                raise Untranslatable(f"{ast.unparse(n)}: `is None` on a {t}")
            return f"({a}).isNone" if nt[1] else f"({a}).isSome"
        if isinstance(n, ast.BoolOp):
            first, rest = n.values[0], n.values[1:]
            if not rest:
                return self.cond(first, env)
            tail = ast.BoolOp(op=n.op, values=rest) if len(rest) > 1 else rest[0]
            nt = self.none_test(first)
            if nt:
                a, t = self.expr(nt[0], env)
                if t in OPT:
                    v, e2 = self.narrowed(nt[0], env)
                    if isinstance(n.op, ast.Or) and nt[1]:          # X is None or P(X)
                        return f"(match {a} with | none => true | some {v} => {self.cond(tail, e2)})"
                    if isinstance(n.op, ast.And) and not nt[1]:     # X is not None and P(X)
                        return f"(match {a} with | none => false | some {v} => {self.cond(tail, e2)})"
            op = "&&" if isinstance(n.op, ast.And) else "||"
            c1 = self.cond(first, env)
            self.sc_depth += 1
            try:
                c2 = self.cond(tail, env)
            finally:
                self.sc_depth -= 1
            return f"({c1} {op} {c2})"
        if isinstance(n, ast.UnaryOp) and isinstance(n.op, ast.Not):
            return f"(!{self.cond(n.operand, env)})"
        if isinstance(n, ast.Compare) and len(n.ops) == 1 and isinstance(n.ops[0], (ast.In, ast.NotIn)) \
                and isinstance(n.comparators[0], (ast.List, ast.Tuple, ast.Set)):
            a, t = self.expr(n.left, env)
            self.need(t, "int", n)
            alts = []
            for e in n.comparators[0].elts:
                b, tb = self.expr(e, env)
                self.need(tb, "int", n)
                alts.append(f"decide ({a} = {b})")
            c = "(" + " || ".join(alts) + ")" if alts else "false"
            return f"(!{c})" if isinstance(n.ops[0], ast.NotIn) else c
        if isinstance(n, ast.Compare):
            terms = [n.left] + list(n.comparators)
            xs = [self.expr(x, env) for x in terms]
            out = []
            for i, op in enumerate(n.ops):
                (a, ta), (b, tb) = xs[i], xs[i + 1]
                self.need(ta, "int", n); self.need(tb, "int", n)
                sym = {ast.Lt: "<", ast.LtE: "≤", ast.Gt: ">", ast.GtE: "≥", ast.Eq: "=", ast.NotEq: "≠"}.get(type(op))
                if not sym:
                    raise Untranslatable(f"comparison {type(op).__name__}")
                out.append(f"decide ({a} {sym} {b})")
            return "(" + " && ".join(out) + ")"
        a, t = self.expr(n, env)
        if t == "bool":
            return a
        if t == "int":                                               # truthiness of an int
            return f"(decide ({a} ≠ 0))"
        raise Untranslatable(f"truth value of a {t}: {ast.unparse(n)}")

    def ifexp(self, n, env):
        nt = self.none_test(n.test)
        if nt:
            a, t = self.expr(nt[0], env)
            if t in ("int", "bool", "none"):
                return self.expr(n.body if (t == "none") == nt[1] else n.orelse, env)
            if t in OPT:
                v, e2 = self.narrowed(nt[0], env)
                none_branch, some_branch = (n.body, n.orelse) if nt[1] else (n.orelse, n.body)
                x, tx = self.expr(none_branch, env)
                y, ty = self.expr(some_branch, e2)
                t = self.join(tx, ty)
                return f"(match {a} with | none => {self.coerce(x, tx, t)} | some {v} => {self.coerce(y, ty, t)})", t
        c = self.cond(n.test, env)
        self.sc_depth += 1
        try:
            x, tx = self.expr(n.body, env)
            y, ty = self.expr(n.orelse, env)
        finally:
            self.sc_depth -= 1
        t = self.join(tx, ty)
        return f"(if {c} then {self.coerce(x, tx, t)} else {self.coerce(y, ty, t)})", t

    # -- statements -----------------------------------------------------------------------------------------------
    def ret_term(self, term, t, env):
        want = self.spec["ret"]
        if want == "state":
            raise Untranslatable("return with a value in a state-only function")
        if isinstance(want, tuple):
            if not (isinstance(t, tuple) and len(t) == len(want)):
                raise Untranslatable(f"returns {t}, {want} declared")
            return term, t                                            # coerced componentwise by the caller
        return self.coerce(term, t, want), want

    def final_state(self, env):
        return ", ".join(env[f"self.{a}"][0] for a in self.state)

    def block(self, stmts, env, ind):
        """Lean term of type Except Err <ret> for the statement list; raising sub-expressions of the first statement are
        bound in front of it."""
        mine = []
        self.hoist_stack.append(mine)
        try:
            res = self._block1(stmts, env, ind)
        finally:
            self.hoist_stack.pop()
        pad = "  " * ind
        if mine and self.spec.get("err_trace"):
            tr_ = env["__trace"][0]
            return "".join(f"{pad}match {term} with\n{pad}| .error e_ => .error (e_, {tr_})\n{pad}| .ok {v} =>\n" for v, term in mine) + res
        return "".join(f"{pad}({term}).bind fun {v} =>\n" for v, term in mine) + res

    def _block1(self, stmts, env, ind):
        pad = "  " * ind
        if self.trace:
            r = self.trace_stmt(stmts, env, ind)
            if r is not None:
                return r
        if not stmts:
            if self.spec["ret"] == "state":
                return f"{pad}.ok ({self.final_state(env)})"
            raise Untranslatable("control reaches the end of a function that must return a value")
        s, rest = stmts[0], stmts[1:]
        if isinstance(s, ast.Expr) and isinstance(s.value, ast.Constant) and isinstance(s.value.value, str):
            return self.block(rest, env, ind)                         # docstring
        if isinstance(s, ast.Pass):
            return self.block(rest, env, ind)
        if isinstance(s, (_LoopNext, ast.Continue)):
            if not self.loops:
                raise Untranslatable("continue outside a loop")
            return f"{pad}{self.loops[-1]['call']} {self.state_tuple(self.loops[-1]['state'], env)}"
        if isinstance(s, ast.Break):
            if not self.loops:
                raise Untranslatable("break outside a loop")
            return f"{pad}.ok {self.state_tuple(self.loops[-1]['state'], env)}"
        if isinstance(s, (ast.For, ast.While)):
            return self.loop(s, rest, env, ind)
        if isinstance(s, _SubEnd):
            keys = self.subs[-1]["keys"]
            for k_ in keys:
                if k_ not in env or env[k_][1] != "int":
                    raise Untranslatable(f"try body: {k_} is not an int on every path")
            return f"{pad}.ok (Sum.inr {self.state_tuple(keys, env) if keys else '()'})"
        if isinstance(s, ast.Try):
            return self.try_(s, rest, env, ind)
        if isinstance(s, ast.Return) and self.loops:
            raise Untranslatable("return inside a loop")
        if isinstance(s, ast.Return):
            if s.value is None:
                return self.block([], env, ind)
            if isinstance(s.value, ast.Call) and self.is_indices_call(s.value):
                a, b = self.indices_call(s.value, env)
                want = self.spec["ret"]
                if want == ("int", "int", "int"):
                    return f"{pad}{a}"
                if isinstance(want, tuple) and len(want) == 3:
                    vs = [self.new("r") for _ in range(3)]
                    comps = ", ".join(self.coerce(v, "int", w) for v, w in zip(vs, want))
                    return f"{pad}({a}).bind fun ({', '.join(vs)}) =>\n{pad}{self.ok('(' + comps + ')')}"
                raise Untranslatable("slice.indices returned where another type is declared")
            want = self.spec["ret"]
            if isinstance(want, tuple) and isinstance(s.value, ast.Tuple) and len(s.value.elts) == len(want):
                comps = []
                for e, w in zip(s.value.elts, want):
                    a, t = self.expr(e, env)
                    comps.append(self.coerce(a, t, w))
                return f"{pad}{self.ok('(' + ', '.join(comps) + ')')}"
            a, t = self.expr(s.value, env)
            term, _ = self.ret_term(a, t, env)
            if self.spec.get("returns_state"):
                return f"{pad}{self.ok('(' + term + ', ' + self.final_state(env) + ')')}"
            return f"{pad}{self.ok(term)}"
        if isinstance(s, ast.Raise):
            exc = s.exc
            if isinstance(exc, ast.Call):
                exc = exc.func
            name = exc.attr if isinstance(exc, ast.Attribute) else getattr(exc, "id", None)
            if name not in EXC:
                raise Untranslatable(f"raise {ast.unparse(s.exc) if s.exc else ''}")
            return f"{pad}{self.err(EXC[name], env)}"
        if isinstance(s, ast.Assert):
            c = self.cond(s.test, env)
            return f"{pad}if {c} then\n{self.block(rest, env, ind + 1)}\n{pad}else {self.err(EXC['AssertionError'], env)}"
        if isinstance(s, ast.AugAssign):
            s = ast.Assign(targets=[s.target], value=ast.BinOp(left=s.target, op=s.op, right=s.value))
        if isinstance(s, ast.AnnAssign) and s.value is not None:
            s = ast.Assign(targets=[s.target], value=s.value)
        if isinstance(s, ast.Assign) and len(s.targets) == 1:
            tgt = s.targets[0]
            if isinstance(tgt, ast.Tuple) and isinstance(s.value, ast.Call) and self.is_indices_call(s.value):
                a, _ = self.indices_call(s.value, env)
                names = []
                e2 = dict(env)
                for el in tgt.elts:
                    if not isinstance(el, ast.Name):
                        raise Untranslatable("tuple target")
                    v = self.new(el.id); names.append(v); e2[el.id] = (v, "int")
                if len(names) != 3:
                    raise Untranslatable("slice.indices unpacked into other than three names")
                return f"{pad}({a}).bind fun ({', '.join(names)}) =>\n{self.block(rest, e2, ind)}"
            if isinstance(tgt, ast.Tuple) and isinstance(s.value, ast.Call) and self.key(s.value.func) in KNOWN_CALLS:
                lean, pre, ptypes, rtypes, post = KNOWN_CALLS[self.key(s.value.func)]
                if len(s.value.args) != len(ptypes) or s.value.keywords or len(tgt.elts) != len(rtypes):
                    raise Untranslatable(f"call {ast.unparse(s.value)}")
                args = []
                for a, want in zip(s.value.args, ptypes):
                    x, t = self.expr(a, env)
                    args.append(self.coerce(x, t, want))
                names = []; e2 = dict(env)
                for el, rt_ in zip(tgt.elts, rtypes):
                    if not isinstance(el, ast.Name):
                        raise Untranslatable("tuple target")
                    v = self.new(el.id); names.append(v); e2[el.id] = (v, rt_)
                if self.spec.get("err_trace"):
                    return (f"{pad}match {lean} {' '.join(pre + args + post)} with\n{pad}| .error e_ => .error (e_, {env['__trace'][0]})\n"
                            f"{pad}| .ok ({', '.join(names)}) =>\n{self.block(rest, e2, ind + 1)}")
                return (f"{pad}({lean} {' '.join(pre + args + post)}).bind fun ({', '.join(names)}) =>\n"
                        f"{self.block(rest, e2, ind)}")
            if isinstance(tgt, ast.Tuple) and isinstance(s.value, ast.Tuple) and len(tgt.elts) == len(s.value.elts):
                vals = [self.expr(e, env) for e in s.value.elts]
                e2 = dict(env); lines = []
                for el, (a, t) in zip(tgt.elts, vals):
                    v = self.new(self.key(el).replace(".", "_")); lines.append(f"{pad}let {v} := {a}")
                    e2[self.key(el)] = (v, t)
                return "\n".join(lines) + "\n" + self.block(rest, e2, ind)
            if isinstance(tgt, ast.Attribute) and self.key(tgt) == "self.pos" and self.spec.get("uses_pos_property"):
                a, t = self.expr(s.value, env)
                self.need(t, "int", s)
                v = self.new("self__pos")
                e2 = dict(env); e2["self._pos"] = (v, "int"); e2["self.pos"] = (v, "int")
                return (f"{pad}(setbitpos self_len {env['self._pos'][0]} {a}).bind fun {v} =>\n"
                        f"{self.block(rest, e2, ind)}")
            if isinstance(tgt, (ast.Name, ast.Attribute)):
                k = self.key(tgt)
                if isinstance(tgt, ast.Attribute) and not (k.startswith("self.") and k[5:] in self.state
                                                           and not self.spec.get("readonly")):
                    raise Untranslatable(f"assignment to {k}")
                a, t = self.expr(s.value, env)
                if t == "none":
                    t = "optint"
                v = self.new(k.replace(".", "_"))
                e2 = dict(env); e2[k] = (v, t)
                return f"{pad}let {v} : {lean_type(t)} := {a}\n{self.block(rest, e2, ind)}"
        if isinstance(s, ast.If):
            j = self.join_if(s, rest, env, ind)
            if j is not None:
                return j
            nt = self.none_test(s.test)
            if nt:
                a, t = self.expr(nt[0], env)
                if t in ("int", "bool", "none"):                      # decided by what is already known on this path
                    taken = s.body if (t == "none") == nt[1] else s.orelse
                    return self.branch(taken, rest, env, ind)
                if t in OPT:
                    v, e2 = self.narrowed(nt[0], env)
                    e0 = dict(env); e0[self.key(nt[0])] = ("none", "none")
                    nb, sb = (s.body, s.orelse) if nt[1] else (s.orelse, s.body)
                    return (f"{pad}match {a} with\n{pad}| none =>\n{self.branch(nb, rest, e0, ind + 1)}\n"
                            f"{pad}| some {v} =>\n{self.branch(sb, rest, e2, ind + 1)}")
            if isinstance(s.test, ast.BoolOp) and len(s.test.values) >= 2:
                first, more = s.test.values[0], s.test.values[1:]
                nt = self.none_test(first)
                if nt:
                    a, t = self.expr(nt[0], env)
                    if t in OPT and (isinstance(s.test.op, ast.Or) == nt[1]):
                        # `X is None or P(X)`  /  `X is not None and P(X)`: X is an int wherever P is evaluated AND in
                        # the branch taken when P decides
                        v, e2 = self.narrowed(nt[0], env)
                        tail = ast.BoolOp(op=s.test.op, values=more) if len(more) > 1 else more[0]
                        inner = ast.If(test=tail, body=s.body, orelse=s.orelse)
                        short = s.body if nt[1] else s.orelse
                        e0 = dict(env); e0[self.key(nt[0])] = ("none", "none")
                        return (f"{pad}match {a} with\n{pad}| none =>\n{self.branch(short, rest, e0, ind + 1)}\n"
                                f"{pad}| some {v} =>\n{self.block([inner] + list(rest), e2, ind + 1)}")
            c = self.cond(s.test, env)
            if c in ("true", "false"):
                return self.branch(s.body if c == "true" else s.orelse, rest, env, ind)
            return (f"{pad}if {c} then\n{self.branch(s.body, rest, env, ind + 1)}\n"
                    f"{pad}else\n{self.branch(s.orelse, rest, env, ind + 1)}")
        raise Untranslatable(f"statement {ast.unparse(s).splitlines()[0]}")

    # -- trace mode: effects on objects are recorded, not interpreted ---------------------------------------------------
    def abstract(self, node, env, raw=False):
        """Source text of node with every maximal int / Optional[int] sub-expression replaced by `_`, and the Lean terms
        (as Option Int) of the replaced sub-expressions in order of appearance."""
        args = []
        tr = self
        root_copy = [None]

        class A(ast.NodeTransformer):
            def visit_Name(self, n):
                if n.id in tr.local_names:
                    # numbered at first appearance in a recorded effect: integer locals never appear (they are `_`),
                    # so introducing or removing one does not renumber the object locals
                    if n.id not in tr.local_objs:
                        tr.local_objs[n.id] = f"L{len(tr.local_objs) + 1}"
                    return ast.copy_location(ast.Name(id=tr.local_objs[n.id], ctx=n.ctx), n)
                return n

            def visit(self, n):
                if raw and n is root_copy[0]:
                    return self.generic_visit(n)        # the vocabulary expression itself is not a hole
                if isinstance(getattr(n, "ctx", None), (ast.Store, ast.Del)) and not isinstance(n, ast.Name):
                    # an assignment / deletion target is an effect, not a value: keep its text, abstract only inside it
                    return self.generic_visit(n)
                if isinstance(n, ast.expr) and not isinstance(n, (ast.Starred,)):
                    if not (isinstance(n, ast.Constant) and not isinstance(n.value, (int, type(None)))
                            or isinstance(n, ast.Constant) and isinstance(n.value, bool)):
                        try:
                            fresh0 = tr.fresh
                            a, t = tr.expr(n, env)
                            if raw and t in ("int", "optint", "bool"):
                                if isinstance(n, ast.Name) and n.id == "self":
                                    raise Untranslatable("self")
                                args.append((a, t))
                                return ast.copy_location(ast.Name(id="_", ctx=ast.Load()), n)
                            if t in ("int", "optint"):
                                args.append(tr.coerce(a, t, "optint"))
                                return ast.copy_location(ast.Name(id="_", ctx=ast.Load()), n)
                            if t in ("bool", "optbool") and not isinstance(n, ast.Constant):
                                # a Boolean value is recorded as 1 / 0 (None for an Optional[bool] that is None)
                                b = a if t == "optbool" else f"(some {a})"
                                args.append(f"(({b}).map fun (b : Bool) => if b then (1 : Int) else 0)")
                                return ast.copy_location(ast.Name(id="_b", ctx=ast.Load()), n)
                            tr.fresh = fresh0
                        except Untranslatable:
                            pass
                if isinstance(n, ast.Name):
                    return self.visit_Name(n)
                return self.generic_visit(n)

        import copy
        root_copy = [copy.deepcopy(node)]
        new = A().visit(root_copy[0])
        ast.fix_missing_locations(new)
        return ast.unparse(new), args

    def act(self, node, env, prefix=""):
        name, args = self.abstract(node, env)
        name = (prefix + name).replace("\\", "\\\\").replace('"', '\\"')
        return f'Py.Act.mk "{name}" [{", ".join(args)}]'

    def final_attrs(self, env):
        """The final values of the integer attributes kept as locals (`locals_attr`), appended to the trace."""
        out = []
        for k in self.spec.get("locals_attr", []):
            if k in env:
                a, t = env[k]
                out.append(f'Py.Act.mk "final {k} = _" [{self.coerce(a, t, "optint")}]')
        return (" ++ [" + ", ".join(out) + "]") if out else ""

    def push(self, act, env, pad):
        v = self.new("tr")
        e2 = dict(env); e2["__trace"] = (v, "trace")
        return f"{pad}let {v} : List Py.Act := {env['__trace'][0]} ++ [{act}]\n", e2

    def mark_dirty(self, s):
        """Objects a statement may have changed: the receiver of a call made as a statement, the root of an assignment
        target.  (A call in value position is assumed not to change `self` or its other arguments.)"""
        def root(n):
            while isinstance(n, (ast.Attribute, ast.Subscript, ast.Call)):
                n = n.func if isinstance(n, ast.Call) else n.value
            if isinstance(n, ast.Name):
                return "self" if n.id == "super" else n.id     # super().m(...) acts on self
            return None
        if isinstance(s, ast.Expr) and isinstance(s.value, ast.Call) and isinstance(s.value.func, ast.Attribute):
            r = root(s.value.func.value)
            if r:
                self.changed.add(r)
            if r and r in self.len_read:
                self.dirty.add(r)
        for t in getattr(s, "targets", []) + ([s.target] if hasattr(s, "target") else []):
            r = root(t)
            if r:
                self.changed.add(r)
            if r and r in self.len_read:
                self.dirty.add(r)

    def trace_stmt(self, stmts, env, ind):
        """Trace-mode handling of the statement list; None = let the ordinary translation handle the first statement."""
        pad = "  " * ind
        if not stmts:
            if self.loops:
                raise Untranslatable("internal: loop body without continuation")
            return f"{pad}.ok ({env['__trace'][0]}{self.final_attrs(env)})"
        s, rest = stmts[0], stmts[1:]
        if isinstance(s, (_LoopNext, ast.Continue, ast.Break, ast.For, ast.While)):
            return None
        if isinstance(s, ast.Return) and self.loops:
            raise Untranslatable("return inside a loop")
        if isinstance(s, ast.Return):
            fin = self.final_attrs(env)
            if s.value is None:
                return f"{pad}.ok ({env['__trace'][0]}{fin})"
            return f"{pad}.ok ({env['__trace'][0]} ++ [{self.act(s.value, env, 'return ')}]{fin})"
        if isinstance(s, (ast.Raise, ast.Assert, ast.If, ast.Pass)):
            return None
        if isinstance(s, ast.Expr) and isinstance(s.value, ast.Constant) and isinstance(s.value.value, str):
            return None
        if isinstance(s, ast.Assign) and isinstance(s.targets[0], ast.Tuple) and isinstance(s.value, ast.Call) \
                and (self.key(s.value.func) in KNOWN_CALLS or self.is_indices_call(s.value)):
            return None
        if isinstance(s, (ast.Assign, ast.AugAssign, ast.AnnAssign)):
            # an assignment the integer fragment understands is translated as such
            saved = self.fresh
            tgt = s.targets[0] if isinstance(s, ast.Assign) else s.target
            if isinstance(tgt, ast.Name) or (isinstance(tgt, ast.Attribute) and self.key(tgt) in self.spec.get("locals_attr", [])):
                val = s.value if not isinstance(s, ast.AugAssign) else ast.BinOp(left=s.target, op=s.op, right=s.value)
                try:
                    a, t = self.expr(val, env) if val is not None else (None, None)
                except Untranslatable:
                    self.fresh = saved
                    a, t = None, None
                if t in ("int", "optint", "bool", "optbool", "none"):
                    k = self.key(tgt)
                    v = self.new(k.replace(".", "_"))
                    e2 = dict(env); e2[k] = (v, t)
                    if t == "none":
                        e2[k] = ("none", "none")
                        return self.block(rest, e2, ind)
                    return f"{pad}let {v} : {lean_type(t)} := {a}\n{self.block(rest, e2, ind)}"
        if isinstance(s, (ast.Assign, ast.AugAssign)) and self.key(s.targets[0] if isinstance(s, ast.Assign) else s.target) \
                in self.spec.get("attrs", {}):
            # an integer attribute of self that the function both reads and writes (e.g. self._pos): the write is an effect
            # AND later reads see the new value
            tgt = s.targets[0] if isinstance(s, ast.Assign) else s.target
            val = s.value if isinstance(s, ast.Assign) else ast.BinOp(left=s.target, op=s.op, right=s.value)
            a, t = self.expr(val, env)
            self.need(t, "int", s)
            k = self.key(tgt)
            v = self.new(k.replace(".", "_"))
            e1 = dict(env); e1[k] = (v, "int")
            line, e2 = self.push(f'Py.Act.mk "{k} = _" [(some {v})]', e1, pad)
            return f"{pad}let {v} : Int := {a}\n" + line + self.block(rest, e2, ind)
        if isinstance(s, (ast.Assign, ast.AugAssign, ast.AnnAssign, ast.Expr, ast.Delete)):
            line, e2 = self.push(self.act(s, env), env, pad)
            self.mark_dirty(s)
            # a name bound to an object is no longer an integer
            for t in getattr(s, "targets", []):
                e2.pop(self.key(t), None)
            return line + self.block(rest, e2, ind)
        raise Untranslatable(f"statement {ast.unparse(s).splitlines()[0]}")

    def try_(self, s, rest, env, ind):
        """`try: BODY except E1: raise F1(...) [except E2: raise F2(...)]`: BODY is translated on its own (a `return`
        inside it is Sum.inl, falling through is Sum.inr with the variables it assigned), exceptions of class Ei raised
        inside BODY are re-raised as Fi, then the rest of the function continues."""
        pad = "  " * ind
        if s.orelse or s.finalbody or self.trace:
            raise Untranslatable("try with else/finally, or in trace mode")
        remap = []
        for h in s.handlers:
            if h.name or len(h.body) != 1 or not isinstance(h.body[0], ast.Raise) or h.type is None:
                raise Untranslatable("except clause that is not a plain re-raise")
            def cls(e):
                if isinstance(e, ast.Call):
                    e = e.func
                return e.attr if isinstance(e, ast.Attribute) else getattr(e, "id", None)
            a, b = cls(h.type), cls(h.body[0].exc)
            if a not in EXC or b not in EXC:
                raise Untranslatable(f"except {a}: raise {b}")
            remap.append((EXC[a], EXC[b]))
        keys = []
        for n in ast.walk(ast.Module(body=s.body, type_ignores=[])):
            if isinstance(n, ast.Name) and isinstance(n.ctx, ast.Store) and n.id not in keys:
                keys.append(n.id)
        self.subs.append({"keys": keys})
        saved_loops, self.loops = self.loops, []
        try:
            body = self.block(list(s.body) + [_SubEnd()], env, ind + 1)
        finally:
            self.subs.pop()
            self.loops = saved_loops
        outs = [self.new(k_) for k_ in keys]
        e2 = dict(env)
        for k_, v in zip(keys, outs):
            e2[k_] = (v, "int")
        opat = ("(" + ", ".join(outs) + ")" if len(outs) != 1 else outs[0]) if outs else "()"
        sty = " × ".join("Int" for _ in keys) if keys else "Unit"
        f = "fun e => " + "".join(f"if e = {a} then {b} else " for a, b in remap) + "e"
        r = self.new("r")
        if isinstance(s.body[-1], ast.Return):
            # the body cannot fall through (its last statement returns): the Sum.inr arm is dead
            tail = f"{pad}  .error (.internal \"unreachable\")"
        else:
            tail = self.block(rest, e2, ind + 1)
        return (f"{pad}match Py.remapErr ({f}) ((\n{body}) : Except Err (Sum ({self.rt_lean}) ({sty}))) with\n"
                f"{pad}| .error e => .error e\n"
                f"{pad}| .ok (Sum.inl {r}) => {self.ok(r)}\n{pad}| .ok (Sum.inr {opat}) =>\n{tail}")

    def join_if(self, s, rest, env, ind):
        """`if c: x = e1 [; y = …] else: x = e2 …` where both branches only assign integers to names: one `let` of a tuple
        of conditional values instead of duplicating the rest of the function in both branches.  None = not that shape."""
        def simple(body):
            for st in body:
                if isinstance(st, ast.Assign) and len(st.targets) == 1 and isinstance(st.targets[0], ast.Name):
                    continue
                if isinstance(st, ast.AugAssign) and isinstance(st.target, ast.Name):
                    continue
                return False
            return True
        if not (simple(s.body) and simple(s.orelse)) or self.none_test(s.test):
            return None
        if isinstance(s.test, ast.BoolOp) and any(self.none_test(v) for v in s.test.values):
            return None
        saved = self.fresh
        try:
            c = self.cond(s.test, env)
            names = []
            for st in list(s.body) + list(s.orelse):
                nm = (st.targets[0] if isinstance(st, ast.Assign) else st.target).id
                if nm not in names:
                    names.append(nm)

            def branch_term(body):
                e, lets = dict(env), []
                for st in body:
                    tgt = st.targets[0] if isinstance(st, ast.Assign) else st.target
                    val = st.value if isinstance(st, ast.Assign) else ast.BinOp(left=st.target, op=st.op, right=st.value)
                    a, t = self.expr(val, e)
                    if t != "int":
                        raise Untranslatable("join: non-int")
                    v = self.new(tgt.id)
                    lets.append(f"let {v} : Int := {a}; ")
                    e[tgt.id] = (v, "int")
                outs = []
                for nm in names:
                    if nm not in e or e[nm][1] != "int":
                        raise Untranslatable("join: variable not bound on one path")
                    outs.append(e[nm][0])
                tup = "(" + ", ".join(outs) + ")" if len(outs) != 1 else outs[0]
                return "(" + "".join(lets) + tup + ")"
            tb, te = branch_term(s.body), branch_term(s.orelse)
        except Untranslatable:
            self.fresh = saved
            return None
        pad = "  " * ind
        outs = [self.new(nm) for nm in names]
        e2 = dict(env)
        for nm, v in zip(names, outs):
            e2[nm] = (v, "int")
        pat = "(" + ", ".join(outs) + ")" if len(outs) != 1 else outs[0]
        ty = " × ".join("Int" for _ in outs)
        return f"{pad}let {pat} : {ty} := if {c} then {tb} else {te}\n{self.block(rest, e2, ind)}"

    def err(self, code, env):
        """the Lean error term: with `err_trace` the effects recorded so far travel with the exception"""
        if self.spec.get("err_trace"):
            return f".error ({code}, {env['__trace'][0]})"
        return f".error {code}"

    def errtype(self):
        return "(Err × List Py.Act)" if self.spec.get("err_trace") else "Err"

    # -- loops ------------------------------------------------------------------------------------------------------
    def state_tuple(self, keys, env):
        vals = [env[k][0] for k in keys]
        return "(" + ", ".join(vals) + ")" if len(vals) != 1 else vals[0]

    def loop(self, s, rest, env, ind):
        """`for x in range(a, b, c)` / `for x in <int list>` / `while cond` (fuel from spec['fuel']): an auxiliary recursive
        definition over the list of values (resp. the fuel) carrying the variables the body assigns (and the trace)."""
        pad = "  " * ind
        if s.orelse:
            raise Untranslatable("loop with an else clause")
        self.nloops += 1
        k = self.nloops
        name = f"{self.spec['lean']}.loop{k}"
        # a later iteration reads after the effects of an earlier one: a length of an object the body may change must be
        # declared stable (`stable_lens`: the effects of this function do not change that length - part of the vocabulary)
        probe_d, probe_c, probe_r = set(self.dirty), set(self.changed), set(self.len_read)
        self.len_read |= {"self"} | {k_[4:-1].split(".")[0].split("[")[0] for k_ in self.spec.get("lens", {})}
        for st in ast.walk(ast.Module(body=s.body, type_ignores=[])):
            if isinstance(st, ast.stmt):
                self.mark_dirty(st)
        body_changes = self.changed - probe_c
        self.dirty, self.changed, self.len_read = probe_d, probe_c, probe_r
        for n_ in ast.walk(ast.Module(body=s.body + ([s.test] if isinstance(s, ast.While) else []), type_ignores=[])):
            if isinstance(n_, ast.Call) and getattr(n_.func, "id", None) == "len" and len(n_.args) == 1:
                kk = self.key(n_)
                root_ = kk[4:-1].split(".")[0].split("[")[0]
                if root_ in body_changes and kk not in self.spec.get("stable_lens", []):
                    raise Untranslatable(f"{kk} is read in a loop whose body may change {root_} (declare it in stable_lens if it cannot)")
        # loop-carried state: names assigned in the body that are bound before the loop (+ declared attrs) + the trace
        assigned = []
        for n in ast.walk(ast.Module(body=s.body, type_ignores=[])):
            tg = None
            if isinstance(n, (ast.Name, ast.Attribute)) and isinstance(getattr(n, "ctx", None), ast.Store):
                tg = self.key(n)
            if tg and tg in env and env[tg][1] in ("int", "optint", "bool", "optbool") and tg not in assigned:
                assigned.append(tg)
        if isinstance(s, ast.For) and isinstance(s.target, ast.Name) and s.target.id in assigned:
            assigned.remove(s.target.id)
        for a_ in assigned:
            if env[a_][1] != "int":
                raise Untranslatable(f"loop-carried variable {a_} is not an int")
        state = list(assigned) + (["__trace"] if self.trace else [])
        if not state:
            raise Untranslatable("loop without state")
        st_types = [("List Py.Act" if k_ == "__trace" else "Int") for k_ in state]
        st_type = " × ".join(st_types)
        # free variables: the function's own binders + every local identifier in scope (same names inside the loop def)
        locals_ = []
        for key_, (term, t) in env.items():
            if key_ in state or t in ("none",) or not term.replace("_", "").replace(".", "").isalnum():
                continue
            if term in [x[0] for x in locals_] or f"({term} :" in self.sig_params:
                continue
            if t in LEAN_T:
                locals_.append((term, LEAN_T[t]))
        binders = self.sig_params + "".join(f" ({a} : {t})" for a, t in locals_)
        args = " ".join([b.split(" : ")[0].lstrip("(") for b in self.sig_params.split(") (") if b] + [a for a, _ in locals_])
        args = args.replace("(", "").replace(")", "")
        # pattern variables for the state
        pat_vars = [self.new("s" if k_ != "__trace" else "tr") for k_ in state]
        pat = "(" + ", ".join(pat_vars) + ")" if len(pat_vars) != 1 else pat_vars[0]
        e_in = dict(env)
        for k_, v in zip(state, pat_vars):
            e_in[k_] = (v, "trace" if k_ == "__trace" else "int")
        saved = set(self.dirty), set(self.len_read)
        if isinstance(s, ast.For):
            if not isinstance(s.target, ast.Name):
                raise Untranslatable("loop target")
            it = s.iter
            if isinstance(it, ast.Call) and getattr(it.func, "id", None) == "range" and 1 <= len(it.args) <= 3:
                xs = [self.expr(a, env) for a in it.args]
                for _, t in xs:
                    self.need(t, "int", it)
                a3 = [x[0] for x in xs]
                if len(a3) == 1:
                    a3 = ["(0 : Int)", a3[0], "(1 : Int)"]
                elif len(a3) == 2:
                    a3 = a3 + ["(1 : Int)"]
                iter_term, raising = f"Py.rangeE {a3[0]} {a3[1]} {a3[2]}", True
            else:
                a, t = self.expr(it, env)
                self.need(t, "intlist", it)
                iter_term, raising = a, False
            x, xs_ = self.new(s.target.id), self.new("rest")
            e_in[s.target.id] = (x, "int")
            self.loops.append({"call": f"{name} {args} {xs_}", "state": state})
            try:
                body = self.block(list(s.body) + [_LoopNext()], e_in, 2)
            finally:
                self.loops.pop()
                self.dirty, self.len_read = saved
            self.aux.append(f"def {name} {binders} : List Int → ({st_type}) → Except {self.errtype()} ({st_type})\n"
                            f"  | [], st => .ok st\n  | {x} :: {xs_}, {pat} =>\n{body}\n")
            call = f"{name} {args}"
            init = self.state_tuple(state, env)
            outs = [self.new(k_.replace(".", "_") if k_ != "__trace" else "tr") for k_ in state]
            e_out = dict(env)
            for k_, v in zip(state, outs):
                e_out[k_] = (v, "trace" if k_ == "__trace" else "int")
            opat = "(" + ", ".join(outs) + ")" if len(outs) != 1 else outs[0]
            if raising:
                lv = self.new("it")
                if self.spec.get("err_trace"):
                    return (f"{pad}match {iter_term} with\n{pad}| .error e_ => .error (e_, {env['__trace'][0]})\n{pad}| .ok {lv} =>\n"
                            f"{pad}  ({call} {lv} {init}).bind fun {opat} =>\n{self.block(rest, e_out, ind + 1)}")
                return (f"{pad}({iter_term}).bind fun {lv} =>\n{pad}({call} {lv} {init}).bind fun {opat} =>\n"
                        f"{self.block(rest, e_out, ind)}")
            return f"{pad}({call} {iter_term} {init}).bind fun {opat} =>\n{self.block(rest, e_out, ind)}"
        # while
        fuel_src = (self.spec.get("fuel") or {}).get(k)
        if fuel_src is None:
            raise Untranslatable(f"while loop {k} without a declared fuel expression")
        fa, ft = self.expr(ast.parse(fuel_src, mode="eval").body, env)
        self.need(ft, "int", s)
        fv = self.new("fuel")
        ch = []
        self.hoist_stack.append(ch)
        try:
            cond = self.cond(s.test, e_in)
        finally:
            self.hoist_stack.pop()
        cond_pre = "".join(f"    ({term}).bind fun {v} =>\n" for v, term in ch)
        self.loops.append({"call": f"{name} {args} {fv}", "state": state})
        try:
            body = self.block(list(s.body) + [_LoopNext()], e_in, 3)
        finally:
            self.loops.pop()
            self.dirty, self.len_read = saved
        fuel_err = '(.internal "fuel", [])' if self.spec.get("err_trace") else '(.internal "fuel")'
        self.aux.append(f"def {name} {binders} : Nat → ({st_type}) → Except {self.errtype()} ({st_type})\n"
                        f"  | 0, _ => .error {fuel_err}\n  | {fv} + 1, {pat} =>\n{cond_pre}    if {cond} then\n{body}\n"
                        f"    else .ok {pat}\n")
        init = self.state_tuple(state, env)
        outs = [self.new(k_.replace(".", "_") if k_ != "__trace" else "tr") for k_ in state]
        e_out = dict(env)
        for k_, v in zip(state, outs):
            e_out[k_] = (v, "trace" if k_ == "__trace" else "int")
        opat = "(" + ", ".join(outs) + ")" if len(outs) != 1 else outs[0]
        return (f"{pad}({name} {args} (({fa}).toNat + 1) {init}).bind fun {opat} =>\n{self.block(rest, e_out, ind)}")

    def branch(self, body, rest, env, ind):
        """body followed by rest.  Assignments made in the body must be visible in rest: the block translation threads
        the environment, so simply concatenate (this duplicates `rest` in both branches)."""
        saved = set(self.dirty), set(self.len_read), set(self.changed)
        try:
            return self.block(list(body) + list(rest), env, ind)
        finally:
            self.dirty, self.len_read, self.changed = saved

    def is_indices_call(self, c):
        return isinstance(c.func, ast.Attribute) and c.func.attr == "indices" and len(c.args) == 1

    def indices_call(self, c, env):
        a, t = self.expr(c.func.value, env)
        self.need(t, "slice", c)
        n, tn = self.expr(c.args[0], env)
        self.need(tn, "int", c)
        return f"Py.Slice.indices {a} {n}", ("int", "int", "int")


# ----------------------------------------------------------------------------------------------------------------------
def find_func(tree, cls, name):
    body = tree.body
    if cls:
        for n in body:
            if isinstance(n, ast.ClassDef) and n.name == cls:
                body = n.body
                break
        else:
            return None
    for n in body:
        if isinstance(n, ast.FunctionDef) and n.name == name:
            return n
    return None


def check_pos_property(tree, cls):
    """`pos = property(_getbitpos, _setbitpos, ...)` and `_getbitpos` is `return self._pos` - else Untranslatable."""
    for n in tree.body:
        if isinstance(n, ast.ClassDef) and n.name == cls:
            ok_prop = ok_get = False
            for m in n.body:
                if isinstance(m, ast.Assign) and len(m.targets) == 1 and isinstance(m.targets[0], ast.Name) \
                        and m.targets[0].id == "pos" and isinstance(m.value, ast.Call) \
                        and getattr(m.value.func, "id", None) == "property" and len(m.value.args) >= 2 \
                        and [getattr(a, "id", None) for a in m.value.args[:2]] == ["_getbitpos", "_setbitpos"]:
                    ok_prop = True
                if isinstance(m, ast.FunctionDef) and m.name == "_getbitpos":
                    body = [x for x in m.body if not (isinstance(x, ast.Expr) and isinstance(x.value, ast.Constant))]
                    ok_get = len(body) == 1 and isinstance(body[0], ast.Return) and ast.unparse(body[0].value) == "self._pos"
            if ok_prop and ok_get:
                return
    raise Untranslatable("pos is no longer property(_getbitpos, _setbitpos) with _getbitpos returning self._pos")


def signature(spec):
    ps = []
    if spec.get("self_bits"):
        ps.append("(self_bits : List Bool)")
    if spec.get("cls") and not spec.get("no_self_len") and not spec.get("self_bits"):
        ps.append("(self_len : Int)")
        for a in spec.get("state", []):
            ps.append(f"(self{a} : Int)")
    for p, t in spec["params"]:
        ps.append(f"({lname(p)} : {lean_type(t)})")
    for k, (v, t) in spec.get("attrs", {}).items():
        ps.append(f"({v} : {lean_type(t)})")
    for k, v in spec.get("lens", {}).items():
        ps.append(f"({v} : Int)")
    for k, v in spec.get("post_lens", {}).items():
        ps.append(f"({v} : Int)")
    for k, v in spec.get("bools", {}).items():
        ps.append(f"({v} : Bool)")
    ret = spec.get("ret")
    if spec.get("mode") == "trace":
        rt = "List Py.Act"
    elif ret == "state":
        rt = " × ".join("Int" for _ in spec["state"])
    elif spec.get("returns_state"):
        rt = " × ".join([lean_type(ret)] + ["Int" for _ in spec["state"]])
    else:
        rt = lean_type(ret)
    return " ".join(ps), rt


def translate_one(repo, spec):
    path = os.path.join(repo, spec["file"])
    src = open(path).read()
    fn = find_func(ast.parse(src), spec.get("cls"), spec["func"])
    sig, rt = signature(spec)
    qual = (spec["cls"] + "." if spec.get("cls") else "") + spec["func"]
    et = "(Err × List Py.Act)" if spec.get("err_trace") else "Err"
    head = f"def {spec['lean']} {sig} : Except {et} ({rt}) :="
    if fn is None:
        return head, None, f"{qual}: not found in {spec['file']}", None
    digest = hashlib.sha256(ast.dump(fn).encode()).hexdigest()[:16]
    try:
        # the declared parameters must be the function's own
        for d in fn.decorator_list:
            if ast.unparse(d) not in ("classmethod", "staticmethod"):
                # e.g. a cache put in front of the function changes what a call does without changing its body
                raise Untranslatable(f"decorator @{ast.unparse(d)}")
        names = [a.arg for a in fn.args.posonlyargs + fn.args.args if a.arg not in ("self", "cls")]
        if not spec.get("region") and (names != spec.get("pynames", [p for p, _ in spec["params"]]) or fn.args.vararg or fn.args.kwarg
                                       or fn.args.kwonlyargs):
            raise Untranslatable(f"parameter list is now ({', '.join(names)})")
        tr = Tr(spec)
        # statements of the function that can change self (same rule as Tr.mark_dirty), counted statically; inside a loop
        # one statement is many mutations
        def _root(n):
            while isinstance(n, (ast.Attribute, ast.Subscript, ast.Call)):
                n = n.func if isinstance(n, ast.Call) else n.value
            return ("self" if n.id == "super" else n.id) if isinstance(n, ast.Name) else None
        nmut = 0
        for node in ast.walk(fn):
            if isinstance(node, (ast.For, ast.While)):
                nmut += 2
            if isinstance(node, ast.Expr) and isinstance(node.value, ast.Call) and isinstance(node.value.func, ast.Attribute) \
                    and _root(node.value.func.value) == "self":
                nmut += 1
            for t in getattr(node, "targets", []) + ([node.target] if isinstance(node, (ast.AugAssign, ast.AnnAssign)) else []):
                if isinstance(t, (ast.Attribute, ast.Subscript)) and _root(t) == "self" and not (
                        isinstance(t, ast.Attribute) and isinstance(t.value, ast.Name) and t.attr == "_pos"):
                    nmut += 1
        tr.single_self_mutation = (nmut == 1)
        for node in ast.walk(fn):
            if isinstance(node, ast.Name) and isinstance(node.ctx, ast.Store) \
                    and node.id not in [a.arg for a in fn.args.posonlyargs + fn.args.args]:
                tr.local_names.add(node.id)
        env = {p: (lname(p), t) for p, t in spec["params"]}
        for a in spec.get("state", []):
            env[f"self.{a}"] = (f"self{a}", "int")
        for k, (v, t) in spec.get("attrs", {}).items():
            env[k] = (v, t)
        if spec.get("uses_pos_property"):
            check_pos_property(ast.parse(src), spec["cls"])
            env["self.pos"] = env["self._pos"]
        tr.sig_params = sig
        tr.rt_lean = rt
        stmts = list(fn.body)
        if spec.get("region"):
            # translate only the statements from the first one whose source text starts with the marker
            marker = spec["region"]
            import re as _re
            # the marker is a regular expression matched at the start of a statement's source text (so that renaming a
            # local does not move the region)
            idx = [i for i, st in enumerate(stmts) if _re.match(marker, ast.unparse(st))]
            if len(idx) != 1:
                raise Untranslatable(f"region marker {marker!r} found {len(idx)} times")
            stmts = stmts[idx[0]:]
        pre = ""
        if spec.get("mode") == "trace":
            env["__trace"] = ("tr_0", "trace")
            pre = "  let tr_0 : List Py.Act := []\n"
        body = pre + tr.block(stmts, env, 1)
        if tr.aux:
            head = "\n".join(tr.aux) + "\n" + head
        return head, body, None, digest
    except Untranslatable as e:
        return head, None, f"{qual}: {e}", digest


DEFAULTS_FILE = os.path.join(VERIF, "harness", "src_defaults.json")
try:
    PINNED_DEFAULTS = json.load(open(DEFAULTS_FILE))
except Exception:                                               # noqa: BLE001
    PINNED_DEFAULTS = {}


def current_defaults(repo, spec):
    """{parameter: source text of its default value} - the translation takes every argument explicitly, so a changed
    default (a change of behaviour for every caller that omits the argument) is tracked separately, against
    harness/src_defaults.json (pinned with `translate.py --pin-defaults` on the clean tree)."""
    try:
        fn = find_func(ast.parse(open(os.path.join(repo, spec["file"])).read()), spec.get("cls"), spec["func"])
        if fn is None:
            return None
        a = fn.args
        pos = a.posonlyargs + a.args
        out = {p.arg: ast.unparse(d) for p, d in zip(pos[len(pos) - len(a.defaults):], a.defaults)}
        out.update({p.arg: ast.unparse(d) for p, d in zip(a.kwonlyargs, a.kw_defaults) if d is not None})
        return out
    except Exception:                                           # noqa: BLE001
        return None


def translate_all(repo):
    out = ["/-",
           "  GENERATED by harness/translate.py from the working tree - do not edit.",
           "  Python functions of bitstring translated statement by statement (see the docstring of the translator for",
           "  the subset and the encoding).  `Untranslatable.<f>` marks a function that has left the subset.",
           "-/",
           "import BitstringModel.Model.PySrc",
           "set_option linter.unusedVariables false",
           "namespace BM.Gen.Src",
           "open BM", ""]
    report = []
    for spec in TARGETS:
        head, body, err, digest = translate_one(repo, spec)
        qual = (spec["cls"] + "." if spec.get("cls") else "") + spec["func"]
        out.append(f"/-- `{qual}` ({spec['file']}). -/")
        if body is None:
            sig, rt = signature(spec)
            et = "(Err × List Py.Act)" if spec.get("err_trace") else "Err"
            out.append(f"opaque Untranslatable.{spec['lean']} : Except {et} ({rt})")
            out.append(head)
            out.append(f"  Untranslatable.{spec['lean']}")
        else:
            out.append(head)
            out.append(body)
        out.append("")
        defaults = current_defaults(repo, spec)
        pinned = PINNED_DEFAULTS.get(spec["lean"])
        report.append({"function": qual, "file": spec["file"], "lean": "BM.Gen.Src." + spec["lean"],
                       "translated": body is not None, "error": err, "ast_digest": digest,
                       "defaults": defaults, "defaults_ok": (pinned is None or pinned == defaults)})
    out.append("end BM.Gen.Src")
    return "\n".join(out) + "\n", report


def write(gen_dir, text):
    p = os.path.join(gen_dir, "Src.lean")
    old = open(p).read() if os.path.exists(p) else None
    if old != text:
        with open(p, "w") as f:
            f.write(text)
        return True
    return False


if __name__ == "__main__":
    repo = os.environ.get("VERIF_REPO", "/repo")
    text, rep = translate_all(repo)
    if "--pin-defaults" in sys.argv:
        json.dump({r["lean"].split(".")[-1]: r["defaults"] for r in rep}, open(DEFAULTS_FILE, "w"), indent=1, sort_keys=True)
        print("pinned", DEFAULTS_FILE)
        sys.exit(0)
    if "--out" in sys.argv:
        # scratch use (robustness experiments): write elsewhere, under another namespace
        out = sys.argv[sys.argv.index("--out") + 1]
        ns = sys.argv[sys.argv.index("--namespace") + 1] if "--namespace" in sys.argv else "BM.Gen.Src"
        with open(out, "w") as f:
            f.write(text.replace("BM.Gen.Src", ns))
        sys.exit(0)
    changed = write(GEN_DIR, text)
    json.dump({"changed": changed, "functions": rep}, sys.stdout, indent=1)
    print()
