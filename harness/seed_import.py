"""usage: seed_import.py <src dir> <seeded id> <pid that must catch it> [more pids]  — copies patch/demo/meta into
/verif/seeded/<id>/, runs muttest and records what was run and what each check reported."""
import os, sys, json, shutil, subprocess
VERIF = os.path.dirname(os.path.dirname(os.path.abspath(__file__)))
src, sid, pids = sys.argv[1], sys.argv[2], sys.argv[3:]
dst = os.path.join(VERIF, "seeded", sid)
os.makedirs(dst, exist_ok=True)
for f in ("patch.diff", "demo.py"):
    shutil.copy(os.path.join(src, f), os.path.join(dst, f))
meta = json.load(open(os.path.join(src, "meta.json")))
r = subprocess.run(["/venv/bin/python", os.path.join(VERIF, "harness", "muttest.py"), dst] + pids, capture_output=True, text=True, cwd=VERIF)
print(r.stdout[-3000:])
meta2 = {"checks": pids, "property": meta.get("property"), "summary": meta.get("summary"), "needs_to_manifest": meta.get("needs_to_manifest"),
         "files": meta.get("files"), "author": "independent sub-agent given only the property text and a scratch worktree",
         "confirmed": {"tests_pass_with_patch": meta.get("tests_passed"), "how_verified_by_author": meta.get("how_verified"),
                       "ran_here": f"harness/muttest.py seeded/{sid} " + " ".join(pids) + "  (scratch copy of /repo + patch; demo on mutant and on clean tree; checks with VERIF_REPO=<copy>)",
                       "output": r.stdout[-1500:]}}
json.dump(meta2, open(os.path.join(dst, "meta.json"), "w"), indent=1)
