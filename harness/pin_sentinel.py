"""Pin the source-change sentinel to the current /repo working tree (run after committing fixes to /repo)."""
import os, sys, json
VERIF = os.path.dirname(os.path.dirname(os.path.abspath(__file__)))
sys.path.insert(0, VERIF)
from harness.run import _ast_digest
files = set()
for l in open(os.path.join(VERIF, "properties.jsonl")):
    files |= set(json.loads(l)["anchors"]["files"])
out = {}
for f in sorted(files):
    full = os.path.join("/repo", f)
    if os.path.isfile(full):
        out[f] = _ast_digest(full)
json.dump(out, open(os.path.join(VERIF, "harness", "sentinel.json"), "w"), indent=1)
print("pinned", len(out), "files")
