"""Shared helpers for the correspondence harness.

Imports the bitstring package from VERIF_REPO (default /repo) *ahead of* the editable install, so the
same harness can be pointed at a scratch copy of the repository (mutant self-test).
"""
from __future__ import annotations
import os, sys, hashlib, contextlib

VERIF = os.path.dirname(os.path.dirname(os.path.abspath(__file__)))
REPO = os.environ.get("VERIF_REPO", "/repo")
os.environ.setdefault("BITSTRING_VERIF", "1")      # hooks on (MANIFEST.hooks.guard)
os.environ.setdefault("NO_COLOR", "")               # do not inherit colour settings
if REPO not in sys.path:
    sys.path.insert(0, REPO)

import bitstring                                    # noqa: E402
import bitarray                                     # noqa: E402

assert os.path.realpath(os.path.dirname(os.path.dirname(bitstring.__file__))) == os.path.realpath(REPO), \
    f"bitstring imported from {bitstring.__file__}, expected {REPO}"

from bitstring import Bits, BitArray, ConstBitStream, BitStream   # noqa: E402

CLASSES = {"Bits": Bits, "BitArray": BitArray, "ConstBitStream": ConstBitStream, "BitStream": BitStream}
CLASS_NAMES = list(CLASSES)
MUTABLE = ("BitArray", "BitStream")
SEP = "\t"


def wire(b) -> str:
    """Bit content of a bitstring (or a '01' string) on the wire; '-' is the empty bit string."""
    s = b if isinstance(b, str) else b.bin
    return s if s else "-"


def unwire(s: str) -> str:
    return "" if s == "-" else s


def err_name(e: BaseException) -> str:
    """Map an exception to the model's `Err` enum (documented hierarchy, most specific first)."""
    if isinstance(e, bitstring.ReadError):
        return "ReadError"
    if isinstance(e, bitstring.ByteAlignError):
        return "ByteAlignError"
    if isinstance(e, bitstring.Error):
        return "Error"
    if isinstance(e, ValueError):          # CreationError, InterpretError are ValueError
        return "ValueError"
    if isinstance(e, IndexError):
        return "IndexError"
    if isinstance(e, TypeError):
        return "TypeError"
    if isinstance(e, OSError):
        return "OSError"
    return "Internal:" + type(e).__name__


DOCUMENTED = ("ReadError", "ByteAlignError", "Error", "ValueError", "IndexError", "TypeError", "OSError")


def guarded(thunk, fmt=lambda x: str(x)) -> str:
    """Run `thunk`; canonical `ok <value>` / `err <Class>`."""
    try:
        v = thunk()
    except RecursionError:
        return "err Internal:RecursionError"
    except Exception as e:                 # noqa: BLE001 — every exception class is an observable
        return "err " + err_name(e)
    return "ok " + fmt(v)


@contextlib.contextmanager
def options(lsb0=False, bytealigned=False, mxfp_overflow="saturate", no_color=None):
    o = bitstring.options
    saved = (o.lsb0, o.bytealigned, o.mxfp_overflow, o.no_color)
    try:
        o.lsb0 = lsb0
        o.bytealigned = bytealigned
        o.mxfp_overflow = mxfp_overflow
        if no_color is not None:
            o.no_color = no_color
        yield
    finally:
        o.lsb0, o.bytealigned, o.mxfp_overflow, o.no_color = saved


_CACHED_FUNCS = None


def _scan_caches():
    """Every object with a cache_clear() found on the package's modules and on the classes they define (by scanning, no
    names assumed: a refactoring that adds, renames or removes a cache must not break the harness)."""
    import sys as _sys
    found, seen = [], set()

    def add(obj):
        if callable(getattr(obj, "cache_clear", None)) and id(obj) not in seen:
            seen.add(id(obj))
            found.append(obj)
    for name, mod in list(_sys.modules.items()):
        if mod is None or not (name == "bitstring" or name.startswith("bitstring.")):
            continue
        for v in list(vars(mod).values()):
            add(v)
            if isinstance(v, type) and getattr(v, "__module__", "").startswith("bitstring"):
                for w in list(vars(v).values()):
                    add(getattr(w, "__func__", w))
    return found


def clear_caches():
    """Clear every functools cache of the package (scanned once per process: caches are created at import time)."""
    global _CACHED_FUNCS
    if _CACHED_FUNCS is None:
        _CACHED_FUNCS = _scan_caches()
    for f in _CACHED_FUNCS:
        try:
            f.cache_clear()
        except Exception:                       # noqa: BLE001
            pass


def mk(cls: str, bits: str):
    """Build an object of class `cls` with the given bit content, not through the string cache."""
    return CLASSES[cls](bin=bits) if bits else CLASSES[cls]()


def case_hash(line: str) -> str:
    return hashlib.sha1(line.encode()).hexdigest()[:12]


def rand_bits(rng, n: int) -> str:
    if n == 0:
        return ""
    kind = rng.random()
    if kind < 0.1:
        return "0" * n
    if kind < 0.2:
        return "1" * n
    if kind < 0.35:
        p = "".join(rng.choice("01") for _ in range(rng.randint(1, 5)))
        return (p * (n // len(p) + 1))[:n]
    return format(rng.getrandbits(n), "0%db" % n)


BOUNDARY_LENGTHS = [0, 1, 2, 7, 8, 9, 15, 16, 17, 31, 32, 33, 63, 64, 65, 127, 128, 129]
