#!/bin/bash
# Re-translate the harmless-rewrite variants (harness/variants/*.diff, each a patch of /repo's bitstring/ that passed the
# 836-test suite when it was made) into lean/BitstringModel/Variants/Src<V>.lean with the CURRENT translator, plus A0 = the
# translation of the unpatched tree under another namespace.  Run after adding translation targets; then harness/src_regress.sh.
set -e
V=$(cd "$(dirname "$0")/.." && pwd)
W=$(mktemp -d /tmp/variants.XXXXXX)
trap 'rm -rf "$W"' EXIT
mkdir -p $V/lean/BitstringModel/Variants
VERIF_REPO=${VERIF_REPO:-/repo}
(cd $V && /venv/bin/python harness/translate.py --out lean/BitstringModel/Variants/SrcA0.lean --namespace BM.Gen.SrcA0)
for d in $V/harness/variants/*.diff; do
  v=$(basename $d .diff)
  rm -rf $W/t && mkdir -p $W/t && (cd $VERIF_REPO && git archive HEAD bitstring | tar x -C $W/t)
  (cd $W/t && git apply --unsafe-paths $d 2>/dev/null || patch -p1 -s < $d)
  (cd $V && VERIF_REPO=$W/t /venv/bin/python harness/translate.py --out lean/BitstringModel/Variants/Src$v.lean --namespace BM.Gen.Src$v)
  n=$(grep -c "^opaque Untranslatable" $V/lean/BitstringModel/Variants/Src$v.lean || true)
  echo "variant $v: $n untranslatable"
done
