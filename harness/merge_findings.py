"""Merge known_findings.d/*.json into the single committed known_findings.json (dedupe by (property, id))."""
import json, os, glob
VERIF = os.path.dirname(os.path.dirname(os.path.abspath(__file__)))
main = json.load(open(os.path.join(VERIF, "known_findings.json")))
seen = {(f["property"], f["id"]) for f in main["findings"]}
for p in sorted(glob.glob(os.path.join(VERIF, "known_findings.d", "*.json"))):
    for f in json.load(open(p)).get("findings", []):
        k = (f["property"], f["id"])
        if k in seen:
            continue
        seen.add(k)
        main["findings"].append({x: f[x] for x in f if x not in ("proposed_fix", "fix_rationale")})
    os.remove(p)
main["findings"].sort(key=lambda f: (f["property"], f["id"]))
json.dump(main, open(os.path.join(VERIF, "known_findings.json"), "w"), indent=1)
print(len(main["findings"]), "findings;", sum(f["status"] == "known" for f in main["findings"]), "known")
