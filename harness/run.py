"""Orchestration of one check: build + audit the Lean side, run the correspondence, decide the verdict.

Verdict protocol (DESIGN.md §3C):
  * all obligations check, IMPL ≍ MODEL on everything explored, oracle silent            → exit 0
  * a concrete input on which the implementation fails the property's own predicate      → VIOLATION + replay, exit 1
    (unless it is listed in known_findings.json: then `KNOWN-FINDING:` and it does not count)
  * a proof/obligation/correspondence broke and the search found no failing input        → VIOLATION … no-failing-input-found
  * infrastructure trouble                                                               → exit 2, never a VIOLATION line
"""
from __future__ import annotations
import os, sys, json, time, random, importlib, traceback, argparse, hashlib, re

HERE = os.path.dirname(os.path.abspath(__file__))
VERIF = os.path.dirname(HERE)
sys.path.insert(0, VERIF)

from harness import leanside          # noqa: E402

TRUSTED_BASE = [
    "Lean 4.33.0 kernel; axioms allowed in property theorems: propext, Classical.choice, Quot.sound (audited with #print axioms on every run)",
    "harness/extract.py reads the tables/constants it claims to read from the working tree",
    "the correspondence harness (harness/props/*.py execute/oracle, canonicalisation, generators) ties the hand-written model to the code only on the inputs it runs",
    "bitarray (C), CPython slice/range/int/struct/zlib/mmap are modelled by their documented meaning, not verified",
]


def _ast_digest(path):
    """sha1 of the docstring-free AST of a source file (comments and formatting do not matter)."""
    import ast
    try:
        tree = ast.parse(open(path).read())
    except Exception:
        return "unparsable"
    for node in ast.walk(tree):
        if isinstance(node, (ast.FunctionDef, ast.AsyncFunctionDef, ast.ClassDef, ast.Module)):
            b = node.body
            if b and isinstance(b[0], ast.Expr) and isinstance(getattr(b[0], "value", None), ast.Constant) and isinstance(b[0].value.value, str):
                node.body = b[1:] or [ast.Pass()]
    return hashlib.sha1(ast.dump(tree).encode()).hexdigest()


def sentinel(pid):
    """Source-change sentinel (DESIGN §3A.3): which of the property's anchor files differ from the pinned tree.
    A change proves nothing and is not an obligation; it only makes the correspondence run at thorough size."""
    repo = os.environ.get("VERIF_REPO", "/repo")
    files = []
    for l in open(os.path.join(VERIF, "properties.jsonl")):
        p = json.loads(l)
        if p["id"] == pid:
            files = p["anchors"]["files"]
    pin_path = os.path.join(VERIF, "harness", "sentinel.json")
    pinned = json.load(open(pin_path)) if os.path.exists(pin_path) else {}
    changed = []
    for f in files:
        full = os.path.join(repo, f)
        if os.path.isfile(full) and _ast_digest(full) != pinned.get(f):
            changed.append(f)
    return changed


def load_findings():
    p = os.path.join(VERIF, "known_findings.json")
    out = []
    if os.path.exists(p):
        out += json.load(open(p)).get("findings", [])
    d = os.path.join(VERIF, "known_findings.d")
    if os.path.isdir(d):
        for f in sorted(os.listdir(d)):
            if f.endswith(".json"):
                out += json.load(open(os.path.join(d, f))).get("findings", [])
    return out


def write_replay(pid, payload) -> str:
    os.makedirs(os.path.join(VERIF, "replays"), exist_ok=True)
    h = hashlib.sha1(json.dumps(payload, sort_keys=True).encode()).hexdigest()[:10]
    rel = f"replays/{pid}-{h}.json"
    with open(os.path.join(VERIF, rel), "w") as f:
        json.dump(payload, f, indent=1)
    return rel


def reproducer(pid, line):
    return (f"# from /verif:  VERIF_REPO=/repo /venv/bin/python -c \"import sys; sys.path.insert(0,'.'); "
            f"from harness.props import {pid} as P; l={line!r}; o,e=P.execute(l); print(o,e); print(P.oracle(l,o,e))\"")


def run_cases(mod, lines):
    """Execute the cases on the implementation.  The address space of this process is capped while they run, so that a
    runaway allocation inside the library (e.g. a cache that doubles on every call) surfaces as a MemoryError of the call -
    an observable outcome - instead of the kernel killing the whole check."""
    import resource
    soft, hard = resource.getrlimit(resource.RLIMIT_AS)
    cap = int(os.environ.get("VERIF_MEM_CAP_GB", "16")) * (1 << 30)
    try:
        resource.setrlimit(resource.RLIMIT_AS, (cap if hard == resource.RLIM_INFINITY else min(cap, hard), hard))
    except (ValueError, OSError):
        pass
    outs = []
    try:
        for l in lines:
            try:
                o, e = mod.execute(l)
            except MemoryError:
                o, e = "err Internal:MemoryError", {"memory_error": True}
            except Exception:                                     # harness bug, not an observable
                raise RuntimeError("harness failure on case %r\n%s" % (l, traceback.format_exc()))
            outs.append((o, e))
    finally:
        try:
            resource.setrlimit(resource.RLIMIT_AS, (soft, hard))
        except (ValueError, OSError):
            pass
    return outs


def main(argv=None):
    ap = argparse.ArgumentParser()
    ap.add_argument("pid")
    ap.add_argument("--tier", default=os.environ.get("VERIF_TIER", "quick"))
    ap.add_argument("--replay")
    args = ap.parse_args(argv)
    pid, tier = args.pid, args.tier
    if tier not in ("quick", "thorough"):
        tier = "quick"
    seed = int(os.environ.get("VERIF_SEED", "0") or 0)
    t0 = time.time()
    mod = importlib.import_module(f"harness.props.{pid}")
    findings = [f for f in load_findings() if f["property"] == pid]
    known = [f for f in findings if f.get("status") == "known"]
    regions = getattr(mod, "REGIONS", {})

    def covered_by_known(line, out, model_out):
        """A failing case is covered only if it lies in a listed finding's region and the implementation
        still shows exactly the transcribed deviant behaviour there (IMPL = MODEL)."""
        for f in known:
            pred = regions.get(f["region"])
            if pred and pred(line) and (model_out is None or model_out == out):
                return f
        return None

    # ---------------------------------------------------------------- replay mode
    if args.replay:
        payload = json.load(open(args.replay if os.path.isabs(args.replay) else os.path.join(VERIF, args.replay)))
        bad = 0
        for c in payload.get("cases", []):
            o, e = mod.execute(c["line"])
            msg = mod.oracle(c["line"], o, e)
            print(f"replay {c['line']!r}: impl={o!r} oracle={msg!r}")
            if msg:
                bad += 1
        if bad or not payload.get("cases"):
            if not payload.get("cases"):
                print("replay names a broken obligation, no concrete case:", payload.get("broken"))
                st = leanside.prepare(pid, "quick", [])
                if st["ok"]:
                    print("obligations check now"); return 0
            print(f"VIOLATION property={pid} replay={args.replay}")
            return 1
        return 0

    # ---------------------------------------------------------------- lean side
    log = []
    with leanside.lock():                                     # one build at a time touches lean/.lake and Gen/
        st = leanside.prepare(pid, tier, log)
    # ---------------------------------------------------------------- cases
    rng = random.Random(seed * 1000003 + sum(map(ord, pid)))
    lines = []
    corpus = os.path.join(VERIF, "corpus", pid + ".txt")
    if os.path.exists(corpus):
        lines += [l.rstrip("\n") for l in open(corpus) if l.strip() and not l.startswith("#")]
    n_corpus = len(lines)
    for f in findings:                                        # witnesses of known/fixed findings run every time
        lines.append(f["witness"])
    changed_sources = sentinel(pid)
    gen_tier = "thorough" if (changed_sources and not os.environ.get("VERIF_NO_ESCALATE")) else tier
    lines += list(mod.gen(rng, gen_tier))
    outs = run_cases(mod, lines)
    model_line = getattr(mod, "model_line", lambda l: l)
    model_outs = leanside.drive(pid, [model_line(l) for l in lines]) if st["model_ok"] else None
    if model_outs is None:
        st["ok"] = False
        st["failures"].append({"kind": "driver", "detail": "model driver did not run"})

    # validation of the source-to-Lean translator: the generated pure definitions, executed, against the real functions
    srcval = None
    try:
        from harness import srccheck
        if pid in srccheck.FUNCS and st["model_ok"]:
            srcval = srccheck.check(pid, random.Random(seed + 5), gen_tier)
            if not srcval["ok"]:
                st["ok"] = False
                st["failures"].append({"kind": "translator-validation",
                                       "detail": srcval.get("error") or "Gen/Src.lean definitions disagree with the Python functions they "
                                                 "were translated from", "cases": [list(d) for d in srcval["disagreements"][:10]]})
    except Exception as e:                                  # noqa: BLE001
        srcval = {"cases": 0, "ok": False, "error": repr(e)}
        st["ok"] = False
        st["failures"].append({"kind": "translator-validation", "detail": repr(e)})

    # a changed default value of a translated function (the translation takes every argument explicitly)
    for f_ in _src_functions(pid, st):
        if f_.get("defaults_ok") is False:
            st["ok"] = False
            st["failures"].append({"kind": "translated-function-default-changed", "detail": f"{f_['function']}: defaults are now {f_['defaults']}"})

    compare = getattr(mod, "compare", lambda o, m, l: o == m)
    disagreements, flagged = [], []
    for i, l in enumerate(lines):
        o, e = outs[i]
        m = model_outs[i] if model_outs is not None else None
        if isinstance(e, dict) and e.get("memory_error"):
            # run_cases caught a MemoryError under the address-space cap: that is the observation (an operation that never
            # finishes / grows without bound on a small input); the property's oracle cannot parse it
            msg = "the case did not finish: MemoryError under the harness memory cap"
        else:
            msg = mod.oracle(l, o, e)
        if msg:
            flagged.append((l, o, m, msg))
        if m is not None and not compare(o, m, l):
            disagreements.append((l, o, m))

    # ---------------------------------------------------------------- known findings
    reconfirmed = []
    for f in known:
        o, e = mod.execute(f["witness"])
        msg = mod.oracle(f["witness"], o, e)
        if msg:
            print(f"KNOWN-FINDING: property={pid} {f['id']} {f['what']}")
            reconfirmed.append(f["id"])
    new_viol = []
    for (l, o, m, msg) in flagged:
        if covered_by_known(l, o, m):
            continue
        new_viol.append({"line": l, "impl": o, "model": m, "oracle": msg, "reproducer": reproducer(pid, l)})
    functional = getattr(mod, "FUNCTIONAL", False)
    unexplained = []
    for (l, o, m) in disagreements:
        if any(v["line"] == l for v in new_viol):
            continue
        unexplained.append({"line": l, "impl": o, "model": m})

    verdict, rc = "held", 0
    replay_rel = None
    if new_viol:
        new_viol.sort(key=lambda v: len(v["line"]))
        replay_rel = write_replay(pid, {"property": pid, "seed": seed, "tier": tier, "kind": "failing-input",
                                        "cases": new_viol[:10], "total_failing": len(new_viol),
                                        "broken": st["failures"]})
        print(f"VIOLATION property={pid} replay={replay_rel}")
        verdict, rc = "violation", 1
    elif unexplained or not st["ok"]:
        # Something that ties the theorems to the code broke.  Search for a concrete failing input of the
        # property itself with the deeper generator before reporting.
        found = []
        if functional and unexplained:
            # the property fixes the output uniquely and ALG = SPEC is proved: the model's answer is the
            # property's answer, so the disagreeing case is itself the failing input
            found = [dict(u, oracle="model (proved equal to the specification) disagrees with the implementation",
                          reproducer=reproducer(pid, u["line"])) for u in unexplained]
        else:
            srng = random.Random(seed + 77)
            searcher = getattr(mod, "search", None) or (lambda r: mod.gen(r, "thorough"))
            budget, t1 = 200000, time.time()
            for l in searcher(srng):
                o, e = mod.execute(l)
                msg = mod.oracle(l, o, e)
                if msg and not covered_by_known(l, o, None):
                    found.append({"line": l, "impl": o, "model": None, "oracle": msg, "reproducer": reproducer(pid, l)})
                    if len(found) >= 5:
                        break
                budget -= 1
                if budget <= 0 or time.time() - t1 > 240:
                    break
        if found:
            found.sort(key=lambda v: len(v["line"]))
            replay_rel = write_replay(pid, {"property": pid, "seed": seed, "tier": tier, "kind": "failing-input",
                                            "cases": found[:10], "broken": st["failures"],
                                            "disagreements": unexplained[:10]})
            print(f"VIOLATION property={pid} replay={replay_rel}")
        else:
            replay_rel = write_replay(pid, {"property": pid, "seed": seed, "tier": tier, "kind": "no-failing-input-found",
                                            "cases": [], "broken": st["failures"],
                                            "disagreements": unexplained[:10],
                                            "note": "theorem/obligation/correspondence named above no longer checks; "
                                                    "the search of the implementation found no input violating the property"})
            print(f"VIOLATION property={pid} replay={replay_rel} no-failing-input-found")
        verdict, rc = "violation", 1

    # ---------------------------------------------------------------- evidence
    nontriv = getattr(mod, "nontrivial", lambda l: True)
    distinct = {l for l in lines if nontriv(l)}
    dist = {}
    for l in lines:
        k = l.split("\t")[1] if "\t" in l else "?"
        dist[k] = dist.get(k, 0) + 1
    errkinds = {}
    for (o, _e) in outs:
        k = o.split(" ")[1] if o.startswith("err ") else "ok"
        errkinds[k] = errkinds.get(k, 0) + 1
    sample_idx = sorted({0, len(lines) // 3, (2 * len(lines)) // 3, len(lines) - 1}) if lines else []
    ev = {
        "property_id": pid, "tier": tier, "seed": seed, "level": "proof",
        "coverage": {
            "obligations": st["obligations"], "discharged": st["discharged"],
            "checker_cmd": st["checker_cmd"] + f" && lake env lean .lake/Audit_{pid}.lean  # #print axioms of every theorem",
            "trusted_base": TRUSTED_BASE + list(getattr(mod, "TRUSTED", [])),
            "theorems": st["theorems"],
            "axioms_used": sorted({a for ax in st["axioms"].values() for a in ax}),
            "evaluations": len(lines), "distinct_nontrivial": len(distinct),
            "rule": getattr(mod, "RULE", "cases = corpus + known-finding witnesses + exhaustive small domains + seeded random "
                                         "(see harness/props/%s.py gen); distinct = distinct case lines; non-trivial = module's nontrivial() predicate" % pid),
            "samples": [{"case": lines[i], "impl": outs[i][0], "model": (model_outs[i] if model_outs else None)} for i in sample_idx],
            "traces_validated_against_impl": len(lines) - len(disagreements) if model_outs is not None else 0,
            "disagreements": len(disagreements), "corpus_cases": n_corpus,
            "op_distribution": dist, "result_distribution": errkinds,
            "gen_changed": st.get("gen", {}).get("changed", []),
            "source_translated_functions": _src_functions(pid, st),
            "translator_validation": ({"cases": srcval["cases"], "disagreements": srcval.get("n_disagreements", 0),
                                       "what": "pure-mode definitions of Gen/Src.lean run through drivers/Src.lean vs the real functions"}
                                      if srcval else None),
            "helpers_changed": changed_sources, "generator_tier": gen_tier,
            "known_findings_reconfirmed": reconfirmed,
            "lean_failures": st["failures"], "build_s": st.get("build_s"),
            "not_yet_proved": getattr(mod, "NOT_YET_PROVED", []),
        },
        "assumptions": TRUSTED_BASE + list(getattr(mod, "ASSUMPTIONS", [])),
        "wall_s": round(time.time() - t0, 2),
        "violations": 0 if rc == 0 else (len(new_viol) or 1),
        "verdict": verdict, "replay": replay_rel,
    }
    if hasattr(mod, "evidence_extra"):
        try:
            ev["coverage"].update(mod.evidence_extra())
        except Exception as e:                                  # noqa: BLE001
            ev["coverage"]["evidence_extra_error"] = repr(e)
    evdir = os.environ.get("VERIF_EVIDENCE_DIR") or os.path.join(VERIF, "evidence")
    os.makedirs(evdir, exist_ok=True)
    with open(os.path.join(evdir, pid + ".json"), "w") as f:
        json.dump(ev, f, indent=1)
    print(f"{pid} {tier} seed={seed}: {len(lines)} cases, {st['discharged']}/{st['obligations']} theorems, "
          f"{len(disagreements)} disagreements, {len(flagged)} oracle flags, verdict={verdict}, {ev['wall_s']}s")
    return rc


def _src_functions(pid, st):
    """The functions of /repo that harness/translate.py translated for this run and that Props/<pid>_Src.lean ties to the
    hand-written model (name, file, AST digest, translated or not)."""
    d = os.path.join(VERIF, "lean", "BitstringModel", "Props")
    src = "".join(open(os.path.join(d, f)).read() for f in sorted(os.listdir(d)) if f.startswith(pid + "_Src") and f.endswith(".lean"))
    if not src:
        return []
    out = []
    for f in st.get("gen", {}).get("translated", []) or []:
        short = f["lean"].split(".")[-1]
        if re.search(r"Gen\.Src\." + re.escape(short) + r"\b", src):
            out.append(f)
    return out


if __name__ == "__main__":
    try:
        sys.exit(main())
    except SystemExit:
        raise
    except Exception:
        traceback.print_exc()
        sys.exit(2)
