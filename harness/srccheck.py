"""Validation of the source-to-Lean TRANSLATOR (harness/translate.py): the pure-mode definitions of Gen/Src.lean are run on
case lines through lean/drivers/Src.lean and compared, result by result (value or exception class), with the real Python
functions of the working tree.  Used by harness/run.py for the properties whose Props/Cxx_Src*.lean tie uses them.

    cases(pid, rng, tier) -> list of case lines (TAB separated, first field = function)
    impl(line)            -> 'ok …' / 'err <Class>' from the real function
"""
from __future__ import annotations
import os, sys, subprocess
from harness.common import *          # noqa: F401,F403  (REPO on sys.path, bitstring imported from it, options(), wire …)

LEAN = os.path.join(os.path.dirname(os.path.dirname(os.path.abspath(__file__))), "lean")
FUNCS = {"C12": ["validate_slice", "offset"], "C07": ["validate_slice"], "C03": ["validate_slice"],
         "C06": ["validate_slice", "setbitpos", "getbytepos", "bytealign"], "C10": ["readue", "readse", "readuie", "readsie"]}


def _o(x):
    return "N" if x is None else str(x)


def cases(pid, rng, tier):
    big = tier != "quick"
    out = []
    fs = FUNCS.get(pid, [])
    rv = lambda n: rng.choice([None, 0, 1, -1, n, -n, n + 1, -n - 1, n - 1, rng.randint(-n - 3, n + 3)])
    if "validate_slice" in fs:
        for n in list(range(0, 7)) + [8, 64, 1000]:
            vals = [None] + list(range(-n - 2, n + 3)) if n < 7 else [rv(n) for _ in range(8)]
            for a in vals:
                for b in vals:
                    out.append(SEP.join(["validate_slice", str(n), _o(a), _o(b)]))
    if "offset" in fs:
        for n in range(0, 6 if big else 5):
            vals = [None] + list(range(-n - 2, n + 3))
            for a in vals:
                for b in vals:
                    for c in [None, 1, -1, 2, -2, 3, -3, n + 1, -n - 1, 0]:
                        out.append(SEP.join(["offset", str(n), _o(a), _o(b), _o(c)]))
        for _ in range(2000 if big else 400):
            n = rng.choice([7, 8, 9, 63, 64, 65, 1023, 1024])
            out.append(SEP.join(["offset", str(n), _o(rv(n)), _o(rv(n)), _o(rng.choice([None, 1, -1, 2, -2, 7, -7, 8, -8, n, -n, 0]))]))
    if "setbitpos" in fs:
        for n in list(range(0, 10)) + [16, 17]:
            for p in range(0, n + 1):
                for q in range(-2, n + 3):
                    out.append(SEP.join(["setbitpos", str(n), str(p), str(q)]))
                out.append(SEP.join(["getbytepos", str(n), str(p)]))
                out.append(SEP.join(["bytealign", str(n), str(p)]))
        for n in (24, 31, 32, 33, 64, 65):
            for p in range(0, n + 1):
                out.append(SEP.join(["getbytepos", str(n), str(p)]))
                out.append(SEP.join(["bytealign", str(n), str(p)]))
    for f in ("readue", "readse", "readuie", "readsie"):
        if f in fs:
            import itertools
            for n in range(0, 9 if big else 8):
                for bits in itertools.product("01", repeat=n):
                    b = "".join(bits)
                    for pos in ([0] if n > 5 else range(-n - 1, n + 2)):
                        out.append(SEP.join([f, wire(b), str(pos), "0"]))
            for _ in range(600 if big else 150):
                n = rng.randint(0, 70)
                b = ("0" * rng.randint(0, min(n, 40)) + rand_bits(rng, n))[:n] if rng.random() < 0.7 else rand_bits(rng, n)
                out.append(SEP.join([f, wire(b), str(rng.randint(-2, n + 1)), "1" if rng.random() < 0.1 else "0"]))
    return out


def impl(line):
    f = line.split(SEP)
    I = lambda s: None if s == "N" else int(s)
    name = f[0]
    def run(th, fmt):
        try:
            return "ok " + fmt(th())
        except Exception as e:                # noqa: BLE001
            return "err " + err_name(e)
    if name == "validate_slice":
        s = Bits(length=int(f[1])) if int(f[1]) else Bits()
        return run(lambda: s._validate_slice(I(f[2]), I(f[3])), lambda r: f"{r[0]} {r[1]}")
    if name == "offset":
        from bitstring.bitstore import offset_slice_indices_lsb0
        return run(lambda: offset_slice_indices_lsb0(slice(I(f[2]), I(f[3]), I(f[4])), int(f[1])),
                   lambda k: f"{_o(k.start)} {_o(k.stop)} {_o(k.step)}")
    if name in ("setbitpos", "getbytepos", "bytealign"):
        n, p = int(f[1]), int(f[2])
        s = ConstBitStream(length=n) if n else ConstBitStream()
        s._pos = p
        if name == "setbitpos":
            def th():
                s._setbitpos(int(f[3])); return s._pos
            return run(th, str)
        if name == "getbytepos":
            return run(lambda: s._getbytepos(), str)
        def th2():
            k = s.bytealign(); return (k, s._pos)
        return run(th2, lambda r: f"{r[0]} {r[1]}")
    if name in ("readue", "readse", "readuie", "readsie"):
        b = unwire(f[1])
        s = Bits(bin=b) if b else Bits()
        with options(lsb0=(f[3] == "1")):
            return run(lambda: getattr(s, "_" + name)(int(f[2])), lambda r: f"{r[0]} {r[1]}")
    raise ValueError(line)


def model(lines):
    r = subprocess.run(["lake", "env", "lean", "--run", "drivers/Src.lean"], cwd=LEAN, input="".join("SRC\t" + l + "\n" for l in lines),
                       capture_output=True, text=True, timeout=1200)
    out = r.stdout.split("\n")
    if out and out[-1] == "":
        out.pop()
    if r.returncode != 0 or len(out) != len(lines):
        return None
    return out


def check(pid, rng, tier):
    """-> dict(cases=…, disagreements=[(line, impl, model)], ok=bool)"""
    ls = cases(pid, rng, tier)
    if not ls:
        return {"cases": 0, "disagreements": [], "ok": True}
    m = model(ls)
    if m is None:
        return {"cases": len(ls), "disagreements": [], "ok": False, "error": "drivers/Src.lean did not run"}
    dis = []
    for l, mo in zip(ls, m):
        im = impl(l)
        if im != mo:
            dis.append((l, im, mo))
    return {"cases": len(ls), "disagreements": dis[:20], "n_disagreements": len(dis), "ok": not dis}
