#!/bin/bash
# Robustness regression for the source-translated tie (DESIGN 3A item 6).
# lean/BitstringModel/Variants/Src<V>.lean are translations (harness/translate.py --out … --namespace BM.Gen.Src<V>) of
# HARMLESS rewrites of the translated Python functions (every variant tree passed the 836-test suite: locals renamed,
# sums re-associated/commuted, conditional expressions <-> if statements, guards merged/swapped/negated, branches swapped,
# integer locals introduced, …).  For every Props/Cxx_Src.lean this script instantiates the SAME proof script against every
# variant (sed on the import and the namespace) and checks it: all must pass.  Not part of the registered checks.
cd "$(dirname "$0")/../lean" || exit 2
mkdir -p BitstringModel/Scratch
fail=0
for f in BitstringModel/Props/C??_Src*.lean; do
  b=$(basename $f .lean); c=${b%%_*}; sfx=${b#*_}
  for vf in BitstringModel/Variants/Src*.lean; do
    v=$(basename $vf .lean); v=${v#Src}
    out=BitstringModel/Scratch/${c}_${sfx}$v.lean
    sed -e "s/import BitstringModel.Gen.Src/import BitstringModel.Variants.Src$v/" -e "s/Gen\.Src\./Gen.Src$v./g" \
        -e "s/namespace BM\.$c\.Src/namespace BM.$c.Src$v/" -e "s/end BM\.$c\.Src/end BM.$c.Src$v/" $f > $out
  done
done
lake build $(ls BitstringModel/Variants/Src*.lean | sed 's|/|.|g; s|\.lean$||') >/dev/null 2>&1 || { echo "variant modules do not build"; exit 2; }
for out in BitstringModel/Scratch/C??_Src*.lean; do
  if lake env lean $out 2>&1 | grep -q "error"; then echo "FAIL $out"; fail=1; else echo "ok   $out"; fi
done
rm -rf BitstringModel/Scratch
exit $fail
