"""Self-test against seeded defects.  usage: muttest.py <dir with patch.diff [demo.py]> <pid> [<pid> ...]
Applies the patch to a scratch copy of /repo's working tree, confirms the demo fails there (and passes on /repo),
runs the named checks against the copy (VERIF_REPO), prints their verdict lines, removes the copy."""
import os, sys, shutil, subprocess, tempfile, json
VERIF = os.path.dirname(os.path.dirname(os.path.abspath(__file__)))
def main():
    mdir, pids = sys.argv[1], sys.argv[2:]
    tmp = tempfile.mkdtemp(prefix="mt_")
    try:
        dst = os.path.join(tmp, "repo")
        shutil.copytree("/repo", dst, ignore=shutil.ignore_patterns(".git", "__pycache__", "*.pyc", "tests", "doc"))
        r = subprocess.run(["git", "apply", "--recount", os.path.join(os.path.abspath(mdir), "patch.diff")], cwd=dst, capture_output=True, text=True)
        if r.returncode != 0:
            r = subprocess.run(["patch", "-p1", "-i", os.path.join(os.path.abspath(mdir), "patch.diff")], cwd=dst, capture_output=True, text=True)
            if r.returncode != 0:
                print("PATCH FAILED", r.stdout, r.stderr); return 2
        demo = os.path.join(os.path.abspath(mdir), "demo.py")
        if os.path.exists(demo):
            env = dict(os.environ, PYTHONPATH=dst)
            d1 = subprocess.run(["/venv/bin/python", demo], cwd=dst, capture_output=True, text=True, env=env)
            env0 = dict(os.environ, PYTHONPATH="/repo")
            d0 = subprocess.run(["/venv/bin/python", demo], cwd="/repo", capture_output=True, text=True, env=env0)
            print(f"demo: mutant rc={d1.returncode} clean rc={d0.returncode}")
        res = {}
        for pid in pids:
            env = dict(os.environ, VERIF_REPO=dst, VERIF_EVIDENCE_DIR=os.path.join(tmp, "ev"))
            c = subprocess.run([os.path.join(VERIF, "check"), pid], cwd=VERIF, capture_output=True, text=True, env=env)
            lines = [l for l in c.stdout.splitlines() if l.startswith(("VIOLATION", "KNOWN", pid))]
            print(f"[{pid}] rc={c.returncode} " + " | ".join(lines[-3:]))
            if c.returncode == 2:
                print(c.stdout[-1500:], c.stderr[-1500:])
            res[pid] = c.returncode
            for l in lines:
                if l.startswith("VIOLATION") and "replay=" in l:
                    rp = l.split("replay=")[1].split()[0]
                    try:
                        j = json.load(open(os.path.join(VERIF, rp)))
                        if j.get("cases"):
                            print("    e.g.", j["cases"][0]["line"].replace("\t", " "), "=>", j["cases"][0].get("oracle"))
                        else:
                            print("    broken:", json.dumps(j.get("broken"))[:300], json.dumps(j.get("disagreements"))[:300])
                    except Exception as e:
                        print("    (replay unreadable)", e)
        return 0
    finally:
        shutil.rmtree(tmp, ignore_errors=True)
        # Gen/ may have been regenerated from the mutant: restore it from /repo
        # (all generated files: C11 tables, source translation, per-property extractors) - under the lean lock
        env = {k: v for k, v in os.environ.items() if k not in ("VERIF_REPO", "VERIF_EVIDENCE_DIR")}
        subprocess.run(["/venv/bin/python", "-c",
                        "import sys; sys.path.insert(0, '.'); from harness import leanside\n"
                        "import subprocess, json, importlib\n"
                        "with leanside.lock():\n"
                        "    subprocess.run(['/venv/bin/python', 'harness/extract.py'], capture_output=True)\n"
                        "    subprocess.run(['/venv/bin/python', 'harness/translate.py'], capture_output=True)\n"
                        "    for p in json.load(open('harness/ready.json')):\n"
                        "        importlib.import_module('harness.props.' + p)\n"],
                       cwd=VERIF, capture_output=True, env=env)
sys.exit(main())
