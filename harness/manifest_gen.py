"""Regenerates MANIFEST.json from harness/props/*.py metadata (LEVEL_TEXT, LEVEL_NOTE, TECHNIQUE)."""
import json, os, sys, importlib, re
VERIF = os.path.dirname(os.path.dirname(os.path.abspath(__file__)))
sys.path.insert(0, VERIF)
ALL = ["C%02d" % i for i in range(1, 21)]
REASONS = json.load(open(os.path.join(VERIF, "harness", "not_applicable.json"))) if os.path.exists(os.path.join(VERIF, "harness", "not_applicable.json")) else {}
checks, na = [], []
READY = json.load(open(os.path.join(VERIF, "harness", "ready.json")))   # properties whose check is finished and reviewed
for pid in ALL:
    path = os.path.join(VERIF, "harness", "props", pid + ".py")
    props = os.path.join(VERIF, "lean", "BitstringModel", "Props", pid + ".lean")
    if not (os.path.exists(path) and os.path.exists(props)) or pid in REASONS or pid not in READY:
        na.append({"property_id": pid, "reason": REASONS.get(pid, "check not built yet in this session (see DESIGN.md §10 build order); no claim is made")})
        continue
    src = open(path).read()
    def meta(name, default):
        m = re.search(r'^%s\s*=\s*\(?\s*((?:"(?:[^"\\]|\\.)*"\s*)+)\)?' % name, src, re.M)
        if not m:
            return default
        return "".join(json.loads(x) for x in re.findall(r'"(?:[^"\\]|\\.)*"', m.group(1)))
    # source-translated tie (DESIGN 3A.6): which functions Props/<pid>_Src*.lean proves equal to the model
    pdir = os.path.join(VERIF, "lean", "BitstringModel", "Props")
    srcs = "".join(open(os.path.join(pdir, f)).read() for f in sorted(os.listdir(pdir)) if f.startswith(pid + "_Src") and f.endswith(".lean"))
    tied = sorted(set(re.findall(r"Gen\.Src\.([A-Za-z_0-9]+)", srcs)) - {"Untranslatable"})
    tie_text = (" Source-translated tie: harness/translate.py re-translates " + ", ".join(tied) + " from /repo on every run "
                "(Gen/Src.lean) and Props/" + pid + "_Src*.lean proves each equal to the ALG model for all inputs.") if tied else ""
    tie_tech = " + source-to-Lean translation of the guard/index functions with equivalence theorems" if tied else ""
    checks.append({
        "property_id": pid,
        "quick_cmd": f"./check {pid} --tier quick",
        "thorough_cmd": f"./check {pid} --tier thorough",
        "evidence_file": f"evidence/{pid}.json",
        "replay_cmd_template": f"./check {pid} --replay {{path}}",
        "engine": "lean-model+correspondence",
        "level_claimed": {"category": "proof", "text": meta("LEVEL_TEXT", "Lean 4 theorems about a hand-written model of the code's algorithms, tied to the working tree by a differential correspondence run"), "design_ref": f"DESIGN.md §6 {pid}"},
        "level_note": meta("LEVEL_NOTE", "Trusted: Lean kernel + propext/Classical.choice/Quot.sound; the correspondence harness; bitarray/CPython primitives modelled, not verified.") + tie_text,
        "technique": meta("TECHNIQUE", "Lean 4 proof over an executable model + model/implementation correspondence") + tie_tech,
    })
man = {
    "version": 1,
    "setup_cmd": "./check --setup",
    "hooks": {"guard": "BITSTRING_VERIF", "enable": "BITSTRING_VERIF=1 in the environment of the harness process (harness/common.py sets it); no rebuild needed (pure Python)",
              "baseline_off_cmd": "cd /repo && /venv/bin/python -m pytest -ra -q -p no:cacheprovider --timeout=900 --continue-on-collection-errors",
              "source_commits": json.load(open(os.path.join(VERIF, "harness", "hook_commits.json"))) if os.path.exists(os.path.join(VERIF, "harness", "hook_commits.json")) else [],
              "add_only": True},
    "engines": [{"name": "lean-model+correspondence", "path": "lean/ + harness/", "serves_properties": [c["property_id"] for c in checks],
                 "kind_free_text": "Lean 4 (4.33.0) model + theorems (lake build, #print axioms audit), generated layer re-extracted from /repo each run, source-to-Lean translation of the guard / index-arithmetic functions (harness/translate.py) with equivalence theorems against the hand-written model, differential correspondence of the model's executable definitions against the implementation over a line protocol"}],
    "checks": checks,
    "not_applicable": na,
    "notes": "See DESIGN.md. Exit 0 = held on everything explored; exit 1 + VIOLATION line; exit 2 = infrastructure trouble (never a VIOLATION).",
}
json.dump(man, open(os.path.join(VERIF, "MANIFEST.json"), "w"), indent=1)
print(len(checks), "checks;", len(na), "not applicable")
