"""Lean side of a check: regenerate Gen/, build the property's modules, audit, drive the model."""
from __future__ import annotations
import os, re, subprocess, fcntl, time, contextlib, json

VERIF = os.path.dirname(os.path.dirname(os.path.abspath(__file__)))
LEAN = os.path.join(VERIF, "lean")
LIB = os.path.join(LEAN, "BitstringModel")
ALLOWED_AXIOMS = {"propext", "Classical.choice", "Quot.sound"}
FORBIDDEN = re.compile(r"\bsorry\b|\badmit\b|^\s*axiom\s|native_decide|bv_decide|implemented_by|\bunsafe\s|maxHeartbeats\s+0\b", re.M)
PYTHON = "/venv/bin/python"


@contextlib.contextmanager
def lock():
    """One check at a time touches lean/.lake and Gen/."""
    path = os.path.join(LEAN, ".verif.lock")
    with open(path, "w") as f:
        fcntl.flock(f, fcntl.LOCK_EX)
        try:
            yield
        finally:
            fcntl.flock(f, fcntl.LOCK_UN)


def strip_comments(src: str) -> str:
    out, i, depth, n = [], 0, 0, len(src)
    while i < n:
        if src.startswith("/-", i):
            depth += 1; i += 2; continue
        if depth and src.startswith("-/", i):
            depth -= 1; i += 2; continue
        if depth:
            if src[i] == "\n":
                out.append("\n")
            i += 1; continue
        if src.startswith("--", i):
            while i < n and src[i] != "\n":
                i += 1
            continue
        if src[i] == '"':                       # skip string literals
            j = i + 1
            while j < n and src[j] != '"':
                j += 2 if src[j] == "\\" else 1
            out.append('""'); i = j + 1; continue
        out.append(src[i]); i += 1
    return "".join(out)


def props_modules(pid: str) -> list[str]:
    """Props/<pid>.lean plus any Props/<pid>_*.lean (a property's theorems may be split over files)."""
    d = os.path.join(LIB, "Props")
    out = []
    for f in sorted(os.listdir(d)):
        if f == pid + ".lean" or (f.startswith(pid + "_") and f.endswith(".lean")):
            out.append("BitstringModel.Props." + f[:-5])
    return out


def module_files(pid: str) -> list[str]:
    """Transitive closure of the property's Props files over `import BitstringModel.*`."""
    seen, todo = [], props_modules(pid)
    while todo:
        m = todo.pop()
        if m in seen:
            continue
        path = os.path.join(LEAN, *m.split(".")) + ".lean"
        if not os.path.exists(path):
            continue
        seen.append(m)
        for mm in re.findall(r"^import\s+(BitstringModel\.\S+)", open(path).read(), re.M):
            todo.append(mm)
    return seen


def theorem_names(path: str) -> list[str]:
    """Fully qualified names of the theorems declared in a Lean file (namespace-tracking scan)."""
    names, stack = [], []
    for line in strip_comments(open(path).read()).splitlines():
        m = re.match(r"\s*namespace\s+(\S+)", line)
        if m:
            stack.append(m.group(1)); continue
        m = re.match(r"\s*end\s+(\S+)", line)
        if m and stack and stack[-1] == m.group(1):
            stack.pop(); continue
        m = re.match(r"\s*(?:@\[[^\]]*\]\s*)?(?:private\s+|protected\s+)?theorem\s+(\S+)", line)
        if m:
            names.append(".".join(stack + [m.group(1)]))
    return names


def run(cmd, timeout, cwd=LEAN, env=None):
    e = dict(os.environ)
    if env:
        e.update(env)
    return subprocess.run(cmd, cwd=cwd, capture_output=True, text=True, timeout=timeout, env=e)


def regenerate(log: list) -> dict:
    """Re-extract Gen/*.lean from the working tree (write-if-changed)."""
    ext = os.path.join(VERIF, "harness", "extract.py")
    if not os.path.exists(ext):
        return {"ok": True, "changed": [], "sentinel_changed": []}
    r = run([PYTHON, ext], 600, cwd=VERIF)
    log.append({"cmd": "extract.py", "rc": r.returncode, "tail": (r.stdout + r.stderr)[-2000:]})
    if r.returncode != 0:
        return {"ok": False, "changed": [], "sentinel_changed": [], "error": (r.stdout + r.stderr)[-2000:]}
    try:
        info = json.loads(r.stdout.strip().splitlines()[-1])
    except Exception:
        info = {"changed": [], "sentinel_changed": []}
    info["ok"] = True
    # source-to-Lean translation of the index-arithmetic core (Gen/Src.lean; DESIGN 3A item 6)
    tr = os.path.join(VERIF, "harness", "translate.py")
    if os.path.exists(tr):
        r = run([PYTHON, tr], 300, cwd=VERIF)
        log.append({"cmd": "translate.py", "rc": r.returncode, "tail": (r.stdout + r.stderr)[-1500:]})
        if r.returncode != 0:
            info["ok"] = False
            info["error"] = "translate.py: " + (r.stdout + r.stderr)[-1500:]
        else:
            try:
                t = json.loads(r.stdout)
                info["translated"] = t["functions"]
                if t.get("changed"):
                    info.setdefault("changed", []).append("Gen/Src.lean")
            except Exception as e:                                  # noqa: BLE001
                info["ok"] = False
                info["error"] = f"translate.py output unreadable: {e}"
    return info


def prepare(pid: str, tier: str, log: list) -> dict:
    """Build + audit. Returns a status dict; never raises for a failing proof (that is a verdict)."""
    st = {"ok": True, "failures": [], "obligations": 0, "discharged": 0, "theorems": [],
          "checker_cmd": "", "axioms": {}, "model_ok": True}
    gen = regenerate(log)
    st["gen"] = gen
    if not gen["ok"]:
        st["ok"] = False
        st["failures"].append({"kind": "extract", "detail": gen.get("error", "")})
    props = os.path.join(LIB, "Props", pid + ".lean")
    if not os.path.exists(props):
        st["ok"] = False
        st["failures"].append({"kind": "missing", "detail": props})
        return st
    mods = module_files(pid)
    # 1. forbidden constructs
    for m in mods:
        path = os.path.join(LEAN, *m.split(".")) + ".lean"
        src = strip_comments(open(path).read())
        hit = FORBIDDEN.search(src)
        if hit:
            st["ok"] = False
            st["failures"].append({"kind": "forbidden", "detail": f"{m}: {hit.group(0).strip()}"})
        if ".Model." in m and re.search(r"^import\s+(?!BitstringModel\.(Model|Gen)\.)", src, re.M):
            st["ok"] = False
            st["failures"].append({"kind": "model-import", "detail": m})
    # 2. build (models first so the driver can run even when a proof fails)
    model_mods = [m for m in mods if ".Model." in m or ".Gen." in m]
    targets = props_modules(pid)
    if tier == "thorough":
        # clean rebuild of the property's own modules
        for m in mods:
            if pid not in m.split(".")[-1]:
                continue                      # shared modules (Basic, other properties' lemmas) are left alone
            for ext in (".olean", ".ilean", ".trace", ".hash", ".olean.hash", ".ilean.hash"):
                p = os.path.join(LEAN, ".lake", "build", "lib", "lean", *m.split(".")) + ext
                if os.path.exists(p):
                    os.remove(p)
    cmd = ["lake", "build"] + targets
    t0 = time.time()
    r = run(cmd, 3000)
    st["checker_cmd"] = "cd lean && " + " ".join(cmd)
    st["build_s"] = round(time.time() - t0, 1)
    log.append({"cmd": " ".join(cmd), "rc": r.returncode, "tail": (r.stdout + r.stderr)[-4000:]})
    if r.returncode != 0:
        st["ok"] = False
        failed = re.findall(r"^- (BitstringModel\.\S+)", r.stdout + r.stderr, re.M)
        errs = re.findall(r"error: (BitstringModel/\S+?\.lean:\d+:\d+): (.*)", r.stdout + r.stderr)
        st["failures"].append({"kind": "build", "modules": failed, "errors": [f"{a}: {b}" for a, b in errs[:20]]})
        if model_mods:
            r2 = run(["lake", "build"] + model_mods, 1200)
            if r2.returncode != 0:
                st["model_ok"] = False
    # 3. axioms of every theorem in the property file (re-elaborated against the fresh .oleans)
    names = []
    for m in props_modules(pid):
        names += theorem_names(os.path.join(LEAN, *m.split(".")) + ".lean")
    st["theorems"] = names
    st["obligations"] = len(names)
    if r.returncode == 0 and names:
        audit = os.path.join(LEAN, ".lake", f"Audit_{pid}.lean")
        with open(audit, "w") as f:
            f.write("".join(f"import {m}\n" for m in props_modules(pid)) + "".join(f"#print axioms {n}\n" for n in names))
        ra = run(["lake", "env", "lean", audit], 900)
        out = ra.stdout + ra.stderr
        log.append({"cmd": "lake env lean Audit", "rc": ra.returncode, "tail": out[-3000:]})
        for n in names:
            m = re.search(r"'" + re.escape(n) + r"' (does not depend on any axioms|depends on axioms: \[([^\]]*)\])", out)
            if not m:
                st["ok"] = False
                st["failures"].append({"kind": "axioms-missing", "detail": n})
                continue
            ax = [] if m.group(2) is None else [a.strip() for a in m.group(2).replace("\n", " ").split(",") if a.strip()]
            st["axioms"][n] = ax
            bad = [a for a in ax if a not in ALLOWED_AXIOMS]
            if bad:
                st["ok"] = False
                st["failures"].append({"kind": "axioms", "detail": f"{n}: {bad}"})
            else:
                st["discharged"] += 1
        if tier == "thorough":
            rc = run(["lake", "env", "leanchecker"] + props_modules(pid), 3000)
            log.append({"cmd": "leanchecker", "rc": rc.returncode, "tail": (rc.stdout + rc.stderr)[-2000:]})
            st["leanchecker_rc"] = rc.returncode
            st["checker_cmd"] += " && lake env leanchecker " + " ".join(props_modules(pid))
            if rc.returncode != 0:
                st["ok"] = False
                st["failures"].append({"kind": "leanchecker", "detail": (rc.stdout + rc.stderr)[-500:]})
    return st


def drive(pid: str, lines: list[str], timeout=3000) -> list[str] | None:
    """Run the property's model driver on the case lines; one output line per input line."""
    if not lines:
        return []
    inp = "\n".join(lines) + "\n"
    r = subprocess.run(["lake", "env", "lean", "--run", f"drivers/{pid}.lean"], cwd=LEAN, input=inp,
                       capture_output=True, text=True, timeout=timeout)
    out = r.stdout.split("\n")
    if out and out[-1] == "":
        out.pop()
    if r.returncode != 0 or len(out) != len(lines):
        return None
    return out
