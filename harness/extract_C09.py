"""Extractor for C09's part of the GENERATED layer: lean/BitstringModel/Gen/Lsb0Tables.lean.

    extract(repo_path) -> dict      reads the working tree (source with `ast`, plus the live package)
    write(gen_dir, data) -> [changed paths]   write-if-changed, so lake keeps its cached .oleans

What is extracted
  * the two method tables of `Options.set_lsb0` (bitstring/bitstring_options.py), from the SOURCE with `ast`:
    for each of `lsb0_methods` / `msb0_methods` the list of ((class, attribute), method expression as written);
  * every `CACHE_SIZE = <int>` module constant (three copies) and the live `maxsize` of each of the eight
    `functools.lru_cache` objects (`cache_parameters()`), i.e. the capacity the code really runs with;
  * two behavioural facts obtained by EVALUATING the code (DESIGN 3A item 2): does assigning
    `options.mxfp_overflow` / `options.lsb0` leave a string parsed earlier in the `str_to_bitstore` cache
    (`staleAfterMxfp`, `staleAfterLsb0`)?  They select between the model of the code as pinned (setters do not
    touch the caches) and the model of the repaired code (setters invalidate / options are part of the key).

Called by harness/props/C09.py when that module is imported (before the Lean build of the check), not by
harness/extract.py.
"""
from __future__ import annotations
import ast, os, sys, importlib

CACHES = [  # (Lean name, module, attribute path)
    ("str_to_bitstore", "bitstring.bitstore_helpers", "str_to_bitstore"),
    ("parse_name_length_token", "bitstring.utils", "parse_name_length_token"),
    ("parse_single_struct_token", "bitstring.utils", "parse_single_struct_token"),
    ("parse_single_token", "bitstring.utils", "parse_single_token"),
    ("preprocess_tokens", "bitstring.utils", "preprocess_tokens"),
    ("tokenparser", "bitstring.utils", "tokenparser"),
    ("Dtype._new_from_token", "bitstring.dtypes", "Dtype._new_from_token"),
    ("Dtype._create", "bitstring.dtypes", "Dtype._create"),
]


def _tables_from_source(path: str) -> dict:
    tree = ast.parse(open(path).read())
    fn = None
    for node in ast.walk(tree):
        if isinstance(node, ast.FunctionDef) and node.name == "set_lsb0":
            fn = node
    if fn is None:
        raise ValueError("set_lsb0 not found in %s" % path)
    out = {}
    for node in ast.walk(fn):
        if isinstance(node, ast.Assign) and len(node.targets) == 1 and isinstance(node.targets[0], ast.Name) \
                and node.targets[0].id in ("lsb0_methods", "msb0_methods") and isinstance(node.value, ast.Dict):
            rows = []
            for ck, cv in zip(node.value.keys, node.value.values):
                cls = ast.unparse(ck)
                if not isinstance(cv, ast.Dict):
                    raise ValueError("method table entry for %s is not a dict literal" % cls)
                for ak, av in zip(cv.keys, cv.values):
                    if not (isinstance(ak, ast.Constant) and isinstance(ak.value, str)):
                        raise ValueError("attribute key of %s is not a string literal" % cls)
                    rows.append(((cls, ak.value), ast.unparse(av)))
            out[node.targets[0].id] = rows
    if set(out) != {"lsb0_methods", "msb0_methods"}:
        raise ValueError("did not find both method tables in set_lsb0 (found %s)" % sorted(out))
    return out


def _cache_size_constants(repo_path: str) -> list:
    rows = []
    for mod in ("bitstore_helpers", "utils", "dtypes"):
        p = os.path.join(repo_path, "bitstring", mod + ".py")
        for node in ast.parse(open(p).read()).body:
            if isinstance(node, ast.Assign) and len(node.targets) == 1 and isinstance(node.targets[0], ast.Name) \
                    and node.targets[0].id == "CACHE_SIZE" and isinstance(node.value, ast.Constant) \
                    and isinstance(node.value.value, int):
                rows.append((mod, int(node.value.value)))
    return rows


def _resolve(modname: str, path: str):
    obj = importlib.import_module(modname)
    for part in path.split("."):
        obj = getattr(obj, part)
    return obj


def _live(repo_path: str) -> dict:
    """Facts read from the live package (imported from repo_path)."""
    if repo_path not in sys.path:
        sys.path.insert(0, repo_path)
    import bitstring
    got = os.path.realpath(os.path.dirname(os.path.dirname(bitstring.__file__)))
    if got != os.path.realpath(repo_path):
        raise RuntimeError("bitstring imported from %s, expected %s" % (got, repo_path))
    consts = dict(_cache_size_constants(repo_path))
    sizes = []
    for name, modname, path in CACHES:
        try:
            f = _resolve(modname, path)
            ms = f.cache_parameters()["maxsize"]
            if ms is None:
                ms = 1 << 30                    # unbounded
            sizes.append((name, int(ms)))
        except Exception:
            # no longer an lru_cache under this name (refactored): fall back to the module's CACHE_SIZE constant.
            # The capacity only matters to the model while a setter leaves stale entries behind.
            sizes.append((name, int(consts.get(modname.split(".")[-1], 256))))
    typed = True
    for name, modname, path in CACHES:
        if name.startswith("Dtype."):
            try:
                typed = typed and bool(_resolve(modname, path).cache_parameters()["typed"])
            except Exception:
                typed = False
    o = bitstring.options
    saved = (o.lsb0, o.bytealigned, o.mxfp_overflow)

    def probe(first, flip, string):
        """Parse `string` under `first`, flip, parse again warm, parse again cold: is the warm result the cold one?"""
        try:
            _clear_all(bitstring)
            first()
            a = _obs(bitstring, string)
            flip()
            warm = _obs(bitstring, string)
            _clear_all(bitstring)
            cold = _obs(bitstring, string)
            return warm != cold and warm == a
        finally:
            o.lsb0, o.bytealigned, o.mxfp_overflow = saved
            _clear_all(bitstring)

    stale_mxfp = probe(lambda: setattr(o, "mxfp_overflow", "saturate"), lambda: setattr(o, "mxfp_overflow", "overflow"),
                       "e4m3mxfp=1000")
    stale_lsb0 = probe(lambda: setattr(o, "lsb0", False), lambda: setattr(o, "lsb0", True), "ue=3")
    return {"sizes": sizes, "stale_mxfp": bool(stale_mxfp), "stale_lsb0": bool(stale_lsb0), "dtype_typed": bool(typed)}


def _obs(bitstring, s):
    try:
        return "ok " + bitstring.Bits(s).bin
    except Exception:
        return "err"


def discover_caches():
    """Every object with a cache_clear() reachable from the package's modules and classes (so that an added, moved
    or renamed cache is found too)."""
    found, seen = [], set()
    for mname, mod in list(sys.modules.items()):
        if not (mname == "bitstring" or mname.startswith("bitstring.")) or mod is None:
            continue
        for an, av in list(vars(mod).items()):
            cands = [av]
            if isinstance(av, type) and getattr(av, "__module__", "").startswith("bitstring"):
                for bn, bv in list(vars(av).items()):
                    cands.append(bv)
            for c in cands:
                c = getattr(c, "__func__", c)
                if callable(getattr(c, "cache_clear", None)) and id(c) not in seen:
                    seen.add(id(c)); found.append(c)
    return found


def _clear_all(bitstring):
    for c in discover_caches():
        try:
            c.cache_clear()
        except Exception:
            pass


_LIVE_TABLES = r"""
import sys, json
sys.path.insert(0, %r)
import bitstring
classes = []
for mname, mod in list(sys.modules.items()):
    if mname == 'bitstring' or mname.startswith('bitstring.'):
        for v in vars(mod).values():
            if isinstance(v, type) and getattr(v, '__module__', '').startswith('bitstring') and v not in classes:
                classes.append(v)
def snap():
    out = {}
    for c in classes:
        for a, v in vars(c).items():
            f = getattr(v, '__func__', v)
            if callable(f):
                out[(c.__name__, a)] = (id(f), getattr(f, '__qualname__', type(f).__name__))
    return out
a0 = snap(); bitstring.options.lsb0 = True
a1 = snap(); bitstring.options.lsb0 = False
a2 = snap()
rows = lambda new, old: [[list(k), new[k][1]] for k in new if new[k] != old.get(k)]
print(json.dumps({'lsb0_methods': rows(a1, a0), 'msb0_methods': rows(a2, a1)}))
"""


def _tables_live(repo_path: str) -> dict:
    """Fallback when `set_lsb0` no longer has the two dict literals: EVALUATE the re-binding in a fresh interpreter
    (which class attributes change when lsb0 is switched on, and which when it is switched off again)."""
    import subprocess, json
    r = subprocess.run([sys.executable, "-c", _LIVE_TABLES % repo_path], capture_output=True, text=True, timeout=120)
    if r.returncode != 0:
        raise RuntimeError("live table extraction failed: " + r.stderr[-500:])
    j = json.loads(r.stdout.strip().splitlines()[-1])
    return {k: [((c, a), m) for (c, a), m in v] for k, v in j.items()}


def extract(repo_path: str) -> dict:
    try:
        data = _tables_from_source(os.path.join(repo_path, "bitstring", "bitstring_options.py"))
        data["tables_from"] = "source"
    except (ValueError, SyntaxError):
        data = _tables_live(repo_path)
        data["tables_from"] = "evaluation"
    data["cache_size_constants"] = _cache_size_constants(repo_path)
    data.update(_live(repo_path))
    return data


def _lean_str(s: str) -> str:
    return '"' + s.replace("\\", "\\\\").replace('"', '\\"') + '"'


def render(data: dict) -> str:
    def table(rows):
        return "[\n  " + ",\n  ".join("((%s, %s), %s)" % (_lean_str(c), _lean_str(a), _lean_str(m)) for (c, a), m in rows) + "]"

    def pairs(rows):
        return "[" + ", ".join("(%s, %d)" % (_lean_str(n), v) for n, v in rows) + "]"
    b = lambda x: "true" if x else "false"
    return ("/-\n  GENERATED by harness/extract_C09.py from the working tree - do not edit.\n"
            "  Method tables of `Options.set_lsb0` (bitstring/bitstring_options.py, read with `ast`; by evaluating the\n"
            "  re-binding in a fresh interpreter if the source no longer has the two dict literals), the CACHE_SIZE\n"
            "  constants, the live `maxsize` of the eight lru_caches, and two evaluated facts about the option setters.\n-/\n"
            "namespace BM.Gen\n\n"
            "/-- `lsb0_methods`: ((class, attribute), method bound when lsb0 is switched on). -/\n"
            "def lsb0Table : List ((String × String) × String) := " + table(data["lsb0_methods"]) + "\n\n"
            "/-- `msb0_methods`: ((class, attribute), method bound when lsb0 is switched off). -/\n"
            "def msb0Table : List ((String × String) × String) := " + table(data["msb0_methods"]) + "\n\n"
            "/-- `CACHE_SIZE = …` in bitstore_helpers.py, utils.py, dtypes.py. -/\n"
            "def cacheSizeConstants : List (String × Nat) := " + pairs(data["cache_size_constants"]) + "\n\n"
            "/-- `f.cache_parameters()['maxsize']` of the eight `functools.lru_cache` objects. -/\n"
            "def cacheSizes : List (String × Nat) := " + pairs(data["sizes"]) + "\n\n"
            "/-- Evaluated: `Bits('e4m3mxfp=1000')` parsed under 'saturate' is still served after\n"
            "    `options.mxfp_overflow = 'overflow'` (the setter does not invalidate the string cache). -/\n"
            "def staleAfterMxfp : Bool := " + b(data["stale_mxfp"]) + "\n\n"
            "/-- Evaluated: `Bits('ue=3')` parsed in msb0 mode is still served after `options.lsb0 = True`. -/\n"
            "def staleAfterLsb0 : Bool := " + b(data["stale_lsb0"]) + "\n\n"
            "/-- `cache_parameters()['typed']` of both Dtype caches: keys `2`, `2.0`, `True` are kept apart (e6496ea). -/\n"
            "def dtypeCachesTyped : Bool := " + b(data["dtype_typed"]) + "\n\n"
            "end BM.Gen\n")


def write(gen_dir: str, data: dict) -> list:
    path = os.path.join(gen_dir, "Lsb0Tables.lean")
    content = render(data)
    try:
        with open(path) as f:
            if f.read() == content:
                return []
    except OSError:
        pass
    os.makedirs(gen_dir, exist_ok=True)
    tmp = path + ".tmp%d" % os.getpid()
    with open(tmp, "w") as f:
        f.write(content)
    os.replace(tmp, path)
    return [path]


if __name__ == "__main__":
    repo = os.environ.get("VERIF_REPO", "/repo")
    verif = os.path.dirname(os.path.dirname(os.path.abspath(__file__)))
    d = extract(repo)
    print(write(os.path.join(verif, "lean", "BitstringModel", "Gen"), d))
