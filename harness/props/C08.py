"""C08 — behaviour depends only on bit content, not on where the bits came from.

line: C08 route <kind> <data> <off> <len> <cls> <variant> <lsb0> <opseed> <nops>
  <nops> = how many of the public operations (chosen from opseed) are run on this case; 0 = all of them
  kind ∈ file | bytes | bytesio | bitarray | plain ; <data> = source bits (whole bytes for byte sources);
  <off>/<len> = window (None allowed); variant = how the source is presented (name|handle, bytes|bytearray|
  memoryview, big|little, bin|hex|oct|iter|array|slice|copy|cache|join|pack).
out : ok <bin> <len> <count(1)> <bits of tobytes()> <x == Bits(bin=x.bin)>   | err ValueError
extra: every public operation run on the route-built object AND on its in-memory twin built from x.bin;
       the names of the operations whose canonical results differ.
"""
from harness.common import *
import io, os, array as _array, tempfile, atexit, shutil, copy as _copy, random as _random

FUNCTIONAL = True
LEVEL_TEXT = ("Lean theorems over a model of BitStore with its raw buffer and modified_length: every construction route "
              "(bytes=, BytesIO, bitarray=, file by offset/length through BitStore.frombuffer) yields exactly the requested "
              "window and a store with no effective length limit, and under that invariant every BitStore method - including "
              "those reading the raw buffer - is a function of the logical content; so equal content gives equal observations. "
              "Correspondence: all routes x windows x classes; oracle: every public operation (non-mutating, and mutating on "
              "mutable classes, msb0 and lsb0) on the route-built object and on its in-memory twin.")
LEVEL_NOTE = ("Trusted: Lean kernel (+propext, Classical.choice, Quot.sound); mmap/file system and bitarray's buffer protocol are "
              "runtime and outside the model (the model starts from the bytes read); the public-API twin comparison is testing "
              "that supports the search, the theorems cover the BitStore level.")
TECHNIQUE = "Lean 4 proof (store invariant + congruence of every store operation) + route x operation twin correspondence"

_TMP = tempfile.mkdtemp(prefix="verif_c08_")
atexit.register(lambda: shutil.rmtree(_TMP, ignore_errors=True))
_files = {}


def _file_for(data_bits):
    if data_bits not in _files:
        p = os.path.join(_TMP, f"f{len(_files)}.bin")
        with open(p, "wb") as f:
            f.write(int(data_bits, 2).to_bytes(len(data_bits) // 8, "big") if data_bits else b"")
        _files[data_bits] = p
    return _files[data_bits]


def _opt(s):
    return None if s == "None" else int(s)


def build(kind, data, off, ln, cls, variant):
    C = CLASSES[cls]
    kw = {}
    if off is not None:
        kw["offset"] = off
    if ln is not None:
        kw["length"] = ln
    raw = int(data, 2).to_bytes(len(data) // 8, "big") if data and kind != "bitarray" and kind != "plain" else b""
    if kind == "file":
        path = _file_for(data)
        if variant == "name":
            return C(filename=path, **kw)
        with open(path, "rb") as fh:
            return C(fh, **kw) if kw else C(fh)
    if kind == "bytes":
        src = {"bytes": raw, "bytearray": bytearray(raw), "memoryview": memoryview(raw)}[variant]
        return C(bytes=src, **kw)
    if kind == "bytesio":
        return C(io.BytesIO(raw), **kw) if kw else C(io.BytesIO(raw))
    if kind == "bitarray":
        ba = bitarray.bitarray(data, endian=variant)
        return C(bitarray=ba, **kw) if kw else C(ba)
    if kind == "plain":
        if variant == "bin":
            return C(bin=data) if data else C()
        if variant == "hex":
            return C("0x" + format(int(data, 2), "0%dx" % (len(data) // 4))) if data else C("")
        if variant == "oct":
            return C("0o" + format(int(data, 2), "0%do" % (len(data) // 3))) if data else C("")
        if variant == "iter":
            return C([c == "1" for c in data])
        if variant == "array":
            return C(_array.array("B", int(data, 2).to_bytes(len(data) // 8, "big") if data else b""))
        if variant == "slice":
            big = C(bin="101" + data + "0110")
            return big[3:3 + len(data)]
        if variant == "copy":
            return _copy.copy(C(bin=data) if data else C())
        if variant == "cache":
            C("0b" + data) if data else None
            return C("0b" + data) if data else C("")
        if variant == "join":
            return C().join([Bits(bin=data[:len(data) // 2]) if data[:len(data) // 2] else Bits(), Bits(bin=data[len(data) // 2:]) if data[len(data) // 2:] else Bits()])
        if variant == "pack":
            return C(bitstring.pack("bits", Bits(bin=data) if data else Bits()))
    raise ValueError((kind, variant))


def _c(v):
    """canonical text of an operation result"""
    if isinstance(v, Bits):
        return f"{type(v).__name__}:{wire(v)}" + (f"@{v.pos}" if hasattr(v, "pos") else "")
    if isinstance(v, (bytes, bytearray)):
        return "bytes:" + bytes(v).hex()
    if isinstance(v, bitarray.bitarray):
        return "ba:" + v.to01()
    if isinstance(v, float):
        import struct
        return "float:" + struct.pack(">d", v).hex()
    if isinstance(v, (list, tuple)):
        return "[" + ",".join(_c(x) for x in v) + "]"
    if hasattr(v, "__next__"):
        return _c(list(v))
    if isinstance(v, int) and not isinstance(v, bool):
        return "int:" + format(v, "x")                   # (decimal repr of huge ints is limited by CPython)
    return repr(v)


def _ops(n, bits, r):
    """(name, function) pairs; every function takes the object and returns something canonicalisable."""
    pat = bits[r.randrange(0, max(n - 3, 1)):][:3] if n >= 3 else "1"
    other = "".join(r.choice("01") for _ in range(n))
    i0, i1 = (r.randrange(-n, n) if n else 0), (r.randrange(-n - 2, n + 2))
    a, b = sorted((r.randint(0, n), r.randint(0, n)))
    st = r.choice([1, 2, -1, -2, 3, -3])
    ops = [
        ("len", len), ("bool", bool), ("bin", lambda x: x.bin), ("str", str), ("tobytes", lambda x: x.tobytes()),
        ("bytes()", bytes), ("tobitarray", lambda x: x.tobitarray()), ("hash_or_err", lambda x: hash(x) if not isinstance(x, BitArray) else "unhashable"),
        ("eq_other", lambda x: x == Bits(bin=other) if other else x == Bits()), ("eq_self_bits", lambda x: x == Bits(bin=bits) if bits else x == Bits()),
        ("ne", lambda x: x != "0b1"), ("count1", lambda x: x.count(1)), ("count0", lambda x: x.count(0)),
        ("all1", lambda x: x.all(1)), ("any1", lambda x: x.any(1)), ("all0", lambda x: x.all(0)), ("any0", lambda x: x.any(0)),
        ("all_pos", lambda x: x.all(1, [i0]) if n else None), ("any_pos", lambda x: x.any(0, [i0, -1]) if n else None),
        ("index", lambda x: x[i0]), ("index_oob", lambda x: x[n]), ("index_neg", lambda x: x[-1]), ("index_i1", lambda x: x[i1]),
        ("slice", lambda x: x[a:b]), ("slice_step", lambda x: x[::st]), ("slice_neg", lambda x: x[-3:]), ("slice_abst", lambda x: x[b:a:-1]),
        ("rev", lambda x: x[::-1]), ("iter", lambda x: [bool(t) for t in x]),
        ("add", lambda x: x + "0b101"), ("radd", lambda x: "0b101" + x), ("add_self", lambda x: x + x), ("mul2", lambda x: x * 2), ("mul0", lambda x: x * 0),
        ("invert", lambda x: ~x), ("and", lambda x: x & Bits(bin=other) if other else x & Bits()), ("or", lambda x: x | Bits(bin=other) if other else None),
        ("xor", lambda x: x ^ Bits(bin=other) if other else None), ("rand", lambda x: Bits(bin=other) & x if other else None),
        ("lshift", lambda x: x << 3), ("rshift", lambda x: x >> 2), ("lshift_big", lambda x: x << (n + 1)),
        ("find", lambda x: x.find("0b" + pat)), ("find_ba", lambda x: x.find("0b" + pat, bytealigned=True)), ("rfind", lambda x: x.rfind("0b" + pat)),
        ("findall", lambda x: list(x.findall("0b" + pat))), ("findall_w", lambda x: list(x.findall("0b1", a, b))), ("in", lambda x: ("0b" + pat) in x),
        ("startswith", lambda x: x.startswith("0b" + bits[:2]) if n >= 2 else None), ("endswith", lambda x: x.endswith("0b" + bits[-2:]) if n >= 2 else None),
        ("cut", lambda x: list(x.cut(5))), ("cut_w", lambda x: list(x.cut(3, a, b))), ("split", lambda x: list(x.split("0b" + pat))),
        ("join", lambda x: x.join(["0b1", "0b0", "0b11"])), ("copy", lambda x: x.copy()), ("ccopy", lambda x: _copy.copy(x)),
        ("unpack_bits", lambda x: x.unpack("bits")), ("unpack_mix", lambda x: x.unpack("uint:3, bin") if n >= 3 else None),
        ("uint", lambda x: x.uint), ("int", lambda x: x.int), ("hex", lambda x: x.hex), ("oct", lambda x: x.oct), ("bytesprop", lambda x: x.bytes),
        ("uintle", lambda x: x.uintle), ("intbe", lambda x: x.intbe), ("float", lambda x: x.float), ("bool_prop", lambda x: x.bool),
        ("ue", lambda x: x.ue), ("sie", lambda x: x.sie), ("u_len", lambda x: getattr(x, f"u{n}") if n else None),
        ("BitArray()", lambda x: BitArray(x)), ("Bits()", lambda x: Bits(x)), ("BitStream()", lambda x: BitStream(x)), ("bitskw", lambda x: BitArray(bits=x)),
        ("pack_bits", lambda x: bitstring.pack("bits", x)), ("array", lambda x: bitstring.Array("u1", x).tolist()[:40]),
        ("tofile", lambda x: _tofile(x)), ("pp", lambda x: _pp(x)),
    ]
    stream_ops = [
        ("read", lambda x: (x.read(min(3, n)), x.pos)), ("read_tok", lambda x: (x.read("uint:2") if n >= 2 else None, x.pos)),
        ("readlist", lambda x: (x.readlist("bin:1, bits") if n else None, x.pos)), ("peek", lambda x: (x.peek(min(2, n)), x.pos)),
        ("readto", lambda x: (x.readto("0b" + pat), x.pos)), ("bytealign", lambda x: (x.bytealign(), x.pos)),
        ("find_pos", lambda x: (x.find("0b" + pat), x.pos)),
    ]
    mut_ops = [
        ("m_append", lambda x: x.append("0b110")), ("m_prepend", lambda x: x.prepend("0b001")), ("m_insert", lambda x: x.insert("0b11", a)),
        ("m_overwrite", lambda x: x.overwrite("0b0110", a)), ("m_del", lambda x: x.__delitem__(slice(a, b))), ("m_delidx", lambda x: x.__delitem__(i0)),
        ("m_setidx", lambda x: x.__setitem__(i0, 1)), ("m_setslice", lambda x: x.__setitem__(slice(a, b), "0b101")),
        ("m_setslice_int", lambda x: x.__setitem__(slice(a, b), 1)), ("m_setstep", lambda x: x.__setitem__(slice(None, None, 2), 1)),
        ("m_replace", lambda x: x.replace("0b" + pat, "0b0")), ("m_reverse", lambda x: x.reverse()), ("m_reverse_w", lambda x: x.reverse(a, b)),
        ("m_rol", lambda x: x.rol(3)), ("m_ror", lambda x: x.ror(2, a, b)), ("m_set", lambda x: x.set(1, [i0, -1])), ("m_set_all", lambda x: x.set(0)),
        ("m_invert", lambda x: x.invert()), ("m_invert_pos", lambda x: x.invert([i0])), ("m_byteswap", lambda x: x.byteswap()),
        ("m_byteswap2", lambda x: x.byteswap(2)), ("m_ilshift", lambda x: x.__ilshift__(2)), ("m_irshift", lambda x: x.__irshift__(3)),
        ("m_imul", lambda x: x.__imul__(2)), ("m_iand", lambda x: x.__iand__(Bits(bin=other) if other else Bits())),
        ("m_ior", lambda x: x.__ior__(Bits(bin=other) if other else Bits())), ("m_ixor", lambda x: x.__ixor__(x)), ("m_iadd", lambda x: x.__iadd__(x)),
        ("m_clear", lambda x: x.clear()), ("m_uint_assign", lambda x: setattr(x, "uint", 1)), ("m_hex_assign", lambda x: setattr(x, "hex", "ab")),
    ]
    return ops, stream_ops, mut_ops


def _tofile(x):
    buf = io.BytesIO()
    x.tofile(buf)
    return buf.getvalue()


def _pp(x):
    s = io.StringIO()
    x.pp(stream=s, width=40)
    out = s.getvalue()
    return out[out.index("\n"):]            # header names the class only; drop the first line anyway


def _bigfile(line):
    """A file larger than 1 MiB described compactly (`<nbytes>:<seed>` instead of the bits): whole-file and windowed views
    against the in-memory twin built from the same bytes, on the operations whose implementation may work chunk-wise
    (byte-aligned and plain searches with needles planted across every 64 KiB / 1 MiB boundary, counts, slices, tobytes,
    hash, equality).  The model is not consulted for these lines (compare() below); the oracle is the twin comparison."""
    _, _op, kind, spec, off, ln, cls, variant, lsb0, opseed, nops = line.split(SEP)
    nbytes, seed = (int(t) for t in spec.split(":"))
    off, ln = _opt(off), _opt(ln)
    r = _random.Random(seed)
    data = bytearray(r.randbytes(nbytes))
    needle = bytes([0xC3, 0x5A, 0x96, 0x0F, 0xF0])
    planted = []
    for b in range(1 << 16, nbytes, 1 << 16):            # a needle straddling every 64 KiB boundary (so also every 1 MiB one)
        if b + 3 <= nbytes:
            data[b - 2:b + 3] = needle
            planted.append(b - 2)
    data = bytes(data)
    key = ("big", nbytes, seed)
    if key not in _files:
        p_ = os.path.join(_TMP, f"big{len(_files)}.bin")
        with open(p_, "wb") as f:
            f.write(data)
        _files[key] = p_
    path = _files[key]
    mism = []
    o_ = off or 0
    l_ = (nbytes * 8 - o_) if ln is None else ln
    base = Bits(bytes=data)[o_:o_ + l_]          # the window in STORED order, taken before lsb0 may be switched on
    with options(lsb0=(lsb0 == "1")):
        def fresh():
            kw = {}
            if off is not None:
                kw["offset"] = off
            if ln is not None:
                kw["length"] = ln
            if variant == "handle":
                with open(path, "rb") as fh:
                    return CLASSES[cls](fh, **kw)
            return CLASSES[cls](filename=path, **kw)
        o = off or 0
        total = nbytes * 8
        l = (total - o) if ln is None else ln
        def twin():
            return CLASSES[cls](base)
        nd = Bits(bytes=needle)
        r2 = _random.Random(int(opseed))
        a0 = r2.randrange(0, max(l - 100, 1))
        ops = [("len", len), ("count1", lambda x: x.count(1)),
               ("findall_ba", lambda x: list(x.findall(nd, bytealigned=True))[:200]),
               ("findall", lambda x: list(x.findall(nd))[:200]),
               ("find_ba_from", lambda x: x.find(nd, start=min(a0, len(x)), bytealigned=True)),
               ("rfind_ba", lambda x: x.rfind(nd, bytealigned=True)), ("rfind", lambda x: x.rfind(nd)),
               ("in", lambda x: nd in x), ("split_n", lambda x: len(list(x.split(nd, bytealigned=True)))),
               ("slice_edge", lambda x: x[(1 << 23) - 40:(1 << 23) + 40].bin), ("slice_rand", lambda x: x[a0:a0 + 77].bin),
               ("tobytes_hash", lambda x: hash(x.tobytes())), ("eq_twin", lambda x: x == twin()),
               ("hash_or_err", lambda x: hash(x) if not isinstance(x, BitArray) else "unhashable"),
               ("startswith", lambda x: x.startswith(x[:100])), ("endswith", lambda x: x.endswith(x[-100:]))]
        if cls in ("ConstBitStream", "BitStream"):
            ops.append(("readto", lambda x: (len(x.readto(nd, bytealigned=True)), x.pos)))
        for name, fn in ops:
            ra = guarded(lambda: fn(fresh()), _c)
            rb = guarded(lambda: fn(twin()), _c)
            if ra != rb:
                mism.append(f"{name}: file-built gives {ra[:120]}, twin gives {rb[:120]}")
    return f"ok big {l}", {"twin_mismatch": mism, "n_ops": len(ops), "planted": len(planted)}


def compare(o, m, l):
    return True if l.split(SEP)[2] == "bigfile" else o == m


def execute(line):
    if line.split(SEP)[2] == "bigfile":
        return _bigfile(line)
    _, _op, kind, data, off, ln, cls, variant, lsb0, opseed, nops = line.split(SEP)
    data, off, ln = unwire(data), _opt(off), _opt(ln)
    nops = int(nops)
    extra = {}
    try:
        x = build(kind, data, off, ln, cls, variant)
    except Exception as e:                               # noqa: BLE001
        return "err " + err_name(e), extra
    tb = x.tobytes()
    out = f"ok {wire(x)} {len(x)} {x.count(1)} {wire(''.join(format(b, '08b') for b in tb))} {x == Bits(bin=x.bin) if len(x) else x == Bits()}"
    r = _random.Random(int(opseed))
    mism = []
    with options(lsb0=(lsb0 == "1")):
        def fresh():
            return build(kind, data, off, ln, cls, variant)
        # the content selected by a window over source DATA must not depend on the mode in force at construction
        bits = fresh().bin
        if kind != "plain" and bits != x.bin:
            mism.append(f"construction under lsb0={lsb0}: content {wire(bits)} differs from msb0 construction {wire(x)}")
        n = len(bits)
        ops, stream_ops, mut_ops = _ops(n, bits, r)
        def twin():
            return CLASSES[cls](bin=bits) if bits else CLASSES[cls]()
        todo = list(ops)
        if cls in ("ConstBitStream", "BitStream"):
            todo += stream_ops
        if nops:
            todo = r.sample(todo, min(nops, len(todo)))
            mut_ops = r.sample(mut_ops, min(max(nops // 3, 4), len(mut_ops)))
        for name, fn in todo:
            ra = guarded(lambda: fn(fresh()), _c)
            rb = guarded(lambda: fn(twin()), _c)
            if ra != rb:
                mism.append(f"{name}: route-built gives {ra[:120]}, twin gives {rb[:120]}")
        if cls in MUTABLE:
            for name, fn in mut_ops:
                xa, xb = fresh(), twin()
                ra = guarded(lambda: fn(xa), _c) + " -> " + wire(xa)
                rb = guarded(lambda: fn(xb), _c) + " -> " + wire(xb)
                if ra != rb:
                    mism.append(f"{name}: route-built gives {ra[:160]}, twin gives {rb[:160]}")
    extra["twin_mismatch"] = mism
    extra["n_ops"] = len(todo) + (len(mut_ops) if cls in MUTABLE else 0)
    return out, extra


def _expected_window(kind, data, off, ln):
    n = len(data)
    o = 0 if off is None else off
    l = (n - o) if ln is None else ln
    if o < 0 or l < 0 or o + l > n:
        return None
    return data[o:o + l]


def oracle(line, out, extra):
    if line.split(SEP)[2] == "bigfile":
        if extra.get("twin_mismatch"):
            return "file larger than 1 MiB (" + line.split(SEP)[3] + "): " + " ;; ".join(extra["twin_mismatch"][:3])
        return None
    _, _op, kind, data, off, ln, cls, variant, lsb0, opseed, nops = line.split(SEP)
    data, off, ln = unwire(data), _opt(off), _opt(ln)
    w = _expected_window(kind, data, off, ln)
    if w is None:
        return None if out.startswith("err") else None    # invalid windows belong to C15
    pad = (-len(w)) % 8
    exp = f"ok {wire(w)} {len(w)} {w.count('1')} {wire(w + '0' * pad)} True"
    if out != exp:
        return f"route {kind}/{variant} offset={off} length={ln}: expected {exp}, got {out}"
    if extra.get("twin_mismatch"):
        return f"route {kind}/{variant} offset={off} length={ln} cls={cls} lsb0={lsb0}: " + " ;; ".join(extra["twin_mismatch"][:3])
    return None


def model_line(line):
    f = line.split(SEP)
    if f[2] == "bigfile":
        return SEP.join(["C08", "route", "plain", "-", "None", "None"])       # placeholder: the model is not consulted (compare)
    return SEP.join(f[:6])


def nontrivial(line):
    return line.split(SEP)[3] != "-"


def gen(rng, tier):
    big = tier != "quick"
    sv = lambda v: "None" if v is None else str(v)
    datas = ["1111000000001111" + "10101010", "00000000" * 2, "11111111" * 3, rand_bits(rng, 32), rand_bits(rng, 8)]
    if big:
        datas += [rand_bits(rng, 64), rand_bits(rng, 8 * 130), rand_bits(rng, 8 * 300)]
    def windows(n):
        ws = [(None, None), (0, None), (0, n), (None, n)]
        for off in sorted({0, 1, 3, 7, 8, 9, 16, n - 1, n} & set(range(0, n + 1))):
            for l in [None] + sorted({0, 1, 5, 8, 12, n - off, n - off - 1, n - off - 8}):
                if l is None or (0 <= l and off + l <= n):
                    ws.append((off, l))
        return list(dict.fromkeys(ws))
    routes = [("file", "name"), ("file", "handle"), ("bytes", "bytes"), ("bytes", "bytearray"), ("bytes", "memoryview"), ("bytesio", "x"),
              ("bitarray", "big"), ("bitarray", "little")]
    for data in datas:
        n = len(data)
        ws = windows(n)
        if not big:
            ws = ws[:6] + rng.sample(ws[6:], min(len(ws) - 6, 10))
        for kind, variant in routes:
            for (off, l) in ws:
                if kind in ("file",) and variant == "handle" and (off is not None or l is not None) and False:
                    continue
                for cls in (CLASS_NAMES if big else rng.sample(CLASS_NAMES, 2)):
                    yield SEP.join(["C08", "route", kind, wire(data), sv(off), sv(l), cls, variant,
                                    "1" if rng.random() < 0.3 else "0", str(rng.randrange(10 ** 6)), "0" if big else "30"])
    # files larger than a memory page, offsets around and beyond 4096 bytes (mmap granularity), few ops each
    nb = 8 * 4600
    bigdata = rand_bits(rng, nb)
    for (off, l, variant) in ((32767, None, "name"), (32768, 5, "name"), (32769, 64, "handle"), (32768, None, "handle"),
                              (33001, nb - 33001, "name"), (nb, None, "name")) + (((32760, 17, "name"), (36000, None, "handle")) if big else ()):
        yield SEP.join(["C08", "route", "file", wire(bigdata), sv(off), sv(l), rng.choice(CLASS_NAMES), variant,
                        "1" if rng.random() < 0.3 else "0", str(rng.randrange(10 ** 6)), "3"])
    # files larger than 1 MiB (compact description; twin comparison on chunk-sensitive operations)
    for (nbytes, off, l, variant, cls) in [((1 << 20) + 4099, None, None, "name", "Bits"), ((1 << 20) + 4099, None, None, "handle", "ConstBitStream"),
                                           ((2 << 20) + 77, 0, None, "name", "BitArray"), ((1 << 20) + 4099, 8, 8 * ((1 << 20) + 4000), "name", "BitStream")] + (
                                           [((3 << 20) + 5, None, None, "name", "Bits"), ((1 << 20) + 4099, 5, None, "handle", "BitArray")] if big else []):
        yield SEP.join(["C08", "route", "bigfile", f"{nbytes}:{rng.randrange(10 ** 6)}", sv(off), sv(l), cls, variant,
                        "1" if rng.random() < 0.3 else "0", str(rng.randrange(10 ** 6)), "0"])
    # in-memory routes (no window)
    for data in ["", "1", "1011", "110100111000", rand_bits(rng, 24), rand_bits(rng, 48), rand_bits(rng, 60)] + ([rand_bits(rng, 2040)] if big else []):
        for variant in ("bin", "hex", "oct", "iter", "array", "slice", "copy", "cache", "join", "pack"):
            if variant == "hex" and len(data) % 4:
                continue
            if variant == "oct" and len(data) % 3:
                continue
            if variant == "array" and len(data) % 8:
                continue
            for cls in CLASS_NAMES:
                for lsb0 in ("0", "1"):
                    yield SEP.join(["C08", "route", "plain", wire(data), "None", "None", cls, variant, lsb0, str(rng.randrange(10 ** 6)),
                                    "0" if big else "30"])
