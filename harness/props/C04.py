"""C04 — value isolation: immutable objects never change, mutable ones never share state.

line: C04 hist <op> <op> ...          (TAB separated ops; objects are numbered in creation order)
  new:<cls>:<bits>            cls(bin=bits)
  str:<cls>:<bits>            cls('0b<bits>')            (through the string-parse cache)
  fromstring:<cls>:<bits>     cls.fromstring('0b<bits>')
  obj:<cls>:<i>               cls(objs[i])
  bitskw:<cls>:<i>            cls(bits=objs[i])
  setbits:<d>:<i>             objs[d].bits = objs[i]
  build:<i>                   Dtype('bits').build(objs[i])
  copy:<i> | ccopy:<i>        objs[i].copy() | copy.copy(objs[i])
  selfop:<i>                  objs[i] & objs[i]  /  objs[i] | objs[i]
  slice:<i>:<a>:<b>           objs[i][a:b]
  same:<cls>:<i>:<variant>    a derivation returning the same bits in a new object (x*1, x>>0, x+'', pack, unpack, join,
                              Dtype.parse, read, cut, .bits, Array data …); cls = class of the result
  not:<i>                     ~objs[i]
  cat:<cls>:<i>:<k>:<variant> objs[i] followed by objs[k] (plus | pack2 | join2 | radd)
  ext:<cls>:<bits>:<kind>     cls(buffer) with buffer a bytearray | bitarray | array | memoryview kept by the caller;
                              kinds bytes_kw / bytes_off8 / bytes_len8 / bytes_off3: cls(bytes=bytearray[, offset/length])
  newkw:<cls>:<dtype>:<bits>  cls(<dtype>=value of bits[, length])       (uint int hex bin bytes uintbe uintle intle ...)
  setprop:<d>:<dtype>:<bits>  objs[d].<dtype> = value of bits            (d mutable; else expect no change)
  toba:<i>                    objs[i].tobitarray()        (kept as an external buffer)
  mut:<i>:<kind>              mutate objs[i] in place (invert append1 set0 reverse clear ilshift1 imul2 delall);
                              on an immutable object: try the same call, expect no change
  mutobj:<d>:<kind>:<s>       mutate objs[d] in place with objs[s] as the operand (append iadd prepend insert0 overwrite0
                              setslice01 ior)
  mutext:<k>:<kind>           mutate external buffer k
out: ok <state after op 1> ; <state after op 2> ; …   state = objs|exts|cache, comma separated bit strings
"""
from harness.common import *
import copy as _copy, array as _array, itertools

FUNCTIONAL = True
LEVEL_TEXT = ("Lean theorems over a heap machine transcribing every place the code shares or copies a bit store (constructors, "
              "string cache, fromstring, bits= routes, copy/__copy__, operators, tobitarray, in-place and re-binding mutators): "
              "the isolation invariant (a store held by a mutable object or external buffer is held by nothing else) is preserved "
              "by every operation, so for ALL histories mutation is local, immutable objects and cached literals never change. "
              "Correspondence: every derivation route x class x mutator on either side, plus random histories, comparing the value "
              "of every live object, external buffer and cached literal after every step.")
LEVEL_NOTE = ("Trusted: Lean kernel (+propext, Classical.choice, Quot.sound); that the model's share-or-copy decisions are the "
              "code's (tied by the correspondence run only); LRU eviction is not modelled (it only drops references); "
              "bitarray/bytearray copying semantics of CPython.")
TECHNIQUE = "Lean 4 proof (heap invariant by induction over operation histories) + exhaustive route x mutator correspondence"

KINDS = ["invert", "append1", "set0", "reverse", "clear", "ilshift1", "imul2", "delall", "overwrite1", "insert1", "prepend1"]


def _apply_kind_bits(bits, kind):
    if kind == "invert":
        return "".join("1" if c == "0" else "0" for c in bits)
    if kind == "append1":
        return bits + "1"
    if kind == "set0":
        return ("1" + bits[1:]) if bits else bits
    if kind == "reverse":
        return bits[::-1]
    if kind in ("clear", "delall"):
        return ""
    if kind == "ilshift1":
        return (bits[1:] + "0") if bits else bits
    if kind == "imul2":
        return bits + bits
    if kind == "overwrite1":
        return "1" + bits[1:]
    if kind in ("insert1", "prepend1"):
        return "1" + bits
    raise ValueError(kind)


def _mutate_obj(x, kind):
    """Call the mutator on the real object; exceptions are swallowed (the observable is the content afterwards)."""
    try:
        if kind == "invert":
            x.invert()
        elif kind == "append1":
            x.append("0b1")
        elif kind == "set0":
            x.set(1, 0)
        elif kind == "reverse":
            x.reverse()
        elif kind == "clear":
            x.clear()
        elif kind == "ilshift1":
            x.__ilshift__(1)
        elif kind == "imul2":
            x.__imul__(2)
        elif kind == "delall":
            del x[:]
        elif kind == "overwrite1":
            x.overwrite("0b1", 0)
        elif kind == "insert1":
            x.insert("0b1", 0)
        elif kind == "prepend1":
            x.prepend("0b1")
    except Exception:
        pass


def _mutate_ext(e, kind):
    try:
        if isinstance(e, bitarray.bitarray):
            if kind == "invert":
                e.invert()
            elif kind == "append1":
                e.append(1)
            elif kind == "set0":
                if len(e):
                    e[0] = 1
            elif kind == "reverse":
                e.reverse()
            elif kind in ("clear", "delall"):
                e.clear()
            elif kind == "ilshift1":
                if len(e):
                    e <<= 1
            elif kind == "imul2":
                e *= 2
            elif kind == "overwrite1":
                e[0:1] = bitarray.bitarray("1")
            elif kind in ("insert1", "prepend1"):
                e.insert(0, 1)
        else:                                    # bytearray / array('B') / memoryview over a bytearray
            if kind == "invert":
                for i in range(len(e)):
                    e[i] ^= 0xFF
            elif kind == "set0":
                if len(e):
                    e[0] |= 0x80
    except Exception:
        pass


def _ext_bits(e):
    if isinstance(e, bitarray.bitarray):
        return e.to01()
    return "".join(format(b, "08b") for b in bytes(e))


def _value(dtype, bits):
    n = len(bits)
    if dtype in ("uint", "uintbe"):
        return int(bits, 2)
    if dtype in ("int", "intbe"):
        v = int(bits, 2)
        return v - (1 << n) if bits[0] == "1" else v
    if dtype == "uintle":
        return int.from_bytes(int(bits, 2).to_bytes(n // 8, "big"), "little")
    if dtype == "intle":
        return int.from_bytes(int(bits, 2).to_bytes(n // 8, "big"), "little", signed=True)
    if dtype == "hex":
        return format(int(bits, 2), "0%dx" % (n // 4))
    if dtype == "bin":
        return bits
    if dtype == "bytes":
        return int(bits, 2).to_bytes(n // 8, "big")
    if dtype == "ue":
        return int(bits, 2)          # only used with valid codewords chosen by the generator
    raise ValueError(dtype)


NEEDS_LEN = ("uint", "int", "uintbe", "intbe", "uintle", "intle")


def _same(x, cls, variant):
    if variant == "mul1":
        return x * 1
    if variant == "rshift0":
        return x >> 0
    if variant == "addempty":
        return x + ""
    if variant == "pack":
        return bitstring.pack("bits", x)
    if variant == "packkw":
        return bitstring.pack("k", k=x)
    if variant == "unpack":
        return x.unpack("bits")[0]
    if variant == "join":
        return CLASSES[cls]().join([x])
    if variant == "parse":
        return bitstring.Dtype("bits").parse(x)
    if variant == "bitsprop":
        return x.bits
    if variant == "read":
        x.pos = 0                      # pos is not an observable of C04
        return x.read(len(x))
    if variant == "cut":
        return next(x.cut(max(len(x), 1)), CLASSES[cls]())
    if variant == "slicefull":
        return x[:]
    if variant == "arrdata":
        return bitstring.Array("u1", x).data
    if variant == "arrcopy":
        return _copy.copy(bitstring.Array("u1", x)).data
    if variant == "arrslice":
        return bitstring.Array("u1", x)[0:len(x)].data
    if variant in ("arrand1", "arror1", "arriand1", "arrior1"):
        # an Array of exactly ONE item as wide as x, combined bit-wise with x itself (x & x = x | x = x): the result's data
        # is a new object with x's bits, and the operand x is never written to
        if len(x) == 0:
            return CLASSES[cls]() if cls in CLASSES else BitArray()
        a = bitstring.Array(f"u{len(x)}", [x.uint])
        if variant == "arrand1":
            return (a & x).data
        if variant == "arror1":
            return (a | x).data
        if variant == "arriand1":
            a &= x
            return a.data
        a |= x
        return a.data
    raise ValueError(variant)


PROBES = ["arrand0", "arrxor1", "arror0", "arriand0", "arrixor1", "arrrand0", "arr3and0", "cmp", "contains", "join3", "packmix"]


def _probe(x, kind):
    """operations in which x is only an operand; none of them may change x"""
    n = len(x)
    if kind.startswith("arr"):
        if n == 0:
            return
        ones = (1 << n) - 1
        if kind == "arrand0":
            bitstring.Array(f"u{n}", [0]) & x            # ONE item: the operand must not become the mask buffer
        elif kind == "arrxor1":
            bitstring.Array(f"u{n}", [ones]) ^ x
        elif kind == "arror0":
            bitstring.Array(f"u{n}", [ones]) | x
        elif kind == "arriand0":
            a = bitstring.Array(f"u{n}", [0]); a &= x
        elif kind == "arrixor1":
            a = bitstring.Array(f"u{n}", [ones]); a ^= x
        elif kind == "arrrand0":
            x & bitstring.Array(f"u{n}", [0])
        elif kind == "arr3and0":
            bitstring.Array(f"u{n}", [0, ones, 0]) & x
    elif kind == "cmp":
        x == BitArray(x); x != "0b1"; x in {Bits(x)} if not isinstance(x, BitArray) else None
    elif kind == "contains":
        ("0b1" in x) if n else None; x.startswith(x); x.endswith(x); x.count(1)
    elif kind == "join3":
        BitArray().join([x, x, x]).invert() if n else None
    elif kind == "packmix":
        r = bitstring.pack("bits, 0b1, bits", x, x); r.invert()


def same_cls(src_cls, variant):
    if variant in ("pack", "packkw"):
        return "BitStream"
    if variant in ("parse",):
        return "Bits"
    if variant in ("arrdata", "arrcopy", "arrslice", "arrand1", "arror1", "arriand1", "arrior1"):
        return "BitArray"
    return src_cls


def execute(line):
    ops = line.split(SEP)[2:]
    clear_caches()
    objs, exts, keys, lits, states = [], [], [], [], []
    for op in ops:
        f = op.split(":")
        k = f[0]
        try:
            if k == "new":
                objs.append(mk(f[1], unwire(f[2])))
            elif k == "str":
                lit = _lit(f[2], f[3] if len(f) > 3 else "b")
                objs.append(CLASSES[f[1]](lit))
                if f[2] not in keys:
                    keys.append(f[2]); lits.append(lit)
            elif k == "fromstring":
                lit = _lit(f[2], f[3] if len(f) > 3 else "b")
                objs.append(CLASSES[f[1]].fromstring(lit))
                if f[2] not in keys:
                    keys.append(f[2]); lits.append(lit)
            elif k == "obj":
                objs.append(CLASSES[f[1]](objs[int(f[2])]))
            elif k == "bitskw":
                objs.append(CLASSES[f[1]](bits=objs[int(f[2])]))
            elif k == "setbits":
                try:
                    objs[int(f[1])].bits = objs[int(f[2])]
                except AttributeError:
                    pass
            elif k == "build":
                objs.append(bitstring.Dtype("bits").build(objs[int(f[1])]))
            elif k == "copy":
                objs.append(objs[int(f[1])].copy())
            elif k == "ccopy":
                objs.append(_copy.copy(objs[int(f[1])]))
            elif k == "selfop":
                x = objs[int(f[1])]
                objs.append((x & x) if len(objs) % 2 else (x | x))
            elif k == "slice":
                objs.append(objs[int(f[1])][int(f[2]):int(f[3])])
            elif k == "probe":
                # an operation that takes objs[i] as an OPERAND and must leave it alone (the result is discarded); the new
                # object is the empty slice objs[i][0:0], which is what the model sees
                x = objs[int(f[1])]
                try:
                    _probe(x, f[2])
                except Exception:                                   # noqa: BLE001
                    pass
                objs.append(x[0:0])
            elif k == "same":
                objs.append(_same(objs[int(f[2])], f[1], f[3]))
            elif k == "not":
                x = objs[int(f[1])]
                objs.append(~x if len(x) else x[:])
            elif k == "cat":
                x, y, v = objs[int(f[2])], objs[int(f[3])], f[4]
                if v == "plus":
                    objs.append(x + y)
                elif v == "pack2":
                    objs.append(bitstring.pack("bits, bits", x, y))
                elif v == "join2":
                    objs.append(CLASSES[f[1]]().join([x, y]))
                else:
                    raise ValueError(v)
            elif k == "ext":
                bits, kind = unwire(f[2]), f[3]
                if kind == "bitarray":
                    e = bitarray.bitarray(bits)
                    src = e
                elif kind == "bytearray":
                    e = bytearray(int(bits, 2).to_bytes(len(bits) // 8, "big")) if bits else bytearray()
                    src = e
                elif kind == "array":
                    e = _array.array("B", int(bits, 2).to_bytes(len(bits) // 8, "big") if bits else b"")
                    src = e
                elif kind == "memoryview":
                    e = bytearray(int(bits, 2).to_bytes(len(bits) // 8, "big")) if bits else bytearray()
                    src = memoryview(e)
                elif kind == "memoryview_ro":
                    e = bytearray(int(bits, 2).to_bytes(len(bits) // 8, "big")) if bits else bytearray()
                    src = memoryview(e).toreadonly()
                elif kind == "array_ro":
                    e = _array.array("B", int(bits, 2).to_bytes(len(bits) // 8, "big") if bits else b"")
                    src = memoryview(e).toreadonly()
                elif kind.startswith("bytes_"):
                    e = bytearray(int(bits, 2).to_bytes(len(bits) // 8, "big")) if bits else bytearray()
                    src = None
                else:
                    raise ValueError(kind)
                exts.append(e)
                if src is not None:
                    objs.append(CLASSES[f[1]](src))
                elif kind == "bytes_kw":
                    objs.append(CLASSES[f[1]](bytes=e))
                elif kind == "bytes_off8":
                    objs.append(CLASSES[f[1]](bytes=e, offset=8))
                elif kind == "bytes_off3":
                    objs.append(CLASSES[f[1]](bytes=e, offset=3))
                elif kind == "bytes_len8":
                    objs.append(CLASSES[f[1]](bytes=e, length=8))
            elif k == "newkw":
                kw = {f[2]: _value(f[2], f[3])}
                if f[2] in NEEDS_LEN:
                    kw["length"] = len(f[3])
                objs.append(CLASSES[f[1]](**kw))
            elif k == "setprop":
                try:
                    setattr(objs[int(f[1])], f[2], _value(f[2], f[3]))
                except AttributeError:
                    pass
            elif k == "toba":
                exts.append(objs[int(f[1])].tobitarray())
            elif k == "mut":
                x, kind = objs[int(f[1])], f[2]
                _mutate_obj(x, kind)
            elif k == "mutobj":
                x, kind, y = objs[int(f[1])], f[2], objs[int(f[3])]
                try:
                    if kind == "append":
                        x.append(y)
                    elif kind == "iadd":
                        x.__iadd__(y)
                    elif kind == "prepend":
                        x.prepend(y)
                    elif kind == "insert0":
                        x.insert(y, 0)
                    elif kind == "overwrite0":
                        x.overwrite(y, 0)
                    elif kind == "setslice01":
                        x[0:1] = y
                    elif kind == "ior":
                        x.__ior__(y)
                except Exception:
                    pass
            elif k == "mutext":
                _mutate_ext(exts[int(f[1])], f[2])
            else:
                raise ValueError(op)
        except Exception as e:                  # noqa: BLE001
            # An operation of a well-formed history raised: on the clean tree this cannot happen (the generator only
            # produces applicable operations), so it is itself an observation — report it and stop the history.
            states.append(f"EXC {op} {type(e).__name__}")
            break
        cache_vals = [wire(Bits(lit)) for lit in lits]
        states.append(",".join(wire(o) for o in objs) + "|" + ",".join(wire(_ext_bits(e)) for e in exts) + "|" + ",".join(cache_vals))
    return "ok " + " ; ".join(states), {"classes": [type(o).__name__ for o in objs]}


def _reference(ops):
    """Pure value semantics: every object owns its value."""
    objs, exts, keys, states, classes = [], [], [], [], []
    for op in ops:
        f = op.split(":")
        k = f[0]
        if k in ("new",):
            objs.append(unwire(f[2])); classes.append(f[1])
        elif k in ("str", "fromstring"):
            objs.append(unwire(f[2])); classes.append(f[1])
            if f[2] not in keys:
                keys.append(f[2])
        elif k in ("obj", "bitskw"):
            objs.append(objs[int(f[2])]); classes.append(f[1])
        elif k == "setbits":
            if classes[int(f[1])] in MUTABLE:
                objs[int(f[1])] = objs[int(f[2])]
        elif k == "build":
            objs.append(objs[int(f[1])]); classes.append("Bits")
        elif k in ("copy", "ccopy", "selfop"):
            objs.append(objs[int(f[1])]); classes.append(classes[int(f[1])])
        elif k == "slice":
            objs.append(objs[int(f[1])][int(f[2]):int(f[3])]); classes.append(classes[int(f[1])])
        elif k == "probe":
            objs.append(""); classes.append(classes[int(f[1])])
        elif k == "same":
            objs.append(objs[int(f[2])]); classes.append(f[1])
        elif k == "not":
            objs.append(_apply_kind_bits(objs[int(f[1])], "invert")); classes.append(classes[int(f[1])])
        elif k == "cat":
            objs.append(objs[int(f[2])] + objs[int(f[3])]); classes.append(f[1])
        elif k == "ext":
            b = unwire(f[2])
            win = {"bytes_off8": b[8:], "bytes_len8": b[:8], "bytes_off3": b[3:]}.get(f[3], b)
            exts.append(b); objs.append(win); classes.append(f[1])
        elif k == "newkw":
            objs.append(unwire(f[3])); classes.append(f[1])
        elif k == "setprop":
            if classes[int(f[1])] in MUTABLE:
                objs[int(f[1])] = unwire(f[3])
        elif k == "toba":
            exts.append(objs[int(f[1])])
        elif k == "mut":
            i = int(f[1])
            if classes[i] in MUTABLE:
                objs[i] = _apply_kind_bits(objs[i], f[2])
        elif k == "mutobj":
            d, kind, o = int(f[1]), f[2], objs[int(f[3])]
            if classes[d] in MUTABLE:
                b = objs[d]
                if kind in ("append", "iadd"):
                    objs[d] = b + o
                elif kind in ("prepend", "insert0"):
                    objs[d] = o + b
                elif kind == "overwrite0":
                    objs[d] = o + b[len(o):]
                elif kind == "setslice01":
                    objs[d] = o + b[1:]
                elif kind == "ior":
                    objs[d] = "".join("1" if (p == "1" or q == "1") else "0" for p, q in zip(b, o)) if len(b) == len(o) else b
        elif k == "mutext":
            exts[int(f[1])] = _apply_kind_bits(exts[int(f[1])], f[2])
        states.append(",".join(wire(o) for o in objs) + "|" + ",".join(wire(e) for e in exts) + "|" + ",".join(keys))
    return "ok " + " ; ".join(states)


def _lit(w, sp):
    """The string literal spelling the bits w: b '0b…' (default) | h hex when possible | s two comma-separated tokens |
    p padded with blanks; for the empty value: the token-less strings '' (e), ' ' (w), ' , ' (c)."""
    b = unwire(w)
    if not b:
        return {"e": "", "w": " ", "c": " , "}.get(sp, "")
    if sp == "h" and len(b) % 4 == 0:
        return "0x" + "".join("%x" % int(b[i:i + 4], 2) for i in range(0, len(b), 4))
    if sp == "s" and len(b) >= 2:
        return "0b" + b[:len(b) // 2] + ", 0b" + b[len(b) // 2:]
    if sp == "p":
        return " 0b" + b + " "
    return "0b" + b


def model_line(line):
    """The model keys the literal cache by the value (spelling is not modelled: one entry per value)."""
    out = []
    for op in line.split(SEP):
        f = op.split(":")
        if f[0] in ("str", "fromstring") and len(f) > 3:
            op = ":".join(f[:3])
        if f[0] == "probe":
            op = f"slice:{f[1]}:0:0"
        out.append(op)
    return SEP.join(out)


def oracle(line, out, extra):
    ops = line.split(SEP)[2:]
    exp = _reference(ops)
    if out != exp:
        a, b = out[3:].split(" ; "), exp[3:].split(" ; ")
        for i, (x, y) in enumerate(zip(a, b)):
            if x != y:
                return f"after step {i + 1} ({ops[i]}): objects|buffers|cached literals are {x}, value semantics gives {y}"
        return f"state sequence differs: {out} vs {exp}"
    return None


def nontrivial(line):
    return len(line.split(SEP)) > 4


SAME_VARIANTS = ["mul1", "rshift0", "addempty", "pack", "packkw", "unpack", "join", "parse", "bitsprop", "cut", "slicefull",
                 "arrdata", "arrcopy", "arrslice", "arrand1", "arror1", "arriand1", "arrior1"]


def _routes(i, src_cls, bits, rng):
    """All single-step derivations from object i (class src_cls, content bits): list of op strings."""
    r = []
    for c in CLASS_NAMES:
        r.append(f"obj:{c}:{i}")
        r.append(f"bitskw:{c}:{i}")
    r += [f"build:{i}", f"copy:{i}", f"ccopy:{i}", f"selfop:{i}", f"not:{i}", f"toba:{i}"]
    n = len(bits)
    r.append(f"slice:{i}:0:{n}")
    r.append(f"slice:{i}:{min(1, n)}:{n}")
    for v in SAME_VARIANTS:
        if v in ("rshift0", "cut") and n == 0:
            continue
        r.append(f"same:{same_cls(src_cls, v)}:{i}:{v}")
    if src_cls in ("ConstBitStream", "BitStream"):
        r.append(f"same:{src_cls}:{i}:read")
    return r


def gen(rng, tier):
    big = tier != "quick"
    # 00. probes: operations that take an object only as an operand (Array bit-wise operators with one / several items, …)
    for bits in ("10100101", "1", "110011110000"):
        for cls in CLASS_NAMES:
            for kind0 in ("new", "str"):
                for pk in PROBES:
                    yield SEP.join(["C04", "hist", f"{kind0}:{cls}:{bits}", f"probe:0:{pk}", f"str:Bits:{bits}", f"probe:2:{pk}", f"mut:0:invert"])
    # 0. literals that share one cache entry: token-less strings ('' / ' ' / ' , ') and alternative spellings, with a
    #    mutable object the FIRST to be built from the literal, grown in place, then other objects from the same literal
    for sp in ("e", "w", "c"):
        for ca in CLASS_NAMES:
            for cb in CLASS_NAMES:
                for k1 in ("str", "fromstring"):
                    for kind in ("append1", "insert1", "prepend1", "imul2"):
                        yield SEP.join(["C04", "hist", f"{k1}:{ca}:-:{sp}", f"mut:0:{kind}", f"str:{cb}:-:{sp}", f"mut:1:append1",
                                        f"mut:0:append1", f"str:Bits:-:{sp}"])
                    yield SEP.join(["C04", "hist", f"{k1}:{ca}:-:{sp}", f"str:{cb}:-:{sp}", f"mutobj:0:append:1", f"mutobj:1:iadd:0",
                                    f"mutobj:0:insert0:0", f"str:BitArray:-:{sp}", f"mut:2:append1", f"str:ConstBitStream:-:{sp}"])
    for sp in ("h", "s", "p"):
        for bits in ("10100101", "1100"):
            for ca in CLASS_NAMES:
                for cb in CLASS_NAMES:
                    for kind in (KINDS if big else rng.sample(KINDS, 4)):
                        yield SEP.join(["C04", "hist", f"str:{ca}:{bits}:{sp}", f"mut:0:{kind}", f"str:{cb}:{bits}:{sp}", f"mut:1:{kind}",
                                        f"mut:0:{kind}", f"fromstring:{cb}:{bits}:{sp}", f"mut:2:{kind}"])
    contents = ["1010", "0", "11110000", "101100111000"] + ([rand_bits(rng, 17), rand_bits(rng, 64)] if big else [])
    # 1. derive / mutate / observe triples: every route x source kind x class x mutator on either side
    for bits in contents[: (6 if big else 3)]:
        for src_cls in CLASS_NAMES:
            for src_kind in ("new", "str", "fromstring"):
                src = f"{src_kind}:{src_cls}:{bits}"
                for route in _routes(0, src_cls, bits, rng):
                    kinds = KINDS if big else rng.sample(KINDS, 3) + ["invert"]
                    for kind in dict.fromkeys(kinds):
                        if route.startswith("toba"):
                            yield SEP.join(["C04", "hist", src, route, f"mutext:0:{kind}", f"mut:0:{kind}", f"str:Bits:{bits}"])
                        else:
                            yield SEP.join(["C04", "hist", src, route, f"mut:1:{kind}", f"mut:0:{kind}", f"str:Bits:{bits}"])
                            yield SEP.join(["C04", "hist", src, route, f"mut:0:{kind}", f"mut:1:{kind}", f"obj:Bits:1"])
        # concatenations of two objects and what happens to the operands afterwards
        for ca in CLASS_NAMES:
            for cb in CLASS_NAMES:
                for (ka, kb) in (("new", "str"), ("str", "new"), ("str", "str"), ("fromstring", "new")):
                    for v, rc in (("plus", ca), ("pack2", "BitStream"), ("join2", ca)):
                        a, b = f"{ka}:{ca}:{bits}", f"{kb}:{cb}:{bits[::-1] or '1'}"
                        k1, k2 = rng.choice(KINDS), rng.choice(KINDS)
                        yield SEP.join(["C04", "hist", a, b, f"cat:{rc}:0:1:{v}", f"mut:2:{k1}", f"mut:0:{k2}", f"mut:1:{k1}",
                                        f"cat:{rc}:0:1:{v}", f"str:Bits:{bits}"])
        # setbits, external buffers
        for cd in CLASS_NAMES:
            for cs in CLASS_NAMES:
                for ks in ("new", "str"):
                    for kind in (KINDS if big else ["invert", "append1", "clear"]):
                        yield SEP.join(["C04", "hist", f"new:{cd}:0101", f"{ks}:{cs}:{bits}", "setbits:0:1", f"mut:0:{kind}", f"mut:1:{kind}",
                                        f"str:Bits:{bits}"])
        for c in CLASS_NAMES:
            for ek in ("bitarray", "bytearray", "array", "memoryview", "memoryview_ro", "array_ro"):
                b8 = (bits * 8)[:8 * max(1, len(bits) // 8)] if ek != "bitarray" else bits
                for kind in (["invert", "set0"] if ek != "bitarray" else KINDS):
                    yield SEP.join(["C04", "hist", f"ext:{c}:{b8}:{ek}", f"mutext:0:{kind}", f"mut:0:{kind}", "toba:0", f"mutext:1:{kind}"])
        # empty operands in concatenation
        for ca in CLASS_NAMES:
            for cb in CLASS_NAMES:
                for kb in ("new", "str"):
                    for v, rc in (("plus", ca), ("pack2", "BitStream"), ("join2", ca)):
                        for kind in ("invert", "append1"):
                            yield SEP.join(["C04", "hist", f"new:{ca}:-", f"{kb}:{cb}:{bits}", f"cat:{rc}:0:1:{v}", f"mut:2:{kind}",
                                            f"mut:1:{kind}", f"str:Bits:{bits}"])
                            yield SEP.join(["C04", "hist", f"{kb}:{ca}:{bits}", f"new:{cb}:-", f"cat:{rc}:0:1:{v}", f"mut:2:{kind}",
                                            f"mut:0:{kind}", f"str:Bits:{bits}"])
    # in-place mutators with another object as the operand: afterwards neither side may see the other's mutations
    for cd in MUTABLE:
        for cs in CLASS_NAMES:
            for kd, vd in (("new", "-"), ("new", "0101"), ("str", "0101")):
                for ks, vs in (("new", "110"), ("str", "110"), ("fromstring", "110"), ("new", "-")):
                    for mk_ in ("append", "iadd", "prepend", "insert0", "overwrite0", "setslice01", "ior"):
                        for kind in ("invert", "append1", "reverse"):
                            yield SEP.join(["C04", "hist", f"{kd}:{cd}:{vd}", f"{ks}:{cs}:{vs}", f"mutobj:0:{mk_}:1", f"mut:0:{kind}", f"mut:1:{kind}",
                                            f"obj:Bits:1", f"mutobj:0:{mk_}:1", f"mut:1:{kind}", f"mut:0:{kind}", f"str:Bits:{vs if vs != '-' else '1'}"])
    # an object created through a value keyword, then every derivation route from it, then mutation of either side
    for dtype in ("bytes", "uint", "hex", "bin", "int", "uintle"):
        bits = "1010010111000011"
        for c in CLASS_NAMES:
            for route in _routes(0, c, bits, rng):
                if route.startswith("toba"):
                    continue
                k1, k2 = rng.choice(KINDS), rng.choice(KINDS)
                yield SEP.join(["C04", "hist", f"newkw:{c}:{dtype}:{bits}", route, f"mut:0:{k1}", f"mut:1:{k2}", f"mut:0:invert"])
    # value keywords / property assignment, then mutate, then build the same value again
    for dtype in ("uint", "int", "uintbe", "intbe", "uintle", "intle", "hex", "bin", "bytes"):
        for bits in ("00000101", "1111111100000001", "10000000"):
            for cm in MUTABLE:
                for kind in ("invert", "append1", "set0", "reverse"):
                    c2 = rng.choice(CLASS_NAMES)
                    yield SEP.join(["C04", "hist", f"new:{cm}:{'0' * len(bits)}", f"setprop:0:{dtype}:{bits}", f"mut:0:{kind}",
                                    f"newkw:{c2}:{dtype}:{bits}", f"newkw:{cm}:{dtype}:{bits}", f"mut:2:{kind}", f"newkw:{c2}:{dtype}:{bits}"])
                    k0 = kind if kind != "append1" else "invert"     # int setters encode into the CURRENT length: keep it
                    yield SEP.join(["C04", "hist", f"newkw:{cm}:{dtype}:{bits}", f"mut:0:{k0}", f"newkw:{c2}:{dtype}:{bits}",
                                    f"setprop:0:{dtype}:{bits}", f"mut:0:{kind}", f"newkw:Bits:{dtype}:{bits}"])
    # windows over a caller-owned bytearray
    for c in CLASS_NAMES:
        for ek in ("bytes_kw", "bytes_off8", "bytes_len8", "bytes_off3"):
            for b in ("1010101111001101", "000000001111111100001111"):
                for kind in ("invert", "set0"):
                    yield SEP.join(["C04", "hist", f"ext:{c}:{b}:{ek}", f"mutext:0:{kind}", f"mut:0:{kind}", f"obj:Bits:0", f"mutext:0:{kind}"])
    # 2. random histories
    for _ in range(3000 if big else 400):
        n_ops = rng.randint(5, 30 if big else 18)
        ops, classes, vals, n_ext = [], [], [], 0
        for _step in range(n_ops):
            r = rng.random()
            if not classes or r < 0.15:
                c = rng.choice(CLASS_NAMES)
                bits = rng.choice(["1010", "0", "1", "110", "00001111", rand_bits(rng, rng.randint(1, 12))])
                kind = rng.choice(["new", "str", "str", "fromstring"])
                if kind != "new" and rng.random() < 0.3:
                    if rng.random() < 0.4:
                        bits = ""
                    ops.append(f"{kind}:{c}:{wire(bits)}:{rng.choice('ewc') if not bits else rng.choice('hsp')}")
                else:
                    ops.append(f"{kind}:{c}:{bits}")
                classes.append(c); vals.append(bits)
            elif r < 0.55:
                i = rng.randrange(len(classes))
                route = rng.choice(_routes(i, classes[i], vals[i], rng))
                ops.append(route)
                f = route.split(":")
                if f[0] == "toba":
                    n_ext += 1
                else:
                    if f[0] in ("obj", "bitskw", "same"):
                        classes.append(f[1])
                    elif f[0] == "build":
                        classes.append("Bits")
                    else:
                        classes.append(classes[i])
                    v = vals[i]
                    if f[0] == "slice":
                        v = v[int(f[2]):int(f[3])]
                    elif f[0] == "not":
                        v = _apply_kind_bits(v, "invert")
                    vals.append(v)
            elif r < 0.58:
                i = rng.randrange(len(classes))
                ops.append(f"probe:{i}:{rng.choice(PROBES)}"); classes.append(classes[i]); vals.append("")
            elif r < 0.62 and len(classes) >= 2:
                i, k = rng.randrange(len(classes)), rng.randrange(len(classes))
                v, rc = rng.choice([("plus", classes[i]), ("pack2", "BitStream"), ("join2", classes[i])])
                ops.append(f"cat:{rc}:{i}:{k}:{v}"); classes.append(rc); vals.append(vals[i] + vals[k])
            elif r < 0.68 and len(classes) >= 2:
                d, s_ = rng.randrange(len(classes)), rng.randrange(len(classes))
                ops.append(f"setbits:{d}:{s_}")
                if classes[d] in MUTABLE:
                    vals[d] = vals[s_]
            elif r < 0.73:
                c = rng.choice(CLASS_NAMES)
                ek = rng.choice(["bitarray", "bytearray", "array", "memoryview", "memoryview_ro", "array_ro", "bytes_kw", "bytes_off8", "bytes_len8", "bytes_off3"])
                bits = rand_bits(rng, 8 * rng.randint(2, 3)) if ek != "bitarray" else rand_bits(rng, rng.randint(1, 10))
                win = {"bytes_off8": bits[8:], "bytes_len8": bits[:8], "bytes_off3": bits[3:]}.get(ek, bits)
                ops.append(f"ext:{c}:{bits}:{ek}"); classes.append(c); vals.append(win); n_ext += 1
            elif r < 0.77 and classes:
                d = rng.randrange(len(classes))
                bits = rng.choice(["00000101", "11110000", "1000000000000001"])
                if rng.random() < 0.5:
                    dtype = rng.choice(["hex", "bin", "bytes"])        # length-independent setters only
                    ops.append(f"setprop:{d}:{dtype}:{bits}")
                    if classes[d] in MUTABLE:
                        vals[d] = bits
                else:
                    dtype = rng.choice(["uint", "int", "hex", "bin", "bytes", "uintle"])
                    c = rng.choice(CLASS_NAMES)
                    ops.append(f"newkw:{c}:{dtype}:{bits}"); classes.append(c); vals.append(bits)
            elif r < 0.79 and len(classes) >= 2:
                d, s_ = rng.randrange(len(classes)), rng.randrange(len(classes))
                mk_ = rng.choice(["append", "iadd", "prepend", "insert0", "overwrite0", "setslice01", "ior"])
                ops.append(f"mutobj:{d}:{mk_}:{s_}")
                if classes[d] in MUTABLE:
                    b, o = vals[d], vals[s_]
                    vals[d] = {"append": b + o, "iadd": b + o, "prepend": o + b, "insert0": o + b, "overwrite0": o + b[len(o):],
                               "setslice01": o + b[1:],
                               "ior": ("".join("1" if (p == "1" or q == "1") else "0" for p, q in zip(b, o)) if len(b) == len(o) else b)}[mk_]
            elif r < 0.8 and n_ext:
                ops.append(f"mutext:{rng.randrange(n_ext)}:{rng.choice(['invert', 'set0'])}")
            else:
                i = rng.randrange(len(classes))
                kind = rng.choice(KINDS)
                ops.append(f"mut:{i}:{kind}")
                if classes[i] in MUTABLE:
                    vals[i] = _apply_kind_bits(vals[i], kind)
        yield SEP.join(["C04", "hist"] + ops)
