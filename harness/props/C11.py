"""C11 — 8-bit, micro-scaling and bfloat codecs decode and round exactly as specified.

Floats travel as IEEE-754 binary64 bit patterns (16 hex digits), never as text; every NaN is `nan`.
Codes travel as hex (2 digits; 4 for bfloat, where a NaN pattern is `nan` — the payload is not part of the property).

lines (TAB separated):
  C11 enc   <name> <mode> <f64>                -> ok <code> | err ValueError       one float64 through the public API
  C11 dec   <name> <mode> <code>               -> ok <f64>                         one code
  C11 senc  <name> <mode> <scale> <f64>        -> ok <code> | err ValueError       Dtype(name, scale=s).build(f)
  C11 sdec  <name> <mode> <scale> <code>       -> ok <f64> | err ValueError        Dtype(name, scale=s).parse(code)
  C11 ench  <name> <mode> <h,h,...>            -> ok <item,...>                    half-precision inputs (binary16 patterns)
  C11 enchb <name> <mode> <start> <count>      -> ok <item,...>                    a block of consecutive half-precision inputs
  C11 decb  <name> <mode> <start> <count>      -> ok <f64,...>                     a block of consecutive codes
  C11 reenc <name> <mode> <start> <count>      -> ok <item,...>                    decode each code, encode the value again
  C11 sweep <name> <mode> <start>              -> ok <item,...> (all 65 536)       every half-precision input; the model sees the
                                                                                  256-entry block at <start>, the oracle sees all
  C11 modeseq <name> <order> <f64>             -> ok <item,...>                    a history: the same value through the token-string
                                                                                  route under the mxfp_overflow settings of <order>
                                                                                  (s = saturate, o = overflow), caches NOT cleared between
  scale = i<decimal int> | f<f64 hex>;  item = code | !<ErrorClass>
name in p3binary p4binary e5m2mxfp e4m3mxfp e3m2mxfp e2m3mxfp e2m1mxfp e8m0mxfp mxint bfloat bfloatle; mode in saturate overflow.
"""
from harness.common import *
import sys, struct, math, bisect
from fractions import Fraction as Fr
from bitstring import Dtype, Array

FUNCTIONAL = True
LEVEL_TEXT = ("Lean theorems over the tables re-extracted from the working tree on every run: each of the nine code->float tables equals the format definition (sign, biased exponent, mantissa, subnormals, single/signed zero, inf, NaN) on every code; each of the nine float16->code tables holds, at every one of its 65 536 indices, the code of the nearest representable value (ties to the even code, out-of-range/inf/NaN/sign-of-zero as documented per format and mxfp_overflow mode) - kernel-checked entry by entry with a neighbour test proved sound for the declarative nearest-value statement on a strictly increasing grid; float_to_int with its OverflowError clamp branch returns that code for every float64 and both modes; decode-then-encode returns every non-NaN code (except e5m2 inf under saturate); e8m0 accepts exactly NaN and the 255 powers of two; mxint and all 65 536 bfloat codes decode exactly; mxint2bitstore = nearest-even of the exact 64x clipped to [-128,127] for EVERY float64 (structural: multiplication by a power of two is exact in the float model, round() = nearest-even); a power-of-two Dtype scale shifts the exponent exactly in both directions; bfloat encoding is the upper half of the IEEE float32 conversion and decode-then-encode returns every non-NaN bfloat code (structural: round-to-nearest is exact on representable values). Correspondence: every code and every half-precision input of every format and mode through the public API, float64 inputs at ties +-1ulp, beyond 65504, subnormal, inf, NaN, -0.0, scaled dtypes.")
LEVEL_NOTE = ("Trusted: Lean kernel (+propext, Classical.choice, Quot.sound); harness/extract.py reads the live tables; struct.pack('>e'/'>f'), float64 * / + -, round() and float(int) are modelled by their IEEE-754 meaning (exact result then round-to-nearest-even), not verified; the transcription of the Python is tied by the differential run only.")
TECHNIQUE = "Lean 4 proof (kernel-checked tables re-extracted each run + soundness of a local nearest-value checker) + exhaustive correspondence"
NOT_YET_PROVED = []
RULE = ("cases = corpus + known-finding witness + gen(): every code of every format (block and single lines), a sweep line per format/mode that runs all 65 536 half-precision inputs through the public API (one line = 65 536 evaluations checked by the oracle, one 256-block of it by the model), stratified half-precision inputs, float64 specials one per line with 11 creation routes, re-encode of every code, scaled dtypes; distinct = distinct case lines")
TRUSTED = ["CPython struct.pack('>e'/'>f')/unpack and float64 arithmetic follow IEEE 754 round-to-nearest-even (modelled, not verified)"]

NAMES = ["p3binary", "p4binary", "e5m2mxfp", "e4m3mxfp", "e3m2mxfp", "e2m3mxfp", "e2m1mxfp", "e8m0mxfp", "mxint", "bfloat", "bfloatle"]
TABLE = NAMES[:7]
MODES = ["saturate", "overflow"]
NBITS = {"p3binary": 8, "p4binary": 8, "e5m2mxfp": 8, "e4m3mxfp": 8, "e3m2mxfp": 6, "e2m3mxfp": 6, "e2m1mxfp": 4,
         "e8m0mxfp": 8, "mxint": 8, "bfloat": 16, "bfloatle": 16}
TWO_MODE = ("e5m2mxfp", "e4m3mxfp")


# ---------------------------------------------------------------------------------------------------- wire helpers
def f2hex(f: float) -> str:
    return "nan" if f != f else struct.pack(">d", f).hex()


def hex2f(s: str) -> float:
    return struct.unpack(">d", bytes.fromhex(s))[0]


def half2f(h: int) -> float:
    return struct.unpack(">e", struct.pack(">H", h))[0]


def bswap16(c: int) -> int:
    return ((c & 0xff) << 8) | (c >> 8)


def code_is_nan(name: str, c: int) -> bool:
    if name == "bfloatle":
        c = bswap16(c)
    return name in ("bfloat", "bfloatle") and (c >> 7) & 0xff == 0xff and c & 0x7f != 0


def fmt_code(name: str, c: int) -> str:
    if code_is_nan(name, c):
        return "nan"
    return "%0*x" % (4 if NBITS[name] == 16 else 2, c)


def bits_code(name: str):
    def f(b):
        if len(b) != NBITS[name]:
            return "len%d" % len(b)
        return fmt_code(name, b.uint)
    return f


def parse_scale(s: str):
    return int(s[1:]) if s[0] == "i" else hex2f(s[1:])


def scale_str(s) -> str:
    return "i%d" % s if isinstance(s, int) else "f" + struct.pack(">d", s).hex()


def item(thunk, fmt) -> str:
    r = guarded(thunk, fmt)
    return r[3:] if r.startswith("ok ") else "!" + r[4:]


# ---------------------------------------------------------------------------------------------------- reference (exact rationals)
# name: (E, M, bias, lim = first magnitude code that is not a finite number, kind)
FMTS = {
    "p3binary": (5, 2, 16, 0x7f, "binary8"), "p4binary": (4, 3, 8, 0x7f, "binary8"),
    "e5m2mxfp": (5, 2, 15, 0x7c, "e5m2"), "e4m3mxfp": (4, 3, 7, 0x7f, "e4m3"),
    "e3m2mxfp": (3, 2, 3, 32, "small"), "e2m3mxfp": (2, 3, 1, 32, "small"), "e2m1mxfp": (2, 1, 1, 8, "small"),
}


def magval(name: str, c: int) -> Fr:
    E, M, bias, lim, kind = FMTS[name]
    e, m = c >> M, c & ((1 << M) - 1)
    if e == 0:
        return Fr(m, 1 << M) * Fr(2) ** (1 - bias)
    return (1 + Fr(m, 1 << M)) * Fr(2) ** (e - bias)


def ieee_val(b: int, ebits: int, mbits: int):
    """'nan' | ('inf', s) | (s, Fraction): IEEE 754 meaning of an interchange-format pattern."""
    s, e, m = b >> (ebits + mbits), (b >> mbits) & ((1 << ebits) - 1), b & ((1 << mbits) - 1)
    bias = (1 << (ebits - 1)) - 1
    if e == (1 << ebits) - 1:
        return "nan" if m else ("inf", s)
    if e == 0:
        return (s, Fr(m, 1 << mbits) * Fr(2) ** (1 - bias))
    return (s, (1 + Fr(m, 1 << mbits)) * Fr(2) ** (e - bias))


def f_val(f: float):
    if f != f:
        return "nan"
    s = 1 if math.copysign(1.0, f) < 0 else 0
    if math.isinf(f):
        return ("inf", s)
    return (s, abs(Fr(f)))


def ieee_round(x: Fr, ebits: int, mbits: int) -> int:
    """Magnitude pattern of round-to-nearest-even of x > 0; >= inf pattern means out of range."""
    bias = (1 << (ebits - 1)) - 1
    emin = 1 - bias
    n, d = x.numerator, x.denominator
    e = n.bit_length() - d.bit_length()
    if Fr(2) ** e > x:
        e -= 1
    assert Fr(2) ** e <= x < Fr(2) ** (e + 1)
    ex = max(e, emin)
    q = round(x / Fr(2) ** (ex - mbits))          # Fraction.__round__ rounds half to even
    return (ex - emin) * (1 << mbits) + q


def val_to_float(v):
    """The Python float holding exactly the value v (all values here are float64-representable)."""
    if v == "nan":
        return math.nan
    if v[0] == "inf":
        return -math.inf if v[1] else math.inf
    s, x = v
    f = x.numerator / x.denominator
    assert Fr(f) == x, v
    return -f if s else f


def ref_decode(name: str, code: int):
    if name in FMTS:
        E, M, bias, lim, kind = FMTS[name]
        n = 1 + E + M
        s, c = code >> (n - 1), code & ((1 << (n - 1)) - 1)
        if kind == "binary8":
            if code == 0x80:
                return "nan"
            if c == 0x7f:
                return ("inf", s)
        elif kind == "e5m2":
            if c == 0x7c:
                return ("inf", s)
            if c > 0x7c:
                return "nan"
        elif kind == "e4m3" and c == 0x7f:
            return "nan"
        return (s, magval(name, c))
    if name == "e8m0mxfp":
        return "nan" if code == 255 else (0, Fr(2) ** (code - 127))
    if name == "mxint":
        i = code - 256 if code >= 128 else code
        return (1 if i < 0 else 0, Fr(abs(i), 64))
    if name == "bfloat":
        return ieee_val(code << 16, 8, 23)
    if name == "bfloatle":
        return ieee_val(bswap16(code) << 16, 8, 23)
    raise ValueError(name)


def ovf_code(name, mode, s):
    E, M, bias, lim, kind = FMTS[name]
    sb = s << (E + M)
    if kind == "binary8":
        return sb | 0x7f
    if kind == "e5m2":
        return sb | (0x7b if mode == "saturate" else 0x7c)
    if kind == "e4m3":
        return (sb | 0x7e) if mode == "saturate" else 0xff
    return sb | (lim - 1)


_GRID = {}


def grid(name):
    """2^24 * value of the magnitude codes 0..lim (integers: every format's quantum is a multiple of 2^-24)."""
    if name not in _GRID:
        g = []
        for c in range(FMTS[name][3] + 1):
            v = magval(name, c) * (1 << 24)
            assert v.denominator == 1
            g.append(v.numerator)
        assert all(a < b for a, b in zip(g, g[1:]))
        _GRID[name] = g
    return _GRID[name]


def nearest_even(name, x24: int) -> int:
    """Nearest magnitude code on the grid 0..lim to x24/2^24, ties to the even code."""
    g = grid(name)
    i = bisect.bisect_left(g, x24)
    if i == 0:
        return 0
    if i == len(g):
        return len(g) - 1
    lo, hi = i - 1, i
    dl, dh = x24 - g[lo], g[hi] - x24
    if dl < dh:
        return lo
    if dh < dl:
        return hi
    return lo if lo % 2 == 0 else hi


def ref_encode_half(name, mode, hv):
    """Code demanded for the half-precision value hv ('nan' | ('inf', s) | (s, Fraction)); None = ValueError."""
    E, M, bias, lim, kind = FMTS[name]
    if hv == "nan":
        if kind == "small":
            return None
        return 0x80 if kind == "binary8" else 0xff
    if hv[0] == "inf":
        return ovf_code(name, mode, hv[1])
    s, x = hv
    x24 = x * (1 << 24)                            # every half-precision value is a multiple of 2^-24
    assert x24.denominator == 1
    c = nearest_even(name, x24.numerator)
    if c == lim:
        return ovf_code(name, mode, s)
    if c == 0 and kind == "binary8":
        return 0
    return (s << (E + M)) | c


def half_round(v):
    """IEEE-754 binary16 rounding of an exact value (out of range -> inf)."""
    if v == "nan" or v[0] == "inf":
        return v
    s, x = v
    if x == 0:
        return (s, Fr(0))
    p = ieee_round(x, 5, 10)
    if p >= 31 << 10:
        return ("inf", s)
    return ieee_val(p | (s << 15), 5, 10)


def ref_encode(name, mode, f: float):
    """The code the property demands for the Python float f; None = ValueError; 'nan' = any bfloat NaN pattern."""
    v = f_val(f)
    if name in FMTS:
        return ref_encode_half(name, mode, half_round(v))
    if name == "e8m0mxfp":
        if v == "nan":
            return 255
        if v[0] == "inf" or v[0] == 1 or v[1] == 0:
            return None
        n, d = v[1].numerator, v[1].denominator
        if d == 1 and n & (n - 1) == 0:
            k = n.bit_length() - 1
        elif n == 1 and d & (d - 1) == 0:
            k = -(d.bit_length() - 1)
        else:
            return None
        return k + 127 if -127 <= k <= 127 else None
    if name == "mxint":
        if v == "nan":
            return None
        if v[0] == "inf":
            return 0x80 if v[1] else 0x7f
        y = (-v[1] if v[0] else v[1]) * 64
        if y > 127:
            return 0x7f
        if y <= -128:
            return 0x80
        return round(y) & 0xff                     # Fraction.__round__: half to even
    if name in ("bfloat", "bfloatle"):
        if v == "nan":
            return "nan"
        if v[0] == "inf":
            b32 = (v[1] << 31) | (0xff << 23)
        elif v[1] == 0:
            b32 = v[0] << 31
        else:
            p = ieee_round(v[1], 8, 23)
            b32 = (v[0] << 31) | min(p, 0xff << 23)
        top = b32 >> 16
        return top if name == "bfloat" else bswap16(top)
    raise ValueError(name)


def exp_item(name, r) -> str:
    if r is None:
        return "!ValueError"
    if r == "nan":
        return "nan"
    return fmt_code(name, r)


_EXP = {}


def expected_table(name, mode):
    """The 65 536 expected items for the half-precision inputs 0x0000..0xffff."""
    key = (name, mode if name in TWO_MODE else "saturate")
    if key not in _EXP:
        if name in FMTS:
            out = []
            for h in range(65536):
                s, e, m = h >> 15, (h >> 10) & 31, h & 1023
                if e == 31:
                    hv = "nan" if m else ("inf", s)
                else:                                  # |value| = x24 / 2^24 exactly (IEEE 754 binary16)
                    x24 = m if e == 0 else (1024 + m) << (e - 1)
                    hv = (s, Fr(x24, 1 << 24))
                    if h % 1021 == 0:
                        assert ieee_val(h, 5, 10) == hv
                out.append(exp_item(name, ref_encode_half(name, mode, hv)))
            _EXP[key] = out
        else:
            _EXP[key] = [exp_item(name, ref_encode(name, mode, half2f(h))) for h in range(65536)]
    return _EXP[key]


def mul_ref(v, sc):
    """Correctly rounded float64 product of the exact value v and the float sc."""
    if v == "nan" or sc != sc:
        return math.nan
    sv = f_val(sc)
    if v[0] == "inf" or sv[0] == "inf":
        z = (v[0] != "inf" and v[1] == 0) or (sv[0] != "inf" and sv[1] == 0)
        if z:
            return math.nan
        s = (v[1] if v[0] == "inf" else v[0]) ^ (sv[1] if sv[0] == "inf" else sv[0])
        return -math.inf if s else math.inf
    s = v[0] ^ sv[0]
    p = v[1] * sv[1]
    return sign_round(s, p)


def sign_round(s, x: Fr) -> float:
    if x == 0:
        return -0.0 if s else 0.0
    p = ieee_round(x, 11, 52)
    p = min(p, 0x7ff << 52)
    return struct.unpack(">d", struct.pack(">Q", p | (s << 63)))[0]


def div_ref(f: float, sc: float):
    """Correctly rounded float64 quotient f / sc (sc != 0)."""
    if f != f or sc != sc:
        return math.nan
    a, b = f_val(f), f_val(sc)
    if a[0] == "inf":
        if b[0] == "inf":
            return math.nan
        return -math.inf if a[1] ^ b[0] else math.inf
    if b[0] == "inf":
        return -0.0 if a[0] ^ b[1] else 0.0
    return sign_round(a[0] ^ b[0], a[1] / b[1])


def scale_float(s):
    """The float a scale becomes inside `value * scale`: float(int) is correctly rounded."""
    if isinstance(s, int):
        return sign_round(1 if s < 0 else 0, Fr(abs(s)))
    return s


# ---------------------------------------------------------------------------------------------------- implementation side
def _setprop(name, f):
    a = BitArray()
    setattr(a, name, f)
    return a


def _append(name, f):
    a = Array(name)
    a.append(f)
    return a.data


def enc_routes(name, f):
    n = NBITS[name]
    return {
        "kwlen": lambda: Bits(**{name + str(n): f}),
        "token": lambda: Bits("%s=%r" % (name, f)),
        "tokenlen": lambda: BitStream("%s%d=%r" % (name, n, f)),
        "pack": lambda: bitstring.pack(name, f),
        "packtok": lambda: bitstring.pack("%s=%r" % (name, f)),
        "build": lambda: Dtype(name).build(f),
        "bitarray": lambda: BitArray(**{name: f}),
        "setprop": lambda: _setprop(name, f),
        "array": lambda: Array(name, [f]).data,
        "append": lambda: _append(name, f),
    }


def dec_routes(name, b):
    n = NBITS[name]
    return {
        "proplen": lambda: getattr(b, name + str(n)),
        "parse": lambda: Dtype(name).parse(b),
        "unpack": lambda: b.unpack(name)[0],
        "read": lambda: ConstBitStream(b).read(name),
        "readlist": lambda: BitStream(b).readlist([name + str(n)])[0],
        "array": lambda: Array(name, b)[0],
        "bitarray": lambda: getattr(BitArray(b), name),
        "padded": lambda: (Bits("0b101") + b + Bits("0b1"))[3:3 + n].unpack(name)[0],
    }


def mkcode(name, code):
    return Bits(uint=code, length=NBITS[name])


def execute(line: str):
    f = line.split(SEP)
    op, name, mode = f[1], f[2], f[3]
    extra = {}
    if op == "modeseq":
        return exec_modeseq(name, f[3], hex2f(f[4]))
    with options(mxfp_overflow=mode):
        fast_clear()
        if op == "enc":
            x = hex2f(f[4])
            out = guarded(lambda: Bits(**{name: x}), bits_code(name))
            extra["routes"] = {k: guarded(v, bits_code(name)) for k, v in enc_routes(name, x).items()}
            # the other mode must not be disturbed / must be what it is on its own (option is read per call)
            extra["again"] = guarded(lambda: Bits(**{name: x}), bits_code(name))
            return out, extra
        if op == "dec":
            b = mkcode(name, int(f[4], 16))
            out = guarded(lambda: getattr(b, name), f2hex)
            extra["routes"] = {k: guarded(v, f2hex) for k, v in dec_routes(name, b).items()}
            return out, extra
        if op == "senc":
            s, x = parse_scale(f[4]), hex2f(f[5])
            out = guarded(lambda: Dtype(name, scale=s).build(x), bits_code(name))
            extra["routes"] = {
                "array": guarded(lambda: Array(Dtype(name, scale=s), [x]).data, bits_code(name)),
                "lengthkw": guarded(lambda: Dtype(name, NBITS[name], scale=s).build(x), bits_code(name)),
            }
            # Array.astype to the SAME format under another scale keeps the values, not the codes (round 9: a raw-copy
            # fast path keyed on a Dtype equality that ignores the scale): it is the re-encoding of the decoded values
            extra["astype"] = guarded(lambda: Array(Dtype(name), [x]).astype(Dtype(name, scale=s)).data, bits_code(name))
            extra["astype_ref"] = guarded(lambda: Array(Dtype(name, scale=s), Array(Dtype(name), [x]).tolist()).data, bits_code(name))
            extra["astype_back"] = guarded(lambda: Array(Dtype(name, scale=s), [x]).astype(Dtype(name)).data, bits_code(name))
            extra["astype_back_ref"] = guarded(lambda: Array(Dtype(name), Array(Dtype(name, scale=s), [x]).tolist()).data, bits_code(name))
            return out, extra
        if op == "sdec":
            s, b = parse_scale(f[4]), mkcode(name, int(f[5], 16))
            out = guarded(lambda: Dtype(name, scale=s).parse(b), f2hex)
            extra["routes"] = {
                "array": guarded(lambda: Array(Dtype(name, scale=s), b)[0], f2hex),
                "read": guarded(lambda: ConstBitStream(b).read(Dtype(name, scale=s)), f2hex),
                "unscaled": guarded(lambda: Dtype(name).parse(b), f2hex),
            }
            return out, extra
        if op == "ench":
            hs = [int(h, 16) for h in f[4].split(",")]
            return "ok " + ",".join(item(lambda: Bits(**{name: half2f(h)}), bits_code(name)) for h in hs), extra
        if op == "enchb":
            st, cnt = int(f[4], 16), int(f[5])
            d = Dtype(name)
            items = [item(lambda: Bits(**{name: half2f(st + i)}), bits_code(name)) for i in range(cnt)]
            extra["build"] = [item(lambda: d.build(half2f(st + i)), bits_code(name)) for i in range(cnt)]
            return "ok " + ",".join(items), extra
        if op == "sweep":
            fs = [half2f(h) for h in range(65536)]
            bc = bits_code(name)
            items = []
            for x in fs:                                         # keyword route, every half-precision input
                try:
                    items.append(bc(Bits(**{name: x})))
                except Exception as e:                           # noqa: BLE001
                    items.append("!" + err_name(e))
            ok = [x for x, it in zip(fs, items) if not it.startswith("!")]
            n = NBITS[name]

            def via_array():
                bits = Array(name, ok).data.bin
                return [fmt_code(name, int(bits[i:i + n], 2)) for i in range(0, len(bits), n)]
            extra["array"] = guarded(via_array, lambda v: ",".join(v))
            extra["array_expected"] = ",".join(it for it in items if not it.startswith("!"))
            return "ok " + ",".join(items), extra
        if op == "decb":
            st, cnt = int(f[4], 16), int(f[5])
            d = Dtype(name)
            items = [item(lambda: getattr(mkcode(name, st + i), name), f2hex) for i in range(cnt)]
            extra["parse"] = [item(lambda: d.parse(mkcode(name, st + i)), f2hex) for i in range(cnt)]
            n = NBITS[name]
            allbits = Bits().join(mkcode(name, st + i) for i in range(cnt))
            extra["array"] = guarded(lambda: [f2hex(v) for v in Array(name, allbits).tolist()], lambda v: ",".join(v))
            return "ok " + ",".join(items), extra
        if op == "reenc":
            st, cnt = int(f[4], 16), int(f[5])
            items = [item(lambda: Bits(**{name: getattr(mkcode(name, st + i), name)}), bits_code(name)) for i in range(cnt)]
            return "ok " + ",".join(items), extra
    raise ValueError(line)


MODE_OF = {"s": "saturate", "o": "overflow"}

_CACHES = None


def fast_clear():
    """common.clear_caches() scans the whole package on every call (0.4 ms); the set of functools caches does not change
    within one process, so scan once (same rule: every object with a callable cache_clear on the package's modules and on
    the classes they define) and afterwards only call their cache_clear."""
    global _CACHES
    if _CACHES is None:
        found, seen = [], set()

        def add(obj):
            cc = getattr(obj, "cache_clear", None)
            if callable(cc) and id(obj) not in seen:
                seen.add(id(obj))
                found.append(obj)
        for mname, mod in list(sys.modules.items()):
            if mod is None or not (mname == "bitstring" or mname.startswith("bitstring.")):
                continue
            for v in list(vars(mod).values()):
                add(v)
                if isinstance(v, type) and getattr(v, "__module__", "").startswith("bitstring"):
                    for w in list(vars(v).values()):
                        add(getattr(w, "__func__", w))
        _CACHES = found
    for obj in _CACHES:
        try:
            obj.cache_clear()
        except Exception:                                           # noqa: BLE001
            pass


def _fromstring(cls, s):
    return cls.fromstring(s)


def _iadd(s):
    a = BitArray("0x00")
    a += s
    return a[8:]


def _append_tok(s):
    a = BitArray()
    a.append(s)
    return a


def _prepend(s, n):
    a = BitArray("0b1")
    a.prepend(s)
    return a[:n]


def exec_modeseq(name, order, x):
    """The same value under a sequence of mxfp_overflow settings.  Caches are cleared once, before the first step, so that
    the line replays on its own; they are NOT cleared between the steps: what an earlier step left in any cache is there."""
    n = NBITS[name]
    tok = "%s=%r" % (name, x)
    toklen = "%s%d=%r" % (name, n, x)
    bc = bits_code(name)
    o = bitstring.options
    saved = o.mxfp_overflow
    fast_clear()
    steps, main = [], []
    try:
        for ch in order:
            o.mxfp_overflow = MODE_OF[ch]
            rejected = None
            if len(order) == 4:
                # a REJECTED assignment in between (round 9: a setter that stored the value before validating it): the
                # setting in force stays the last valid one
                try:
                    o.mxfp_overflow = MODE_OF["o" if ch == "s" else "s"].capitalize()
                    rejected = "accepted"
                except ValueError:
                    rejected = "!ValueError"
                except Exception as e:                              # noqa: BLE001
                    rejected = "!" + err_name(e)
            routes = {
                "Bits(token)": lambda: Bits(tok),
                "BitArray(token)": lambda: BitArray(tok),
                "BitStream(token+length)": lambda: BitStream(toklen),
                "Bits('0x00, token, 0b1')[8:-1]": lambda: Bits("0x00, " + tok + ", 0b1")[8:8 + n],
                "Bits('token, token')[n:]": lambda: Bits(tok + ", " + tok)[n:],
                "pack(token)": lambda: bitstring.pack(tok),
                "pack('uint8=0, token')[8:]": lambda: bitstring.pack("uint8=0, " + tok)[8:],
                "BitStream.fromstring(token)": lambda: _fromstring(BitStream, tok),
                "BitArray.fromstring(token)": lambda: _fromstring(BitArray, tok),
                "BitArray('0x00') += token": lambda: _iadd(tok),
                "BitArray().append(token)": lambda: _append_tok(tok),
                "BitArray('0b1').prepend(token)": lambda: _prepend(tok, n),
                "Bits() + token": lambda: Bits() + tok,
                "token + Bits()  (radd)": lambda: tok + Bits(),
                # controls: routes that do not go through the string cache
                "keyword": lambda: Bits(**{name: x}),
                "property": lambda: _setprop(name, x),
                "Dtype.build": lambda: Dtype(name).build(x),
                "pack(name, value)": lambda: bitstring.pack(name, x),
                "Array": lambda: Array(name, [x]).data,
            }
            res = {k: item(v, bc) for k, v in routes.items()}
            # a string operand of == is converted too: the freshly encoded value must equal its own token string
            try:
                kw = Bits(**{name: x})
                res["keyword == token"] = "True" if (kw == tok) else "False"
            except Exception as e:                                  # noqa: BLE001
                res["keyword == token"] = "!" + err_name(e)
            if rejected is not None:
                res["rejected assignment of an invalid mxfp_overflow value"] = rejected
                res["options.mxfp_overflow after it"] = "same" if o.mxfp_overflow == MODE_OF[ch] else repr(o.mxfp_overflow)
            steps.append(res)
            main.append(res["Bits(token)"])
    finally:
        o.mxfp_overflow = saved
    return "ok " + ",".join(main), {"steps": steps}


def model_line(line: str) -> str:
    f = line.split(SEP)
    if f[1] == "sweep":
        return SEP.join(["C11", "enchb", f[2], f[3], f[4], "256"])
    return line


def compare(out: str, model: str, line: str) -> bool:
    f = line.split(SEP)
    if f[1] == "sweep":
        st = int(f[4], 16)
        return out.startswith("ok ") and "ok " + ",".join(out[3:].split(",")[st:st + 256]) == model
    return out == model


# ---------------------------------------------------------------------------------------------------- oracle
def _routes_agree(out, extra, what):
    for k, v in extra.get("routes", {}).items():
        if v != out:
            return f"{what}: route {k} gives {v}, main route gives {out}"
    return None


def oracle(line: str, out: str, extra: dict):
    f = line.split(SEP)
    op, name, mode = f[1], f[2], f[3]
    if op == "enc":
        x = hex2f(f[4])
        exp = exp_item(name, ref_encode(name, mode, x))
        exp = "err ValueError" if exp == "!ValueError" else "ok " + exp
        if out != exp:
            return f"{name}={x!r} ({f[4]}) under {mode}: expected {exp}, got {out}"
        if extra["again"] != out:
            return f"{name}={x!r}: second evaluation gives {extra['again']}, first {out}"
        return _routes_agree(out, extra, f"{name}={x!r} under {mode}")
    if op == "dec":
        code = int(f[4], 16)
        exp = "ok " + f2hex(val_to_float(ref_decode(name, code)))
        if out != exp:
            return f"code {f[4]} as {name}: expected {exp}, got {out}"
        return _routes_agree(out, extra, f"code {f[4]} as {name}")
    if op == "modeseq":
        order, x = f[3], hex2f(f[4])
        if not out.startswith("ok "):
            return f"modeseq: {out}"
        items = out[3:].split(",")
        if len(items) != len(order) or len(extra["steps"]) != len(order):
            return f"modeseq: {len(items)} results for {len(order)} steps"
        hist = []
        for i, ch in enumerate(order):
            m = MODE_OF[ch]
            exp = exp_item(name, ref_encode(name, m, x))
            hist.append(m)
            for route, got in extra["steps"][i].items():
                want = exp
                if route == "keyword == token":
                    want = "!ValueError" if exp == "!ValueError" else "True"
                if route.startswith("rejected assignment"):
                    want = "!ValueError"
                if route == "options.mxfp_overflow after it":
                    want = "same"
                if got != want:
                    return (f"{name}={x!r} ({f[4]}) via {route} under mxfp_overflow={m!r} (step {i + 1} of the history "
                            f"{' -> '.join(hist)}, caches not cleared in between): expected {want}, got {got}")
        return None
    if op == "senc":
        s, x = parse_scale(f[4]), hex2f(f[5])
        if s == 0:
            exp = "err ValueError"
        else:
            q = div_ref(x, scale_float(s))
            e = exp_item(name, ref_encode(name, mode, q))
            exp = "err ValueError" if e == "!ValueError" else "ok " + e
        if out != exp:
            return f"Dtype({name}, scale={s!r}).build({x!r}) under {mode}: expected {exp} (code of value/scale), got {out}"
        for k in ("astype", "astype_back"):
            if k in extra and extra[k] != extra[k + "_ref"]:
                return (f"Array({name}{'' if k == 'astype' else ', scale=%r' % s}, [{x!r}]).astype({name}{', scale=%r' % s if k == 'astype' else ''}) under {mode}: "
                        f"got {extra[k]}, re-encoding the decoded values gives {extra[k + '_ref']}")
        return _routes_agree(out, extra, f"Dtype({name}, scale={s!r}).build({x!r})")
    if op == "sdec":
        s, code = parse_scale(f[4]), int(f[5], 16)
        if s == 0:
            exp = "err ValueError"
        else:
            exp = "ok " + f2hex(mul_ref(ref_decode(name, code), scale_float(s)))
        if out != exp:
            return f"Dtype({name}, scale={s!r}).parse({f[5]}): expected {exp} (decoded value * scale), got {out}"
        for k in ("array", "read"):
            if extra["routes"][k] != out:
                return f"Dtype({name}, scale={s!r}).parse({f[5]}): route {k} gives {extra['routes'][k]}, parse gives {out}"
        if s != 0:
            un = "ok " + f2hex(val_to_float(ref_decode(name, code)))
            if extra["routes"]["unscaled"] != un:
                return f"after using a scaled Dtype the unscaled Dtype({name}) parses {f[5]} as {extra['routes']['unscaled']}, expected {un}"
        return None
    if op in ("ench", "enchb", "sweep"):
        if op == "ench":
            hs = [int(h, 16) for h in f[4].split(",")]
        elif op == "enchb":
            hs = list(range(int(f[4], 16), int(f[4], 16) + int(f[5])))
        else:
            hs = list(range(65536))
        if not out.startswith("ok "):
            return f"{op}: {out}"
        items = out[3:].split(",")
        tbl = expected_table(name, mode)
        if len(items) != len(hs):
            return f"{op}: {len(items)} results for {len(hs)} inputs"
        for h, it in zip(hs, items):
            if it != tbl[h]:
                return (f"{name}={half2f(h)!r} (half-precision input 0x{h:04x}) under {mode}: expected {tbl[h]}, got {it}"
                        f" - reproduce: C11\tench\t{name}\t{mode}\t{h:04x}")
        if "build" in extra:
            for h, it in zip(hs, extra["build"]):
                if it != tbl[h]:
                    return f"Dtype({name}).build({half2f(h)!r}) (0x{h:04x}) under {mode}: expected {tbl[h]}, got {it}"
        if "array" in extra:
            if extra["array"] != "ok " + extra["array_expected"]:
                return f"Array({name}, [all non-rejected half-precision values]) differs from the element-wise codes under {mode}"
        return None
    if op == "decb":
        st, cnt = int(f[4], 16), int(f[5])
        if not out.startswith("ok "):
            return f"decb: {out}"
        items = out[3:].split(",")
        if len(items) != cnt:
            return f"decb: {len(items)} results for {cnt} codes"
        exps = [f2hex(val_to_float(ref_decode(name, st + i))) for i in range(cnt)]
        for i in range(cnt):
            if items[i] != exps[i]:
                return f"code {st + i:x} as {name}: expected {exps[i]}, got {items[i]} - reproduce: C11\tdec\t{name}\t{mode}\t{st + i:x}"
            if extra["parse"][i] != exps[i]:
                return f"Dtype({name}).parse of code {st + i:x}: expected {exps[i]}, got {extra['parse'][i]}"
        if extra["array"] != "ok " + ",".join(exps):
            return f"Array({name}, codes {st:x}..{st + cnt - 1:x}).tolist() differs from the format definition"
        return None
    if op == "reenc":
        st, cnt = int(f[4], 16), int(f[5])
        if not out.startswith("ok "):
            return f"reenc: {out}"
        items = out[3:].split(",")
        if len(items) != cnt:
            return f"reenc: {len(items)} results for {cnt} codes"
        for i in range(cnt):
            c = st + i
            v = ref_decode(name, c)
            if v == "nan":
                exp = exp_item(name, ref_encode(name, mode, math.nan))
            elif name == "e5m2mxfp" and mode == "saturate" and v[0] == "inf":
                exp = fmt_code(name, (c & 0x80) | 0x7b)
            else:
                exp = fmt_code(name, c)
            if items[i] != exp:
                return f"{name}: decoding code {c:x} and encoding the value again under {mode} gives {items[i]}, expected {exp}"
        return None
    return "unknown op"


def nontrivial(line):
    return True


# ---------------------------------------------------------------------------------------------------- generators
def _ulp_neighbours(x: float):
    """x and its float64 neighbours."""
    out = [x]
    if x == x and not math.isinf(x):
        out += [math.nextafter(x, math.inf), math.nextafter(x, -math.inf)]
    return out


def _fr_to_float(x: Fr) -> float:
    return x.numerator / x.denominator


def stratified_halves(name, rng, n_random):
    """Half-precision inputs where rounding decisions live: every tie of the target grid and its neighbours,
    every exponent boundary, zeros, subnormals, the overflow threshold, inf, NaN - both signs - plus random ones."""
    hs = set()
    for h in range(0x8000):
        lo6 = h & 0x3f
        if lo6 in (0, 1, 0x3f) or (h & 0x3ff) in (2, 0x3fe, 0x200, 0x201, 0x1ff, 0x100, 0x101, 0xff, 0x300, 0x301, 0x2ff):
            hs.add(h)
    hs.update(range(0, 0x40))
    hs.update(range(0x7bc0, 0x7c40))
    hs.update([0x7e00, 0x7fff, 0x7c01, 0x7dff])
    if name in FMTS:
        g = grid(name)
        for a, b in zip(g, g[1:]):
            for x24 in (a, b, (a + b) // 2):
                x = Fr(x24, 1 << 24)
                if 0 < x < 65520:
                    p = ieee_round(x, 5, 10)
                    hs.update(q for q in (p - 1, p, p + 1) if 0 <= q < 0x8000)
    hs.update(rng.randrange(0x8000) for _ in range(n_random))
    return sorted(hs | {h | 0x8000 for h in hs})


def f64_specials(name, rng, n_random):
    """float64 inputs that are not half-precision values."""
    xs = [0.0, -0.0, math.inf, -math.inf, math.nan, -math.nan, struct.unpack(">d", bytes.fromhex("7ff0000000000001"))[0],
          struct.unpack(">d", bytes.fromhex("fff7ffffffffffff"))[0],
          5e-324, -5e-324, 2.2250738585072014e-308, 1e-320, 1.7976931348623157e308, -1.7976931348623157e308, 1e300, -1e300,
          65504.0, 65519.99999999999, 65520.0, 65520.00000000001, 65535.0, 65536.0, 1e5, -65519.99999999999, -65520.0, -1e5,
          2.0 ** -24, 2.0 ** -25, math.nextafter(2.0 ** -25, 1), math.nextafter(2.0 ** -25, 0), 2.0 ** -26, 3 * 2.0 ** -26,
          3.4028234663852886e38, 3.4028235677973366e38, math.nextafter(3.4028235677973366e38, 0), 3.5e38, -3.4028235677973366e38,
          1e39, -1e39, 2.0 ** -126, 2.0 ** -127, 2.0 ** -149, 2.0 ** -150, math.nextafter(2.0 ** -150, 1), 2.0 ** -133 * 1.0000001,
          0.1, -0.1, 1 / 3, 1.0, -1.0, 448.0, 464.0, 480.0, 57344.0, 61440.0, 224.0, 240.0, 49152.0, 53248.0]
    out = []
    for x in xs:
        out += _ulp_neighbours(x) if x == x else [x]
    # ties of the half-precision rounding: midpoints between adjacent halves, +-1 ulp(float64)
    for _ in range(n_random):
        h = rng.randrange(0x7bff)
        mid = (Fr(half2f(h)) + Fr(half2f(h + 1))) / 2
        m = _fr_to_float(mid)
        for y in _ulp_neighbours(m):
            out.append(y if rng.random() < 0.5 else -y)
    if name in FMTS:
        g = grid(name)
        for a, b in zip(g, g[1:]):
            m = _fr_to_float(Fr(a + b, 1 << 25))
            for y in _ulp_neighbours(m) + _ulp_neighbours(_fr_to_float(Fr(a, 1 << 24))):
                out += [y, -y]
            # the half-precision midpoints on either side of a format tie point: a float64 one ulp beyond such a midpoint
            # rounds (correctly) to the half ABOVE the tie, but through an intermediate float32 it lands on the tie itself
            if m == m and 0 < abs(m) < 65504:
                try:
                    h16 = struct.unpack(">e", struct.pack(">e", m))[0]
                except (OverflowError, struct.error):
                    h16 = None
                if h16 is not None and h16 == m:
                    hb = int.from_bytes(struct.pack(">e", m), "big")
                    for nb in (hb + 1, hb - 1):
                        if 0 <= nb <= 0x7bff:
                            mid16 = (m + half2f(nb)) / 2
                            for y in _ulp_neighbours(mid16):
                                out += [y, -y]
    if name == "mxint":
        for k in range(-260, 261):
            for y in _ulp_neighbours(k / 128):                    # 64x = k/2: every integer and every tie
                out.append(y)
        out += [hex2f("3f80000000000001"), hex2f("bf80000000000001"), hex2f("3f80000000000002"), hex2f("3f7fffffffffffff")]
    if name == "e8m0mxfp":
        for k in range(-130, 131):
            x = 2.0 ** k
            ys = [x]
            up = dn = x
            for _ in range(4):                                    # 2^k and its neighbours up to 4 ulp away
                up, dn = math.nextafter(up, math.inf), math.nextafter(dn, 0.0)
                ys += [up, dn]
            for y in ys:
                out += [y, -y] if k % 16 == 0 else [y]
        out += [3.0, 0.75, 1.5 * 2.0 ** 100, 2.0 ** 0.5, 1.0000001, 0.9999999]
    if name in ("bfloat", "bfloatle"):
        for _ in range(n_random):
            c = rng.randrange(0x7f80)                             # finite bfloat code
            base = c << 16
            for low in (0, 1, 0x7fff, 0x8000, 0x8001, 0xffff):
                f32 = struct.unpack(">f", struct.pack(">I", base | low))[0]
                up = struct.unpack(">f", struct.pack(">I", min((base | low) + 1, 0x7f7fffff)))[0]
                for y in (f32, (f32 + up) / 2, math.nextafter((f32 + up) / 2, 0), math.nextafter((f32 + up) / 2, math.inf)):
                    out.append(y if rng.random() < 0.7 else -y)
    for _ in range(n_random):
        out.append(struct.unpack(">d", struct.pack(">Q", rng.getrandbits(64)))[0])
        e = rng.uniform(-30, 18)
        out.append(rng.choice([1, -1]) * 2.0 ** e * rng.random())
    return out


SCALES_QUICK = [2, 4, 2 ** 10, 2 ** 60, 2 ** 127, 0.5, 2.0 ** -10, 2.0 ** -127, 2.0 ** 6, 3, 10, -2, 7, 0.1, -2.5, 1e-3, 3.0, 1 / 3,
                2 ** 60 + 1, -(2 ** 70) - 12345, 1e300, 1e-300, 1, 1.0, -1.0, 0, 0.0, -0.0]


def gen(rng, tier):
    big = tier != "quick"
    L = lambda *a: SEP.join(("C11",) + tuple(str(x) for x in a))
    # ---- every code of every format, both modes
    for name in NAMES:
        n = NBITS[name]
        for mode in MODES:
            if n <= 8:
                yield L("decb", name, mode, "0", 1 << n)
                yield L("reenc", name, mode, "0", 1 << n)
                step = 1 if (big or mode == "saturate") else 3
                for c in range(0, 1 << n, step):
                    yield L("dec", name, mode, "%x" % c)
            else:
                blocks = list(range(256)) if big else sorted(set([0, 1, 0x3f, 0x40, 0x7e, 0x7f, 0x80, 0x81, 0xbf, 0xc0, 0xfe, 0xff]
                                                                 + [rng.randrange(256) for _ in range(24)]))
                if mode == "overflow" and not big:
                    blocks = blocks[::4]
                for b in blocks:
                    yield L("decb", name, mode, "%x" % (b * 256), 256)
                    yield L("reenc", name, mode, "%x" % (b * 256), 256)
                for _ in range(600 if big else 60):
                    yield L("dec", name, mode, "%x" % rng.choice([0, 0x8000, 0x7f80, 0xff80, 0x7fc0, 0x7f7f, 0x0080, 0x0001, 0x3f80,
                                                                 rng.randrange(65536), rng.randrange(65536)]))
    # ---- every half-precision input of every format and mode through the public API
    for name in NAMES:
        for mode in MODES:
            if big:
                for b in range(256):
                    yield L("enchb", name, mode, "%x" % (b * 256), 256)
            else:
                both = name in TWO_MODE or mode == "saturate"
                if both:
                    yield L("sweep", name, mode, "%x" % (256 * rng.randrange(256)))
                hs = stratified_halves(name, rng, 600)
                if not both:
                    hs = hs[rng.randrange(4)::4]
                for i in range(0, len(hs), 128):
                    yield L("ench", name, mode, ",".join("%x" % h for h in hs[i:i + 128]))
    # ---- float64 inputs one by one, all creation routes
    for name in NAMES:
        xs = f64_specials(name, rng, 250 if big else 40)
        for mode in MODES:
            sub = xs if (big or mode == "saturate" or name in TWO_MODE) else xs[rng.randrange(8)::8]
            for x in sub:
                yield L("enc", name, mode, struct.pack(">d", x).hex())
            hs = stratified_halves(name, rng, 100)
            for h in (hs if big else rng.sample(hs, 150)):
                yield L("enc", name, mode, struct.pack(">d", half2f(h)).hex())
    # ---- histories of mxfp_overflow settings through the token-string route (the string cache must not serve a code
    #      computed under the other setting); both orders, every format (the mode-independent ones as controls)
    hvals = [1e10, -1e10, math.inf, -math.inf, math.nan, 61440.0, 61439.99, 65520.0, -65520.0, 65504.0, 57344.0, 1000.0, -1000.0,
             2000.0, -70000.0, 465.0, 464.0, 464.25, -479.0, 480.0, 448.0, 1e300, -1e300, 240.0, 232.5, 30.0, 7.75, 6.5,
             1.5, -0.0, 0.1, 2.0 ** -20, 2.0 ** 127, 3e38]
    for name in NAMES:
        vals = list(hvals)
        for _ in range(40 if big else (10 if name in TWO_MODE else 3)):
            vals.append(rng.choice([1, -1]) * 2.0 ** rng.uniform(5, 20))
        for x in vals:
            for order in (("sos", "oso", "soos", "ooss") if (big or name in TWO_MODE) else ("sos", "oso")):
                yield L("modeseq", name, order, struct.pack(">d", x).hex())
    # ---- scaled dtypes
    scales = list(SCALES_QUICK)
    for _ in range(12 if big else 3):
        scales.append(2.0 ** rng.randint(-126, 126) * rng.choice([1, -1]))
        scales.append(rng.choice([1, -1]) * rng.uniform(0.01, 100))
        scales.append(2 ** rng.randint(1, 126))
        scales.append(rng.randint(-1000, 1000) or 5)
    for name in NAMES:
        n = NBITS[name]
        for s in scales:
            ss = scale_str(s)
            mode = rng.choice(MODES)
            if n <= 6:
                codes = list(range(1 << n))
            elif n == 8:
                codes = sorted(set([0, 1, 0x7b, 0x7c, 0x7d, 0x7e, 0x7f, 0x80, 0x81, 0xfb, 0xfc, 0xfe, 0xff]
                                   + [rng.randrange(256) for _ in range(40 if big else 10)]))
            else:
                codes = [0, 0x8000, 0x3f80, 0x7f80, 0xff80, 0x7fc0, 0x0001, 0x7f7f] + [rng.randrange(65536) for _ in range(40 if big else 10)]
            for c in codes:
                yield L("sdec", name, mode, ss, "%x" % c)
            sf = scale_float(s)
            vals = [0.0, -0.0, math.inf, -math.inf, math.nan, 1.0, -1.5, 1e6, -1e-6, 65520.0 * (sf if sf == sf and sf != 0 else 1)]
            for c in rng.sample(codes, min(len(codes), 12 if big else 6)):
                v = val_to_float(ref_decode(name, c))
                if v == v and s != 0:
                    p = mul_ref(ref_decode(name, c), sf)
                    vals += [p, math.nextafter(p, math.inf)] if p == p and not math.isinf(p) else [p]
            for _ in range(10 if big else 3):
                vals.append(rng.choice([1, -1]) * 2.0 ** rng.uniform(-20, 20) * (abs(sf) if sf == sf and sf != 0 and not math.isinf(sf) else 1))
            for v in vals:
                yield L("senc", name, rng.choice(MODES), ss, struct.pack(">d", v).hex())
