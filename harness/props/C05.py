"""C05 — pack, unpack and token strings are mutually inverse and compositional.

lines (TAB separated; <fmt>/<str> percent-escaped; values `i:<int>` `s:<text>` `t:0|1` `y:<bits of bytes>` `b:<bits>`, `;`-joined, `-` = none;
kwargs `key=VAL;key=VAL`; the last field <spec> is for the oracle only: the flat token list the *grammar* says the format denotes,
`kind:len:canonical-value|…`, or `!arity` / `!size` / `!format` for the malformed stream, `?` = no expectation):
  C05 expand <str> <expected>                  -> ok <expanded>. | err                         expand_brackets
  C05 tok    <fmt> <keys> <expected>           -> ok <preprocess_tokens> <stretchy> <tokens> | err   tokenparser (canonicalised)
  C05 pack   <fmt> <kw> <vals> <u> <spec>      -> ok <bits>[ U:ok <vals>|U:err] | err ValueError | err   pack (+ unpack of the result if u=1)
  C05 comp   <f1> <f2> <kw> <v1> <v2> <spec>   -> ok <bits of pack(f1 , f2)>                   extra: pack(f1), pack(f2), pack([f1, f2])
  C05 rep    <n> <fmt> <kw> <vals> <spec>      -> ok <bits of pack('n*(fmt)', vals * n)>       extra: fmt written n times, pack(fmt) * n
  C05 str    <str> <plainfmt> <vals> <spec>    -> ok <bits of Bits(str)>                       extra: pack(str), pack(plainfmt, *vals)
  C05 unpack <fmt> <kw> <bits> <spec>          -> ok <vals> | err                              Bits(bits).unpack(fmt, **kw)
"""
from harness.common import *
import re, sys

FUNCTIONAL = True
LEVEL_TEXT = ("Lean theorems about the transcription of pack/tokenparser/expand_brackets/_read_dtype_list: the token loop of pack equals the "
              "concatenation of the per-token encodings with values consumed left to right (pack_alg_eq_spec), pack(f1 ++ f2)(v1 ++ v2) = pack f1 v1 ++ pack f2 v2, "
              "n copies of a format pack to n copies of the bits, success iff the number of values is the arity (too few / too many -> ValueError), a fixed-length token "
              "always yields exactly its length (wrong size -> ValueError), length = sum of token lengths, an embedded =value equals the value passed separately, "
              "unpack(pack) returns the values for every well-formed token list incl. one length-less token (two-pass stretchy arithmetic), and expand_brackets on "
              "every rendered bracket tree yields the comma-joined flattening whose non-empty tokens are the tree's flattening (n*(f) = f written n times for every n >= 0) and ValueError on unbalanced input; end to end on format strings (Props/C05_String): the two token parsers agree on plain token texts, preprocess of any whitespace-injected rendered tree is the specified flattening, hence unpack(fmt)(pack(fmt, values)) = values. "
              "Correspondence: grammar-generated formats (depth <= 3, factors 0..4, whitespace, all length spellings, keywords, struct groups, pads, one length-less token), "
              "malformed stream, all two-way splits, n*(f) vs f repeated, token strings with embedded values.")
LEVEL_NOTE = ("Trusted: Lean kernel (+propext, Classical.choice, Quot.sound); the regexes of utils.py are modelled by hand-written string functions (ASCII classes) and tied "
              "by the differential run only; float token kinds and lsb0 are out of the model; native endianness = little (asserted by the harness).")
TECHNIQUE = "Lean 4 proof (induction over token lists / bracket trees) + grammar-based differential correspondence"
NOT_YET_PROVED = []
TRUSTED = ["regular expressions NAME_INT_RE/NAME_KWARG_RE/MULTIPLICATIVE_RE/STRUCT_PACK_RE/LITERAL_RE/BRACKET_RE are modelled by hand-written matchers (ASCII classes)",
           "sys.byteorder == 'little' for the *ne aliases (asserted at import)"]

assert sys.byteorder == "little", "the C05 model maps uintne/intne to little-endian"

from bitstring import utils as _utils

INT_KINDS = ("uint", "int", "uintbe", "intbe", "uintle", "intle")
VAR_KINDS = ("ue", "se", "uie", "sie")
STR_KINDS = ("hex", "bin", "oct")
SIGNED = ("int", "intbe", "intle", "se", "sie")
ALIASES = {"uint": ["uint", "uint", "u"], "int": ["int", "int", "i"], "hex": ["hex", "hex", "h"], "bin": ["bin", "bin", "b"],
           "oct": ["oct", "oct", "o"], "uintle": ["uintle", "uintne"], "intle": ["intle", "intne"]}
UNIT = {"bytes": 8}


# ------------------------------------------------------------------------------------------ wire helpers
def esc(s: str) -> str:
    out = []
    for c in s:
        o = ord(c)
        if 0x21 <= o <= 0x7e and c not in "%;|~":
            out.append(c)
        else:
            assert o < 256
            out.append("%%%02x" % o)
    return "".join(out)


def unesc(s: str) -> str:
    return re.sub(r"%([0-9a-fA-F]{2})", lambda m: chr(int(m.group(1), 16)), s)


def val_wire(v) -> str:
    if isinstance(v, bool):
        return "t:1" if v else "t:0"
    if isinstance(v, int):
        return "i:%d" % v
    if isinstance(v, str):
        return "s:" + esc(v)
    if isinstance(v, (bytes, bytearray)):
        return "y:" + "".join(format(x, "08b") for x in bytes(v))
    if isinstance(v, Bits):
        return "b:" + v.bin
    raise TypeError(type(v))


def val_unwire(s: str):
    k, r = s[0], s[2:]
    if k == "i":
        return int(r)
    if k == "s":
        return unesc(r)
    if k == "t":
        return r == "1"
    if k == "y":
        return bytes(int(r[i:i + 8], 2) for i in range(0, len(r), 8))
    if k == "b":
        return Bits(bin=r) if r else Bits()
    raise ValueError(s)


def vals_wire(vs) -> str:
    return ";".join(val_wire(v) for v in vs) if vs else "-"


def vals_unwire(s: str):
    return [] if s == "-" else [val_unwire(x) for x in s.split(";")]


def kw_wire(kw) -> str:
    return ";".join(f"{k}={val_wire(v)}" for k, v in kw.items()) if kw else "-"


def kw_unwire(s: str):
    if s == "-":
        return {}
    out = {}
    for e in s.split(";"):
        k, v = e.split("=", 1)
        out[k] = val_unwire(v)
    return out


def out_vals(vs) -> str:
    """what unpack returned, canonical (comma separated)"""
    return ",".join(val_wire(v) for v in vs) if vs else "-"


def plain(thunk, fmt) -> str:
    """`ok …` / `err` — the class of a documented exception is not observed here."""
    try:
        v = thunk()
    except RecursionError:
        return "err Internal:RecursionError"
    except Exception as e:                                  # noqa: BLE001
        n = err_name(e)
        return "err" if n in DOCUMENTED else "err " + n
    return "ok " + fmt(v)


def snapshot(vals, kw) -> str:
    """the caller's own values as seen after a call (mutable or not, pack must leave them alone)"""
    return vals_wire(list(vals)) + "#" + kw_wire(kw)


def pack_obs(fmts, vals, kw) -> str:
    """pack in two stages so that the class is observed only for the value/arity stage (the property names it there)."""
    keys = tuple(sorted(kw.keys()))
    try:
        for f in fmts:
            _utils.tokenparser(f, keys)
    except ValueError:
        return "err"
    except RecursionError:
        return "err Internal:RecursionError"
    except Exception as e:                                  # noqa: BLE001
        return "err " + err_name(e)
    return guarded(lambda: bitstring.pack(fmts if len(fmts) > 1 else fmts[0], *vals, **kw), wire)


# ------------------------------------------------------------------------------------------ independent reference codec
def ref_golomb(code, i):
    if code in ("ue", "uie") and i < 0:
        return None
    if code == "ue":
        b = bin(i + 1)[2:]
        return "0" * (len(b) - 1) + b
    if code == "se":
        return ref_golomb("ue", 2 * i - 1 if i > 0 else -2 * i)
    if code == "uie":
        b = bin(i + 1)[3:]
        return "".join("0" + d for d in b) + "1"
    if code == "sie":
        return "1" if i == 0 else ref_golomb("uie", abs(i)) + ("1" if i < 0 else "0")


def ref_enc(kind, L, canon):
    """bits of one token from its kind, unit length (None = not given) and canonical value — plain int/str arithmetic."""
    if kind == "pad":
        return "0" * (L or 0)
    if kind == "raw":
        return canon.bin
    if kind in INT_KINDS:
        n = L
        v = canon & ((1 << n) - 1)
        s = format(v, "0%db" % n)
        if kind in ("uintle", "intle"):
            s = "".join(reversed([s[i:i + 8] for i in range(0, n, 8)]))
        return s
    if kind == "hex":
        return "".join(format(int(c, 16), "04b") for c in canon)
    if kind == "oct":
        return "".join(format(int(c, 8), "03b") for c in canon)
    if kind == "bin":
        return canon
    if kind == "bits":
        return canon.bin
    if kind == "bool":
        return "1" if canon else "0"
    if kind == "bytes":
        return "".join(format(x, "08b") for x in canon)
    if kind in VAR_KINDS:
        return ref_golomb(kind, canon)
    raise ValueError(kind)


def spec_wire(atoms) -> str:
    """atoms: list of (kind, L, canonical value or None)"""
    if not atoms:
        return "-"
    return "|".join("%s:%s:%s" % (k, "-" if L is None else L, "-" if c is None else val_wire(c)) for (k, L, c) in atoms)


def spec_unwire(s):
    if s == "-":
        return []
    out = []
    for e in s.split("|"):
        k, L, c = e.split(":", 2)
        out.append((k, None if L == "-" else int(L), None if c == "-" else val_unwire(c)))
    return out


def spec_bits(atoms) -> str:
    return "".join(ref_enc(k, L, c) for (k, L, c) in atoms)


def spec_wellformed(atoms) -> bool:
    """fixed or self-delimiting tokens, at most one length-less token, nothing self-delimiting after it,
    nothing that unpack cannot name (literals / dictionary entries)"""
    seen = False
    for (k, L, c) in atoms:
        if k == "raw":
            return False
        if k in VAR_KINDS:
            if seen:
                return False
        elif L is None and k != "bool":
            if seen or k in INT_KINDS:
                return False
            seen = True
    return True


def spec_values(atoms):
    return [c for (k, L, c) in atoms if k != "pad"]


# ------------------------------------------------------------------------------------------ execute
_MEM_CAP = 3 << 30


def execute(line: str):
    """Runs the case with the address space capped at 3 GiB: a defect that shifts positional values (a token wrongly taken
    for a bare keyword token, a factor-0 group that consumes values) can hand a 64-bit integer to `Bits(n)`; that must end as
    a MemoryError of the call - an observable, undocumented outcome - not as the kernel killing the check."""
    import resource, gc
    soft, hard = resource.getrlimit(resource.RLIMIT_AS)
    capped = False
    try:
        if soft == resource.RLIM_INFINITY or soft > _MEM_CAP:
            resource.setrlimit(resource.RLIMIT_AS, (_MEM_CAP, hard)); capped = True
    except (ValueError, OSError):
        pass
    try:
        return _execute(line)
    except MemoryError:
        gc.collect()
        return "err Internal:MemoryError", {"memory_error": True}
    finally:
        if capped:
            try:
                resource.setrlimit(resource.RLIMIT_AS, (soft, hard))
            except (ValueError, OSError):
                pass


def _execute(line: str):
    f = line.split(SEP)
    op, extra = f[1], {}
    clear_caches()
    if op == "expand":
        s = unesc(f[2])
        return plain(lambda: _utils.expand_brackets(s), lambda r: esc(r) + "."), extra
    if op == "tok":
        fmt = unesc(f[2])
        keys = () if f[3] == "-" else tuple(f[3].split(";"))

        def tokwire(t):
            name, length, value = t
            ls = "~" if length is None else (str(length) if isinstance(length, int) else "k:" + esc(length))
            return esc(name) + "|" + ls + "|" + ("~" if value is None else esc(value))

        def lst(xs):
            return ";".join(xs) if xs else "-"
        try:
            pre = _utils.preprocess_tokens(fmt)
        except ValueError:
            return "err", extra
        except Exception as e:                              # noqa: BLE001
            return "err " + err_name(e), extra
        try:
            st, toks = _utils.tokenparser(fmt, keys)
        except ValueError:
            return "err", extra
        except Exception as e:                              # noqa: BLE001
            return "err " + err_name(e), extra
        return "ok " + lst([esc(p) for p in pre]) + (" 1 " if st else " 0 ") + lst([tokwire(t) for t in toks]), extra
    if op == "pack":
        fmt, kw, vals, u = unesc(f[2]), kw_unwire(f[3]), vals_unwire(f[4]), f[5]
        before = snapshot(vals, kw)
        out = pack_obs([fmt], vals, kw)
        extra["values_after"] = snapshot(vals, kw) == before
        if out.startswith("ok"):
            first = out
            # grow the first result: nothing the caller or the caches own may be reachable from it
            try:
                r0 = bitstring.pack(fmt, *vals, **kw)
                r0.append("0b1"); r0.prepend("0b1"); r0.invert()
            except Exception:                               # noqa: BLE001
                pass
            extra["values_after"] = extra["values_after"] and snapshot(vals, kw) == before
            try:
                s = bitstring.pack(fmt, *vals, **kw)           # identical call, caches warm: must be the same bits
                extra["again"] = "ok " + wire(s)
            except Exception as e:                              # noqa: BLE001
                s, extra["again"] = None, "err " + err_name(e)
            extra["values_after"] = extra["values_after"] and snapshot(vals, kw) == before
            b0 = unwire(first[3:])
            extra["len"] = len(s) if s is not None else None
            extra["cls"] = type(s).__name__
            if u == "1":
                t = mk("BitStream", b0)
                out += " U:" + plain(lambda: t.unpack(fmt, **kw), out_vals)
                extra["unpack_bits"] = plain(lambda: mk("Bits", b0).unpack(fmt, **kw), out_vals)
                extra["unpack_obj"] = plain(lambda: s.unpack(fmt, **kw), out_vals) if s is not None else "err no-object"
            # the same format given as a list of its top-level comma separated parts
            parts = split_top(fmt)
            if len(parts) > 1:
                cut = len(parts) // 2
                extra["as_list"] = pack_obs([",".join(parts[:cut]), ",".join(parts[cut:])], vals, kw)
                extra["as_list2"] = pack_obs([",".join(parts[:cut]), ",".join(parts[cut:])], vals, kw)
                extra["after_list"] = pack_obs([fmt], vals, kw)
        return out, extra
    if op == "comp":
        f1, f2, kw, v1, v2 = unesc(f[2]), unesc(f[3]), kw_unwire(f[4]), vals_unwire(f[5]), vals_unwire(f[6])
        out = pack_obs([f1 + "," + f2], v1 + v2, kw)
        clear_caches()
        before = snapshot(v1 + v2, kw)
        extra["p1"] = pack_obs([f1], v1, kw)
        extra["p2"] = pack_obs([f2], v2, kw)
        # list form, twice in a row with warm caches, then the first element alone: a format list must not leave
        # anything behind in the parser caches
        extra["as_list"] = pack_obs([f1, f2], v1 + v2, kw)
        extra["as_list2"] = pack_obs([f1, f2], v1 + v2, kw)
        extra["p1_after"] = pack_obs([f1], v1, kw)
        extra["p2_after"] = pack_obs([f2], v2, kw)
        extra["as_list3"] = pack_obs([f1, "", f2], v1 + v2, kw)
        extra["again"] = pack_obs([f1 + "," + f2], v1 + v2, kw)
        extra["values_after"] = snapshot(v1 + v2, kw) == before
        return out, extra
    if op == "rep":
        n, fmt, kw, vals = int(f[2]), unesc(f[3]), kw_unwire(f[4]), vals_unwire(f[5])
        out = pack_obs(["%d*(%s)" % (n, fmt)], vals * n, kw)
        clear_caches()
        before = snapshot(vals, kw)
        extra["written"] = pack_obs([",".join([fmt] * n)], vals * n, kw)
        extra["once"] = pack_obs([fmt], vals, kw)
        extra["again"] = pack_obs(["%d*(%s)" % (n, fmt)], vals * n, kw)
        extra["values_after"] = snapshot(vals, kw) == before
        return out, extra
    if op == "str":
        s, plainfmt, vals = unesc(f[2]), unesc(f[3]), vals_unwire(f[4])
        out = plain(lambda: Bits(s), wire)
        # mutable objects built from the same string must not reach the store the next Bits(s) is served from
        def grown():
            for cls in (BitArray, BitStream):
                m = cls(s); m.append("0b1"); m.invert()
            m = bitstring.pack(s); m.append("0b1"); m.invert()
            return Bits(s)
        extra["again"] = plain(grown, wire)
        clear_caches()
        extra["pack_str"] = plain(lambda: bitstring.pack(s), wire)
        extra["bitarray"] = plain(lambda: BitArray(s), wire)
        if plainfmt != "?":
            extra["separate"] = plain(lambda: bitstring.pack(plainfmt, *vals), wire)
        return out, extra
    if op == "unpack":
        fmt, kw, bits = unesc(f[2]), kw_unwire(f[3]), unwire(f[4])
        b = mk("Bits", bits)
        out = plain(lambda: b.unpack(fmt, **kw), out_vals)
        s = mk("BitStream", bits)
        extra["stream"] = plain(lambda: s.unpack(fmt, **kw), out_vals)
        extra["self_after"] = wire(b)
        return out, extra
    raise ValueError(line)


def split_top(fmt: str):
    """split a format at its top-level commas (independent of the library)"""
    parts, depth, cur = [], 0, []
    for c in fmt:
        if c == "(":
            depth += 1
        elif c == ")":
            depth -= 1
        if c == "," and depth == 0:
            parts.append("".join(cur)); cur = []
        else:
            cur.append(c)
    parts.append("".join(cur))
    return parts


# ------------------------------------------------------------------------------------------ oracle
def _expect_error(spec, out, what):
    if spec in ("!arity", "!size"):
        if out != "err ValueError":
            return f"{what}: {spec[1:]} error must raise CreationError (a ValueError), got {out}"
        return None
    if spec == "!format":
        if not out.startswith("err") or out.startswith("err Internal"):
            return f"{what}: malformed format must raise a documented error, got {out}"
        return None
    return "?"


def oracle(line: str, out: str, extra: dict):
    f = line.split(SEP)
    op = f[1]
    if extra.get("memory_error"):
        return f"{op} {unesc(f[2])!r}: the call exhausted the 3 GiB memory cap (MemoryError is not a documented outcome)"
    if op in ("expand", "tok"):
        exp = f[-1]
        if out.startswith("err Internal"):
            return f"{op}: undocumented exception {out}"
        if exp == "?":
            return None
        if exp == "!format":
            return None if out.startswith("err") else f"{op}: malformed input accepted: {out}"
        if out != exp:
            return f"{op} {unesc(f[2])!r}: expected {exp}, got {out}"
        return None
    spec = f[-1]
    if spec == "?":
        return None if not out.startswith("err Internal") else f"undocumented exception {out}"
    if spec.startswith("!"):
        if extra.get("values_after") is False:
            return "a failing pack changed a value passed by the caller"
        r = _expect_error(spec, out.split(" U:")[0], f"{op} {unesc(f[2])!r}")
        if r != "?":
            return r
        return None
    atoms = spec_unwire(spec)
    bits = spec_bits(atoms)
    exp = "ok " + wire(bits)
    if op == "pack":
        head, _, utail = out.partition(" U:")
        if head != exp:
            return f"pack {unesc(f[2])!r}: expected {exp} (concatenation of the per-token encodings), got {head}"
        if extra.get("len") != len(bits):
            return f"len(pack(...)) = {extra.get('len')}, sum of token lengths = {len(bits)}"
        if "as_list" in extra and extra["as_list"] != exp:
            return f"pack([f1, f2]) gives {extra['as_list']}, pack('f1,f2') gives {head}"
        if "as_list" in extra and (extra["as_list2"] != exp or extra["after_list"] != exp):
            return f"pack([f1, f2]) repeated gives {extra['as_list2']}, pack(fmt) afterwards {extra['after_list']}, expected {exp}"
        if extra.get("again") != exp:
            return f"the same pack call repeated gives {extra.get('again')}, first call gave {head}"
        if not extra.get("values_after"):
            return "pack changed a value passed by the caller (or a later identical call sees a grown value)"
        if f[5] == "1" and spec_wellformed(atoms):
            want = "ok " + out_vals(spec_values(atoms))
            if utail != want:
                return f"unpack(pack(values)) gives {utail}, expected {want}"
            if extra.get("unpack_bits") != want:
                return f"Bits(bin).unpack gives {extra.get('unpack_bits')}, expected {want}"
            if extra.get("unpack_obj") != want:
                return f"pack(...).unpack(fmt) gives {extra.get('unpack_obj')}, expected {want}"
        return None
    if op == "comp":
        if out != exp:
            return f"pack('f1,f2'): expected {exp}, got {out}"
        p1, p2 = extra["p1"], extra["p2"]
        if not (p1.startswith("ok ") and p2.startswith("ok ")):
            return f"pack(f1) = {p1}, pack(f2) = {p2} but the joined format packs"
        if "ok " + wire(unwire(p1[3:]) + unwire(p2[3:])) != out:
            return f"pack('f1,f2') = {out} is not pack(f1) + pack(f2) = {p1[3:]} + {p2[3:]}"
        if extra["as_list"] != out:
            return f"pack([f1, f2]) = {extra['as_list']} differs from pack('f1,f2') = {out}"
        if extra["as_list2"] != out or extra["as_list3"] != out:
            return f"pack([f1, f2]) repeated gives {extra['as_list2']} / with an empty item {extra['as_list3']}, first call gave {out}"
        if extra["p1_after"] != p1 or extra["p2_after"] != p2:
            return f"after pack([f1, f2]): pack(f1) = {extra['p1_after']} (before {p1}), pack(f2) = {extra['p2_after']} (before {p2})"
        if extra["again"] != out:
            return f"the same pack call repeated gives {extra['again']}, first call gave {out}"
        if not extra["values_after"]:
            return "pack changed a value passed by the caller"
        return None
    if op == "rep":
        n = int(f[2])
        if out != exp:
            return f"pack('{n}*({unesc(f[3])})'): expected {exp} (the format written {n} times), got {out}"
        if extra["written"] != exp:
            return f"the format written {n} times packs to {extra['written']}, expected {exp}"
        if not extra["once"].startswith("ok ") or "ok " + wire(unwire(extra["once"][3:]) * n) != exp:
            return f"pack(f) * {n} = {extra['once']} * {n} differs from {exp}"
        if extra["again"] != exp:
            return f"the same pack call repeated gives {extra['again']}, first call gave {out}"
        if not extra["values_after"]:
            return "pack changed a value passed by the caller"
        return None
    if op == "str":
        if out != exp:
            return f"Bits({unesc(f[2])!r}): expected {exp}, got {out}"
        for k in ("again", "pack_str", "bitarray", "separate"):
            if k in extra and extra[k] != exp:
                return f"route {k} gives {extra[k]}, Bits(token string) gives {out}"
        return None
    if op == "unpack":
        if unwire(f[4]) != bits:
            return "harness: unpack case bits differ from spec"
        if spec_wellformed(atoms):
            want = "ok " + out_vals(spec_values(atoms))
            if out != want:
                return f"unpack {unesc(f[2])!r}: expected {want}, got {out}"
            if extra["stream"] != want:
                return f"BitStream.unpack gives {extra['stream']}, Bits.unpack gives {out}"
        if extra["self_after"] != f[4]:
            return "unpack changed the bitstring"
        return None
    return "unknown op"


def nontrivial(line):
    f = line.split(SEP)
    return f[1] != "pack" or "," in unesc(f[2]) or "*" in f[2]


# ------------------------------------------------------------------------------------------ generators
class Leaf:
    """one written token: its text and the flat atoms it denotes.
    atom = dict(kind, L, fixed=(pyvalue, canon) or None, tok=(name, len, value) for the tokenparser expectation, pre=text after preprocess)"""
    __slots__ = ("text", "atoms", "unpackable", "lengthless", "variable")

    def __init__(self, text, atoms, unpackable, lengthless=False, variable=False):
        self.text, self.atoms, self.unpackable, self.lengthless, self.variable = text, atoms, unpackable, lengthless, variable


class Ctx:
    def __init__(self, rng):
        self.rng, self.kw, self.n = rng, {}, 0

    def key(self, v, own=None):
        """a fresh keyword name for the value `v`: an ordinary name, or — to tell a bare keyword token from a token that
        merely shares its name with a keyword — the name of a dtype / alias, preferably the one of the token it is used in"""
        k = None
        # (large integers keep ordinary names: an implementation that mistook such a token for a bare keyword token would
        # build BitStream(n) with n zero bits and exhaust the memory instead of producing a wrong answer)
        small = not (isinstance(v, int) and not isinstance(v, bool) and v > 4096)
        if small and self.rng.random() < 0.4:
            cand = own if (own is not None and self.rng.random() < 0.6) else self.rng.choice(DTYPE_KEYS)
            if cand not in self.kw:
                k = cand
        if k is None:
            k = "kw%s%d" % (self.rng.choice("abz_"), self.n)
        self.n += 1
        self.kw[k] = v
        return k


DTYPE_KEYS = ["uint", "u", "int", "i", "bin", "b", "hex", "h", "oct", "o", "bits", "bytes", "bool", "pad", "ue", "se", "uie", "sie",
              "uintbe", "intbe", "uintle", "intle", "uintne", "intne", "float"]


def ref_bitsctor(v):
    """bits of `BitStream(v)` for the values the generator puts into keyword dictionaries; None = not covered"""
    if isinstance(v, bool):
        return "0" * int(v)
    if isinstance(v, int):
        return "0" * v if 0 <= v <= 4096 else None
    if isinstance(v, Bits):
        return v.bin
    if isinstance(v, (bytes, bytearray)):
        return "".join(format(x, "08b") for x in bytes(v))
    if isinstance(v, str):
        if v == "":
            return ""
        body = v[2:]
        if v[:2] == "0b" and body and set(body) <= set("01"):
            return body
        if v[:2] == "0x" and body and set(body) <= set("0123456789abcdefABCDEF"):
            return "".join(format(int(c, 16), "04b") for c in body)
        if v[:2] == "0o" and body and set(body) <= set("01234567"):
            return "".join(format(int(c, 8), "03b") for c in body)
    return None


def leaves(nodes):
    for nd in nodes:
        if nd[0] == "leaf":
            yield nd[1]
        else:
            yield from leaves(nd[3])


def resolve_keys(nodes, ctx) -> bool:
    """The documented reading of keyword names, applied after all keywords of the format are known:
    a pre-processed token that is exactly a keyword name — and therefore has neither length nor value — is a bare keyword
    token standing for BitStream(kwargs[name]); a token that only shares its NAME with a keyword ('uint:8=uint', 'bin:bin',
    'u8' with a keyword u) stays an ordinary token.  False = the case would need a reading the reference does not cover."""
    for lf in leaves(nodes):
        for a in lf.atoms:
            name, tlen, vtxt = a["tok"]
            if a.get("emb") and vtxt in ctx.kw:
                return False                      # an embedded value text that happens to be a keyword name would be replaced
            if a["kind"] != "raw" and tlen is None and vtxt is None and name in ctx.kw:
                # neither length nor value (also when spelled `name:`): pack takes the keyword's bits
                b = ref_bitsctor(ctx.kw[name])
                if b is None:
                    return False
                # `parsed`: tokenparser saw an ordinary length-less token (sets stretchy) unless the text IS the keyword
                a.update(kind="raw", L=None, fixed=(None, Bits(bin=b) if b else Bits()), parsed=(a["pre"] != name))
    return True


def rand_int_in(rng, lo, hi):
    c = rng.random()
    if c < 0.35:
        return rng.choice([x for x in (lo, hi, 0, 1, -1, lo + 1, hi - 1, (lo + hi) // 2) if lo <= x <= hi])
    return rng.randint(lo, hi)


def draw_value(rng, kind, L):
    """(python value handed to pack, canonical value unpack must return)"""
    if kind in INT_KINDS:
        lo, hi = ((-(1 << (L - 1)), (1 << (L - 1)) - 1) if kind in SIGNED else (0, (1 << L) - 1))
        v = rand_int_in(rng, lo, hi)
        c = rng.random()
        if c < 0.85:
            return v, v
        if c < 0.9 and v in (0, 1):
            return bool(v), v
        s = str(v)
        c = rng.random()
        if c < 0.3:
            s = " " + s + "\n"
        elif c < 0.5 and v >= 0:
            s = "+" + s
        elif c < 0.7 and len(s) > 2 and v >= 0:
            s = s[0] + "_" + s[1:]
        elif c < 0.8 and v >= 0:
            s = "00" + s
        return s, v
    if kind in VAR_KINDS:
        # small values, power-of-two boundaries, and values whose codes are longer than a machine word / 64 / 128 bits
        v = rng.choice([0, 0, 1, 2, 3, 6, 7, 8, 255, 256, rng.getrandbits(rng.randint(1, 24)),
                        rng.getrandbits(rng.randint(25, 200)), 2 ** rng.choice([31, 32, 33, 63, 64, 65]) - rng.choice([0, 1, 2])])
        if kind in SIGNED and rng.random() < 0.5:
            v = -v
        return (v if rng.random() < 0.85 else str(v)), v
    if kind in STR_KINDS:
        per = {"hex": 4, "bin": 1, "oct": 3}[kind]
        n = (L // per) if L is not None else rng.choice([0, 0, 1, 2, 3, 5, 8])
        digits = {"hex": "0123456789abcdef", "bin": "01", "oct": "01234567"}[kind]
        canon = "".join(rng.choice(digits) for _ in range(n)) if rng.random() < 0.8 else rng.choice(digits[0] + digits[-1]) * n
        s = canon
        c = rng.random()
        if c < 0.2:
            s = {"hex": "0x", "bin": "0b", "oct": "0o"}[kind] + s
        elif c < 0.3:
            s = {"hex": "0X", "bin": "0B", "oct": "0O"}[kind] + s
        if kind == "hex" and rng.random() < 0.2:
            s = s.upper().replace("0X", "0x") if rng.random() < 0.5 else s.upper()
        if n > 1 and rng.random() < 0.15:
            k = rng.randint(1, len(s) - 1)
            s = s[:k] + rng.choice(["_", " ", "_ "]) + s[k:]
        return s, canon
    if kind == "bits":
        n = L if L is not None else rng.choice([0, 0, 1, 3, 8, 13])
        b = rand_bits(rng, n)
        canon = Bits(bin=b) if b else Bits()
        c = rng.random()
        if c < 0.45:
            return canon, canon
        if c < 0.55:
            return (BitArray(bin=b) if b else BitArray()), canon
        if c < 0.65 and n % 8 == 0:
            return bytes(int(b[i:i + 8], 2) for i in range(0, n, 8)), canon
        if c < 0.8 and n % 4 == 0 and n:
            return "0x" + "".join(format(int(b[i:i + 4], 2), "x") for i in range(0, n, 4)), canon
        if n:
            return "0b" + b, canon
        return canon, canon
    if kind == "bool":
        v = rng.random() < 0.5
        return rng.choice([v, v, int(v), str(v), str(int(v))]), v
    if kind == "bytes":
        n = L if L is not None else rng.choice([0, 0, 1, 2, 5])
        v = bytes(rng.choice([0, 0xff, rng.getrandbits(8)]) for _ in range(n))
        return v, v
    raise ValueError(kind)


def embed_text(rng, kind, pyval, canon):
    """text after `=` that denotes the same value (None if the kind has no textual spelling)"""
    if kind in INT_KINDS or kind in VAR_KINDS:
        return str(canon) if rng.random() < 0.8 or canon < 0 else "+" + str(canon)
    if kind in STR_KINDS:
        if not canon:
            return None
        return canon if rng.random() < 0.5 else {"hex": "0x", "bin": "0b", "oct": "0o"}[kind] + canon
    if kind == "bool":
        return rng.choice([str(canon), str(int(canon))])
    if kind == "bits":
        b = canon.bin
        if not b:
            return None
        if len(b) % 4 == 0 and rng.random() < 0.5:
            return "0x" + canon.hex
        return "0b" + b
    return None


LEN_CHOICES = [1, 2, 3, 4, 5, 7, 8, 9, 12, 15, 16, 17, 24, 31, 32, 33, 40, 63, 64, 65, 70]


def gen_leaf(rng, ctx, mode, allow_lengthless):
    """mode 'u' = only tokens unpack can name; 'm' = anything"""
    c = rng.random()
    # ---- struct group
    if c < 0.12:
        e = rng.choice("<>@=")
        groups, atoms = [], []
        for _ in range(rng.randint(1, 3)):
            code = rng.choice("bBhHlLiIqQ")
            cnt = rng.choice([None, None, None, 1, 2, 3, 0])
            groups.append(("" if cnt is None else str(cnt)) + code)
            size = {"b": 8, "h": 16, "l": 32, "i": 32, "q": 64}[code.lower()]
            signed = code.islower()
            if size == 8:
                kind, name = ("int" if signed else "uint"), ("int" if signed else "uint")
            else:
                en = {"<": "le", ">": "be", "@": "ne", "=": "ne"}[e]
                name = ("int" if signed else "uint") + en
                kind = ("int" if signed else "uint") + ("be" if en == "be" else "le")
            for _ in range(1 if cnt is None else cnt):
                atoms.append(dict(kind=kind, L=size, fixed=None, tok=(name, size, None), pre=name + str(size)))
        return Leaf(e + "".join(groups), atoms, True)
    if mode == "m":
        # ---- literal
        if c < 0.2:
            k = rng.choice(["hex", "bin", "oct"])
            n = rng.randint(1, 6)
            digits = {"hex": "0123456789abcdefABCDEF", "bin": "01", "oct": "01234567"}[k]
            v = "".join(rng.choice(digits) for _ in range(n))
            pre = {"hex": "0x", "bin": "0b", "oct": "0o"}[k]
            if rng.random() < 0.2:
                pre = pre.upper()
            bits = ref_enc(k, None, v.lower())
            return Leaf(pre + v, [dict(kind="raw", L=None, fixed=(None, Bits(bin=bits)), tok=(pre, None, v), pre=pre + v, emb=True)], False)
        # ---- dictionary name
        if c < 0.25:
            b = rand_bits(rng, rng.choice([0, 1, 4, 8, 11]))
            canon = Bits(bin=b) if b else Bits()
            pv = rng.choice([canon, ("0b" + b) if b else "", BitArray(canon)])
            k = ctx.key(pv)
            return Leaf(k, [dict(kind="raw", L=None, fixed=(None, canon), tok=(k, None, None), pre=k)], False)
    # ---- ordinary token
    kind = rng.choice(["uint", "uint", "int", "int", "uintbe", "intbe", "uintle", "intle", "hex", "hex", "bin", "oct", "bits", "bits",
                       "bool", "bool", "bytes", "pad", "ue", "se", "uie", "sie"])
    name = rng.choice(ALIASES.get(kind, [kind]))
    L, lengthless = None, False
    if kind in VAR_KINDS:
        pass
    elif kind == "bool":
        L = 1 if rng.random() < 0.25 else None
    elif allow_lengthless and kind not in INT_KINDS and rng.random() < 0.5:
        lengthless = True
    elif kind in ("uintbe", "intbe", "uintle", "intle"):
        L = rng.choice([8, 16, 24, 32, 40, 64, 72])
    elif kind == "bytes":
        L = rng.choice([0, 1, 1, 2, 3, 5])
    elif kind == "hex":
        L = 4 * rng.choice([0, 1, 1, 2, 3, 4, 8, 16])
    elif kind == "oct":
        L = 3 * rng.choice([0, 1, 1, 2, 3, 5])
    elif kind in ("bits", "bin", "pad"):
        L = rng.choice([0] + LEN_CHOICES)
    else:
        L = rng.choice(LEN_CHOICES)
    # length spelling
    tlen = L
    if L is None:
        ltxt = "" if rng.random() < 0.85 or kind in VAR_KINDS or kind == "bool" else ":"
    else:
        c2 = rng.random()
        if c2 < 0.4:
            ltxt = ":%d" % L
        elif c2 < 0.75:
            ltxt = "%d" % L
        elif c2 < 0.8:
            ltxt = ":0%d" % L
        else:
            kv = L if rng.random() < 0.8 else str(L)
            k = ctx.key(kv, own=name)
            ltxt, tlen = ":" + k, "k:" + k
    # bare number spelling for bits
    if kind == "bits" and L is not None and ltxt[1:].isdigit() and rng.random() < 0.3:
        text, tname = ltxt.lstrip(":"), "bits"
        tlen = int(text)
    else:
        text, tname = name + ltxt, name
    bitlen = None if L is None else L * UNIT.get(kind, 1)
    if kind == "bool":
        bitlen = 1
    specL = None if L is None and kind != "bool" else (1 if kind == "bool" else L)
    if kind == "pad":
        vtxt = None
        if mode == "m" and rng.random() < 0.1:
            vtxt = "1"
        atom = dict(kind="pad", L=L, fixed=(None, None), tok=(tname, tlen, vtxt), pre=text + ("=" + vtxt if vtxt else ""), emb=vtxt is not None)
        return Leaf(atom["pre"], [atom], vtxt is None, lengthless, False)
    fixed, vtxt = None, None
    if mode == "m" and rng.random() < 0.45:
        pyval, canon = draw_value(rng, kind, 1 if kind == "bool" else L)
        emb = False
        if rng.random() < 0.6:
            vtxt = embed_text(rng, kind, pyval, canon)
            if vtxt is not None:
                fixed, emb = (None, canon), True
        if fixed is None:
            vtxt = ctx.key(pyval, own=tname)
            fixed = (None, canon)
    else:
        emb = False
    atom = dict(kind=kind, L=specL, fixed=fixed, tok=(tname, tlen, vtxt), pre=text + ("=" + vtxt if vtxt else ""), emb=emb)
    return Leaf(atom["pre"], [atom], fixed is None, lengthless, kind in VAR_KINDS)


def atom_len_arg(atom):
    """length argument for draw_value: bits for int/str kinds, units for bytes"""
    k, L = atom["kind"], atom["L"]
    if L is None:
        return None
    return L


def gen_tree(rng, ctx, mode, depth, allow_lengthless, zero_ok=True):
    """list of nodes: ('leaf', Leaf, factor|None, factor text) | ('group', factor|None, factor text, children)"""
    nodes = []
    for _ in range(rng.choice([1, 1, 2, 2, 3, 4] if depth else [1, 2, 3, 4, 5, 6])):
        c = rng.random()
        if depth < 3 and c < (0.3 if depth == 0 else 0.2):
            fac = None
            if rng.random() < 0.7:
                fac = rng.choice([0, 1, 1, 2, 2, 2, 2, 3, 3, 4, 4] if zero_ok else [1, 2, 2, 3, 4])
            ftxt = None if fac is None else (str(fac) if rng.random() < 0.9 else "0" + str(fac))
            if fac == 0:
                # keep positional values out of 0*(…) groups: if an implementation under test consumed values for them (the
                # fixed zero-bracket-factor defect), a shifted value could turn into a gigantic `Bits(n)` / `bytes(n)` allocation
                ch = []
                for _ in range(rng.randint(1, 3)):
                    for _ in range(30):
                        lf = gen_leaf(rng, ctx, mode, False)
                        if all(a["fixed"] is not None for a in lf.atoms):
                            break
                    else:
                        L = rng.choice([0, 1, 3, 8])
                        lf = Leaf("pad:%d" % L, [dict(kind="pad", L=L, fixed=(None, None), tok=("pad", L, None), pre="pad:%d" % L)], True)
                    ch.append(("leaf", lf, None, None))
                nodes.append(("group", fac, ftxt, ch))
            else:
                nodes.append(("group", fac, ftxt, gen_tree(rng, ctx, mode, depth + 1, False, zero_ok)))
        else:
            fac = None
            if rng.random() < 0.2:
                fac = rng.choice([0, 1, 2, 3, 4])
            ftxt = None if fac is None else rng.choice([str(fac), str(fac), "0" + str(fac), "+" + str(fac)])
            lf = gen_leaf(rng, ctx, mode, allow_lengthless and fac is None)
            nodes.append(("leaf", lf, fac, ftxt))
    return nodes


def render(nodes, rng=None):
    parts = []
    for nd in nodes:
        if nd[0] == "leaf":
            _, lf, fac, ftxt = nd
            parts.append(lf.text if fac is None else ftxt + "*" + lf.text)
        else:
            _, fac, ftxt, ch = nd
            inner = render(ch, rng)
            parts.append("(" + inner + ")" if fac is None else ftxt + "*(" + inner + ")")
        if rng is not None and rng.random() < 0.03:
            parts.append("")                                  # empty meta token: `a,,b`
    return ",".join(parts)


def flatten(nodes):
    """SPEC flattening: n*(f) and n*tok are f / tok written n times"""
    out = []
    for nd in nodes:
        if nd[0] == "leaf":
            _, lf, fac, _ = nd
            out += lf.atoms * (1 if fac is None else fac)
        else:
            _, fac, _, ch = nd
            out += flatten(ch) * (1 if fac is None else fac)
    return out


def has_zero_group(nodes):
    return any(nd[0] == "group" and (nd[1] == 0 or has_zero_group(nd[3])) for nd in nodes)


def expand_ref(nodes):
    """what expand_brackets must return for the rendered tree (brackets gone, `n*tok` kept)"""
    parts = []
    for nd in nodes:
        if nd[0] == "leaf":
            _, lf, fac, ftxt = nd
            parts.append(lf.text if fac is None else ftxt + "*" + lf.text)
        else:
            _, fac, _, ch = nd
            inner = expand_ref(ch)
            parts.append(inner if fac is None else ",".join([inner] * fac))
    return ",".join(parts)


def inject_ws(rng, s):
    if rng.random() < 0.5:
        return s
    out = []
    for ch in s:
        if rng.random() < 0.08:
            out.append(rng.choice([" ", " ", "  ", "\t", "\n"]))
        out.append(ch)
        if ch == "," and rng.random() < 0.4:
            out.append(" ")
    return "".join(out)


def instantiate(rng, atoms):
    """draw positional values for the flat atoms → (values, spec atoms)"""
    vals, spec = [], []
    for a in atoms:
        k, L = a["kind"], a["L"]
        if k == "pad":
            spec.append(("pad", L, None)); continue
        if a["fixed"] is not None:
            spec.append((k, L, a["fixed"][1])); continue
        pv, canon = draw_value(rng, k, L)
        vals.append(pv)
        spec.append((k, L, canon))
    return vals, spec


def tok_expect(atoms, keys):
    pre = [esc(a["pre"]) for a in atoms]
    toks, st = [], False
    for a in atoms:
        name, tlen, v = a["tok"]
        if a["kind"] == "raw" and tlen is None and v is None:          # dictionary name
            if a.get("parsed"):
                st = True
            toks.append(esc(name) + "|~|~"); continue
        if a["kind"] == "raw":
            toks.append(esc(name) + "|~|" + esc(v)); continue
        if tlen is None:
            st = True
        toks.append(esc(name) + "|" + ("~" if tlen is None else str(tlen)) + "|" + ("~" if v is None else esc(v)))
    j = lambda xs: ";".join(xs) if xs else "-"
    return "ok " + j(pre) + (" 1 " if st else " 0 ") + j(toks)


def wellformed_tree(rng, ctx, mode):
    """a tree whose flat list has at most one length-less token, with only fixed-length tokens after it"""
    nodes = gen_tree(rng, ctx, mode, 0, False)
    if rng.random() < 0.45:
        # append: one length-less token, then fixed-length tokens only
        for _ in range(20):
            lf = gen_leaf(rng, ctx, mode, True)
            if lf.lengthless:
                break
        else:
            return nodes
        tail = []
        for _ in range(rng.choice([0, 0, 1, 2, 3])):
            for _ in range(20):
                t = gen_leaf(rng, ctx, mode, False)
                if not t.variable and not t.lengthless:
                    fac = rng.choice([None, None, 2])
                    tail.append(("leaf", t, fac, None if fac is None else str(fac)))
                    break
        nodes = nodes + [("leaf", lf, None, None)] + tail
        if rng.random() < 0.2:
            nodes = [("group", rng.choice([None, 1]), "1", nodes)]
    return nodes


def case_pack(rng, mode, zero_ok=True):
    ctx = Ctx(rng)
    if mode == "x":                                              # unpackable tokens, but length-less ones anywhere
        nodes = gen_tree(rng, ctx, "u", 0, True, zero_ok)
        mode = "u"
    elif not zero_ok:
        nodes = gen_tree(rng, ctx, mode, 0, False, False)
    else:
        nodes = wellformed_tree(rng, ctx, mode)
    if not resolve_keys(nodes, ctx):
        return None
    atoms = flatten(nodes)
    if len(atoms) > 60:
        return None
    vals, spec = instantiate(rng, atoms)
    fmt = inject_ws(rng, render(nodes, rng))
    u = "1" if all(a["fixed"] is None or a["kind"] == "pad" and a["tok"][2] is None for a in atoms) and all(a["kind"] != "raw" for a in atoms) else "0"
    return nodes, ctx, fmt, vals, spec, u


def gen_malformed(rng, n):
    good = ["uint:8", "hex:8", "bool", "int4", "bits:3", "bytes:2", "ue", "pad:2", "<h"]
    gv = {"uint:8": 5, "hex:8": "ab", "bool": True, "int4": -3, "bits:3": Bits("0b101"), "bytes:2": b"ab", "ue": 4, "<h": 7}
    for _ in range(n):
        c = rng.random()
        toks = [rng.choice(good) for _ in range(rng.randint(1, 4))]
        vals = [gv[t] for t in toks if t in gv]
        if c < 0.25:                                             # arity
            if rng.random() < 0.5 and vals:
                vals2 = vals[:rng.randint(0, len(vals) - 1)]
            else:
                vals2 = vals + [rng.choice([0, "1", True, b"", Bits()])] * rng.randint(1, 2)
            fmt = ",".join(toks)
            if rng.random() < 0.3:
                k = rng.randint(1, 3)
                fmt, vals2 = "%d*(%s)" % (k, fmt), (vals * k + [1]) if rng.random() < 0.5 else (vals * k)[:-1] if vals else [1]
            yield SEP.join(["C05", "pack", esc(fmt), "-", vals_wire(vals2), "0", "!arity"])
        elif c < 0.55:                                           # wrong size
            bad = rng.choice([("uint:8", 256), ("uint:8", -1), ("uint:1", 2), ("int:8", 128), ("int:8", -129), ("int4", 8), ("uint:64", 1 << 64),
                              ("intle:16", 1 << 15), ("uintbe:16", 1 << 16), ("<h", 40000), (">B", 256), ("<b", -129), ("=Q", -1),
                              ("hex:8", "f"), ("hex:8", "fff"), ("hex4", ""), ("bin:3", "01"), ("bin:3", "0101"), ("oct:6", "7"), ("oct3", "77"),
                              ("bits:5", Bits("0b1010")), ("bits:5", "0b101010"), ("bits:0", Bits("0b1")), ("8", Bits("0b1")), ("bytes:2", b"abc"), ("bytes:2", b"a"),
                              ("bytes1", b""), ("ue", -1), ("uie", -5), ("bool", 2), ("bool", "yes"), ("bool", -1),
                              ("uint:n", 256), ("hex:n", "f"), ("uint:8=256", None), ("hex:8=f", None), ("bits:3=0b1", None), ("int:4=8", None)])
            i = rng.randint(0, len(toks))
            toks2 = toks[:i] + [bad[0]] + toks[i:]
            vals2 = [gv[t] for t in toks[:i] if t in gv] + ([bad[1]] if bad[1] is not None else []) + [gv[t] for t in toks[i:] if t in gv]
            kw = {"n": 8} if ":n" in bad[0] else {}
            yield SEP.join(["C05", "pack", esc(inject_ws(rng, ",".join(toks2))), kw_wire(kw), vals_wire(vals2), "0", "!size"])
        elif c < 0.8:                                            # malformed format
            bad = rng.choice(["2*(uint:8", "uint:8)", "((uint:8)", "(uint:8))", ")(", "(", "x*(uint:8)", "*(uint:8)", "2*3*uint:8", "*uint:8", "uint:8*", "1.5*uint:8",
                              "a*uint:8", "foo:8", "uintx:8", "uint:8:8", "uint::8", "uint8x", "ue:8", "ue8", "bool:2", "bool0", "uintle:12", "intbe7", "hex:7", "oct:4",
                              "uintn", "uint:m", "=5", "uint:8=", "<", "<x", "<2", "%h", "<h=1", "8=3", "q", "0y12", "uint:-8", "2*(a", "-1*(uint:8)",
                              "uint", "int", "uintbe", "uint:0", "int0", "intle0"])
            i = rng.randint(0, len(toks))
            toks2 = toks[:i] + [bad] + toks[i:]
            extra = [] if bad in ("<", "(", ")(") or "=" in bad and bad not in ("=5",) else [1]
            vals2 = [gv[t] for t in toks[:i] if t in gv] + extra + [gv[t] for t in toks[i:] if t in gv]
            kw = {"n": 8} if rng.random() < 0.5 else {}
            yield SEP.join(["C05", "pack", esc(",".join(toks2)), kw_wire(kw), vals_wire(vals2), "0", "!format"])
            if rng.random() < 0.5:
                tokbad = bad in ("2*(uint:8", "((uint:8)", "(", "x*(uint:8)", "*(uint:8)", "2*3*uint:8", "*uint:8", "uint:8*", "1.5*uint:8", "a*uint:8", "uint:8:8",
                                 "uint::8", "uint:m", "=5", "<", "<x", "<2", "%h", "<h=1", "0y12", "uint:-8", "2*(a", "-1*(uint:8)", "uint:8)", "(uint:8))", ")(")
                if tokbad:
                    yield SEP.join(["C05", "tok", esc(",".join(toks2)), "n" if kw else "-", "!format"])
        else:                                                    # bracket strings straight into expand_brackets
            alphabet = ["(", ")", ",", "a", "b", "2", "3", "0", "*", "12"]
            s = "".join(rng.choice(alphabet) for _ in range(rng.randint(1, 10)))
            depth, bal = 0, True
            for ch in s:
                depth += (ch == "(") - (ch == ")")
                if depth < 0:
                    bal = False
            # more opening than closing brackets → "Unbalanced parenthesis"; what happens to other garbage is not the
            # property's business and is not observed
            if s.count("(") > s.count(")"):
                yield SEP.join(["C05", "expand", esc(s), "!format"])


def gen(rng, tier):
    big = tier != "quick"
    N = 9 if big else 1
    # ---- 1. exhaustive small: every kind × small lengths × length spelling, single token, boundary values
    for kind in ("uint", "int"):
        for L in range(1, 10 if not big else 18):
            lo, hi = ((-(1 << (L - 1)), (1 << (L - 1)) - 1) if kind == "int" else (0, (1 << L) - 1))
            for v in sorted({lo - 1, lo, lo + 1, -1, 0, 1, hi - 1, hi, hi + 1}):
                for sp in (f"{kind}:{L}", f"{kind}{L}", f"{kind[0]}{L}"):
                    ok = lo <= v <= hi
                    spec = spec_wire([(kind, L, v)]) if ok else "!size"
                    yield SEP.join(["C05", "pack", sp, "-", vals_wire([v]), "1" if ok else "0", spec])
                yield SEP.join(["C05", "pack", f"{kind}:n", kw_wire({"n": L}), vals_wire([v]), "1" if lo <= v <= hi else "0",
                                spec_wire([(kind, L, v)]) if lo <= v <= hi else "!size"])
                if lo <= v <= hi:
                    yield SEP.join(["C05", "str", f"{kind}:{L}={v}", f"{kind}:{L}", vals_wire([v]), spec_wire([(kind, L, v)])])
    for e in "<>@=":
        for code in "bBhHlLiIqQ":
            size = {"b": 8, "h": 16, "l": 32, "i": 32, "q": 64}[code.lower()]
            kind = ("int" if code.islower() else "uint") + ("" if size == 8 else ("be" if e == ">" else "le"))
            lo, hi = ((-(1 << (size - 1)), (1 << (size - 1)) - 1) if code.islower() else (0, (1 << size) - 1))
            for v in (lo - 1, lo, -1, 0, 1, 258, hi, hi + 1):
                ok = lo <= v <= hi
                yield SEP.join(["C05", "pack", esc(e + code), "-", vals_wire([v]), "1" if ok else "0", spec_wire([(kind, size, v)]) if ok else "!size"])
            for cnt in (0, 1, 2, 3):
                vs = [rng.randint(lo, hi) for _ in range(cnt)]
                yield SEP.join(["C05", "pack", esc(f"{e}{cnt}{code}B"), "-", vals_wire(vs + [7]), "1", spec_wire([(kind, size, v) for v in vs] + [("uint", 8, 7)])])
    # a factor directly on a struct-style token repeats the whole group: 3*<hb = h,b,h,b,h,b
    codes = "bBhHlLiIqQ"
    for e in "<>@=":
        for c1 in codes:
            for c2 in codes:
                if c1 == c2 or (not big and rng.random() < 0.6):
                    continue
                for n in (2, 3):
                    def ks(code):
                        size = {"b": 8, "h": 16, "l": 32, "i": 32, "q": 64}[code.lower()]
                        kind = ("int" if code.islower() else "uint") + ("" if size == 8 else ("be" if e == ">" else "le"))
                        lo, hi = ((-(1 << (size - 1)), (1 << (size - 1)) - 1) if code.islower() else (0, (1 << size) - 1))
                        return kind, size, rand_int_in(rng, lo, hi)
                    cnt = rng.choice(["", "", "2"])
                    grp = [c1] * (2 if cnt else 1) + [c2]
                    atoms = [ks(c) for _ in range(n) for c in grp]
                    fmt = "%d*%s%s%s%s" % (n, e, cnt, c1, c2)
                    yield SEP.join(["C05", "pack", esc(fmt), "-", vals_wire([a[2] for a in atoms]), "1", spec_wire(atoms)])
                    if rng.random() < 0.3:
                        pre = [("int" if c.islower() else "uint") + ("" if c.lower() == "b" else {"<": "le", ">": "be", "@": "ne", "=": "ne"}[e])
                               + str({"b": 8, "h": 16, "l": 32, "i": 32, "q": 64}[c.lower()]) for _ in range(n) for c in grp]
                        toks = [p.rstrip("0123456789") + "|" + p[len(p.rstrip("0123456789")):] + "|~" for p in pre]
                        yield SEP.join(["C05", "tok", esc(fmt), "-", "ok " + ";".join(pre) + " 0 " + ";".join(toks)])
    # n*(f) vs f written n times, small formats, every n in 0..4
    for n in range(0, 5):
        for _ in range(60 * N):
            r = case_pack(rng, rng.choice("um"), zero_ok=False)
            if r is None:
                continue
            nodes, ctx, fmt, vals, spec, u = r
            if len(spec) * max(n, 1) > 60:
                continue
            yield SEP.join(["C05", "rep", str(n), esc(fmt), kw_wire(ctx.kw), vals_wire(vals), spec_wire(spec * n)])
    # ---- 2. grammar-generated formats
    for _ in range(9000 * N):
        mode = rng.choice("uuuuummmx")
        r = case_pack(rng, mode)
        if r is None:
            continue
        nodes, ctx, fmt, vals, spec, u = r
        yield SEP.join(["C05", "pack", esc(fmt), kw_wire(ctx.kw), vals_wire(vals), u, spec_wire(spec)])
        c = rng.random()
        if c < 0.35:
            atoms = flatten(nodes)
            yield SEP.join(["C05", "tok", esc(fmt), ";".join(sorted(ctx.kw)) if ctx.kw else "-", tok_expect(atoms, ctx.kw)])
        elif c < 0.5:
            s = render(nodes)
            yield SEP.join(["C05", "expand", esc(s), "ok " + esc(expand_ref(nodes)) + "."])
        elif c < 0.7 and u == "1":
            # unpack with an independently spelled format of the same flat token list
            bits = spec_bits(spec)
            yield SEP.join(["C05", "unpack", esc(fmt), kw_wire(ctx.kw), wire(bits), spec_wire(spec)])
    # ---- 3. compositionality: every split of a token list into two formats
    for _ in range(500 * N):
        ctx = Ctx(rng)
        mode = rng.choice("um")
        nodes = gen_tree(rng, ctx, mode, 1, False, zero_ok=False)
        if len(flatten(nodes)) > 40 or not resolve_keys(nodes, ctx):
            continue
        for cut in range(0, len(nodes) + 1):
            a, b = nodes[:cut], nodes[cut:]
            v1, s1 = instantiate(rng, flatten(a))
            v2, s2 = instantiate(rng, flatten(b))
            yield SEP.join(["C05", "comp", esc(inject_ws(rng, render(a))), esc(inject_ws(rng, render(b))), kw_wire(ctx.kw), vals_wire(v1), vals_wire(v2),
                            spec_wire(s1 + s2)])
    # ---- 4. token strings with embedded values = pack with the values separately
    for _ in range(1500 * N):
        k = rng.randint(1, 5)
        embs, plains, vals, spec = [], [], [], []
        for _ in range(k):
            kind = rng.choice(["uint", "int", "hex", "bin", "oct", "bool", "bits", "ue", "se", "uie", "sie", "uintbe", "intle", "pad", "lit"])
            if kind == "pad":
                L = rng.choice([0, 1, 3, 8])
                embs.append(f"pad:{L}"); plains.append(f"pad:{L}"); spec.append(("pad", L, None)); continue
            if kind == "lit":
                v = "".join(rng.choice("0123456789abcdef") for _ in range(rng.randint(1, 4)))
                embs.append("0x" + v); plains.append("hex"); vals.append(v); spec.append(("hex", None, v)); continue
            if kind in ("uintbe", "intle"):
                L = rng.choice([8, 16, 24])
            elif kind == "hex":
                L = 4 * rng.randint(0, 4)
            elif kind == "oct":
                L = 3 * rng.randint(0, 4)
            elif kind in VAR_KINDS or kind == "bool":
                L = None
            else:
                L = rng.choice([1, 3, 8, 9, 16])
            lengthless = kind in ("hex", "bin", "oct", "bits") and rng.random() < 0.4
            pv, canon = draw_value(rng, kind, 1 if kind == "bool" else L)
            t = embed_text(rng, kind, pv, canon)
            if t is None:
                continue
            head = kind + ("" if L is None or lengthless else rng.choice([":%d", "%d"]) % L)
            embs.append(head + "=" + t); plains.append(head); vals.append(pv)
            spec.append((kind, None if (lengthless or kind in VAR_KINDS) else (1 if kind == "bool" else L), canon))
        if not embs:
            continue
        yield SEP.join(["C05", "str", esc(inject_ws(rng, ",".join(embs))), esc(",".join(plains)), vals_wire(vals), spec_wire(spec)])
    # ---- 5. malformed stream
    yield from gen_malformed(rng, 2500 * N)


def model_line(line):
    """the model does not see the oracle's <spec>/<expected> field"""
    f = line.split(SEP)
    return SEP.join(f[:-1])
