"""C02 — value <-> bits round trip, canonical encoding, agreement of all creation and reading routes.

lines (fields TAB separated; <bo> = sys.byteorder as seen by the library, so that the model can resolve the *ne aliases):
  C02 enc    <bo> <name> <len|None> <value>        -> seven tokens: kw nameLen prop propLen token build pack
  C02 dec    <bo> <name> <len|None> <bits>         -> five tokens:  prop propLen parse unpack read
  C02 readat <bo> <name> <len|None> <bits> <pos>   -> ok <value> <newpos> | err
  C02 table  <bo> <name>                           -> ok <definition name> <multiplier> <allowed lengths> <set_fn takes length>

tokens: E = raised, ~ = route does not exist for this case, = = same as the first token, nan = a NaN pattern/value,
        otherwise the bits (enc) / the value (dec).
values: ints decimal; hex/oct/bin `s<escaped text>`; floats the 16 hex digits of the binary64 pattern;
        bool `T`/`F` (Python bools), `i<int>`, `s<text>`; bytes `x<hex>`; bits 0/1 (`-` empty); pad `None`.
"""
from harness.common import *
import struct, sys, itertools
from fractions import Fraction

FUNCTIONAL = True
LEVEL_TEXT = ("Lean theorems (all lengths, all values, no bound): two's complement encode/decode are mutually inverse on exactly the documented range; "
              "little-endian = byte reversal of big-endian, byte reversal is an involution and reads as sum(byte_i * 256^i); hex/oct/bin are one digit per 4/3/1 bits "
              "and parse(print(bits)) = bits; every one of the seven creation routes (keyword+length, name-with-length, property, property-with-length, token string, "
              "Dtype.build, pack), transcribed with the validation each really performs, returns exactly the canonical encoding on every valid (dtype, length, value), "
              "and every one of the five reading routes (property, property-with-length, Dtype.parse, unpack, read) returns the specified value on every pattern of a valid length "
              "(at any position of a stream, advancing by exactly its length); whenever any route that is given a length succeeds, on any input, the result has exactly that many bits; "
              "encode(decode(pattern)) = pattern (NaN excepted) and decode(encode(value)) = value per dtype; IEEE 754 binary16/32/64/bfloat as exact dyadics: "
              "round-to-nearest-even encode is a left inverse of decode on all non-NaN patterns (so decode is injective there) and widening to binary64 is exact. "
              "Correspondence: every dtype and alias x lengths 1..130, 256, 512, 1000 x boundary and random values, every bit pattern up to 10 bits, all routes x all four classes, "
              "all 65536 half and bfloat patterns and all half rounding midpoints (thorough; stratified sample in quick), random single/double patterns incl. subnormals, zeros, infinities, NaN.")
LEVEL_NOTE = ("PARTIAL for floats: CPython's struct (binary64 -> binary16/32 rounding, OverflowError rule) and float(repr(x)) are C code the model cannot exhibit; the model's "
              "round-to-nearest-even on exact dyadics is tied to them by the differential run only (plus an exact-Fraction oracle). Trusted: Lean kernel (+propext, Classical.choice, "
              "Quot.sound); bitarray int2ba/ba2int/hex2ba/ba2hex/base2ba/tobytes/frombytes modelled by their documented list meaning; dtype table transcribed by hand and "
              "compared with the live register on every run (table lines); transcription of the Python tied by the differential run only. "
              "Former deviation (keyword / name-with-length creation did not compare the result with the requested length for hex/oct/bin/bits/bytes<n>) "
              "was fixed in /repo by b88b583; its witness runs on every check (known_findings.d/C02.json, status fixed).")
TECHNIQUE = "Lean 4 proof (bit-list arithmetic, byte-group induction, exact-dyadic IEEE rounding) + exhaustive small-domain and boundary correspondence over all routes and classes"

BO = sys.byteorder

# name -> (definition name, family)
NAMES = {
    "uint": "uint", "u": "uint", "int": "int", "i": "int",
    "uintbe": "uintbe", "intbe": "intbe", "uintle": "uintle", "intle": "intle",
    "uintne": "uintle" if BO == "little" else "uintbe", "intne": "intle" if BO == "little" else "intbe",
    "hex": "hex", "h": "hex", "oct": "oct", "o": "oct", "bin": "bin", "b": "bin",
    "float": "float", "floatbe": "float", "f": "float", "floatle": "floatle",
    "floatne": "floatle" if BO == "little" else "float",
    "bfloat": "bfloat", "bfloatbe": "bfloat", "bfloatle": "bfloatle",
    "bfloatne": "bfloatle" if BO == "little" else "bfloat",
    "bits": "bits", "bool": "bool", "bytes": "bytes", "pad": "pad",
}
INTK = ("uint", "int", "uintbe", "intbe", "uintle", "intle")
STRK = {"hex": (4, "0x", "0123456789abcdef"), "oct": (3, "0o", "01234567"), "bin": (1, "0b", "01")}
FLTK = ("float", "floatle", "bfloat", "bfloatle")
# reference copy of the dtype table (what the documentation says), compared with the live register by `table` lines
TABLE = {
    "uint": "uint 1 () True", "int": "int 1 () True",
    "uintbe": "uintbe 1 (8,16,...) True", "intbe": "intbe 1 (8,16,...) True",
    "uintle": "uintle 1 (8,16,...) True", "intle": "intle 1 (8,16,...) True",
    "hex": "hex 1 (0,4,...) True", "oct": "oct 1 (0,3,...) True", "bin": "bin 1 () True",
    "float": "float 1 (16,32,64) True", "floatle": "floatle 1 (16,32,64) True",
    "bfloat": "bfloat 1 (16) True", "bfloatle": "bfloatle 1 (16) True",
    "bits": "bits 1 () True", "bool": "bool 1 (1) False", "bytes": "bytes 8 () True", "pad": "pad 1 () True",
}


# ------------------------------------------------------------------------------------------------ wire helpers
def esc(s: str) -> str:
    return "".join(c if (33 <= ord(c) <= 126 and c != "%") else "%%%02x" % ord(c) for c in s)


def unesc(s: str) -> str:
    out, i = [], 0
    while i < len(s):
        if s[i] == "%":
            out.append(chr(int(s[i + 1:i + 3], 16))); i += 3
        else:
            out.append(s[i]); i += 1
    return "".join(out)


def f64_of_pattern(p: int) -> float:
    return struct.unpack(">d", p.to_bytes(8, "big"))[0]


def pattern_of_f64(x: float) -> int:
    return int.from_bytes(struct.pack(">d", x), "big")


def optlen(s):
    return None if s == "None" else int(s)


def parse_value(fam: str, v: str):
    """(python value for the direct routes, text for the token route or None if it has no spelling)"""
    if fam in INTK:
        return int(v), v
    if fam in STRK:
        t = unesc(v[1:])
        return t, t
    if fam in FLTK:
        x = f64_of_pattern(int(v, 16))
        return x, repr(x)
    if fam == "bool":
        if v == "T":
            return True, "True"
        if v == "F":
            return False, "False"
        if v[0] == "i":
            return int(v[1:]), v[1:]
        return unesc(v[1:]), unesc(v[1:])
    if fam == "bytes":
        return bytes.fromhex(v[1:]), None
    if fam == "bits":
        b = unwire(v)
        return b, "0b" + b if b else ""
    if fam == "pad":
        return None, None
    raise ValueError(fam)


def is_nan_bits(fam: str, bits: str) -> bool:
    n = len(bits)
    if fam in ("floatle", "bfloatle") and n % 8 == 0:
        bits = "".join(reversed([bits[i:i + 8] for i in range(0, n, 8)]))
    if fam in ("float", "floatle"):
        em = {16: (5, 10), 32: (8, 23), 64: (11, 52)}.get(n)
    else:
        em = (8, 7) if n == 16 else None
    if em is None:
        return False
    e, m = bits[1:1 + em[0]], bits[1 + em[0]:]
    return "0" not in e and "1" in m


def val_token(v) -> str:
    if v is None:
        return "None"
    if isinstance(v, bool):
        return "True" if v else "False"
    if isinstance(v, int):
        return str(v)
    if isinstance(v, float):
        return "nan" if v != v else "%016x" % pattern_of_f64(v)
    if isinstance(v, str):
        return "s" + esc(v)
    if isinstance(v, (bytes, bytearray)):
        return "x" + bytes(v).hex()
    if isinstance(v, Bits):
        return wire(v)
    return "?" + type(v).__name__


def tok(thunk, fmt) -> str:
    try:
        return fmt(thunk())
    except RecursionError:
        return "E!RecursionError"
    except Exception:                      # noqa: BLE001 — C02 names no exception class: every one is `E`
        return "E"


def merge(tokens) -> str:
    """All variants (classes, spellings) of one route must agree."""
    s = set(tokens)
    if len(s) == 1:
        return tokens[0]
    return "DIFF[" + "|".join(tokens) + "]"


def compress(tokens) -> str:
    return " ".join([tokens[0]] + ["=" if t == tokens[0] else t for t in tokens[1:]])


def expand(out: str):
    t = out.split(" ")
    return [t[0]] + [t[0] if x == "=" else x for x in t[1:]]


ROUTES = ("kw", "nameLen", "prop", "propLen", "token", "build", "pack")
# Mutable classes first: a store shared with a cache is only handed to a mutable object as long as no Bits() has flagged
# it immutable, so this is the order in which an aliasing defect shows.
ORDER = ("BitArray", "BitStream", "ConstBitStream", "Bits")
READERS = ("prop", "propLen", "parse", "unpack", "read")


# ------------------------------------------------------------------------------------------------ execute
def execute(line: str):
    f = line.split(SEP)
    op = f[1]
    if op == "enc":
        return _exec_enc(f)
    if op == "dec":
        return _exec_dec(f)
    if op == "readat":
        name, ln, bits, pos = f[3], optlen(f[4]), unwire(f[5]), int(f[6])
        fmt = name if ln is None else f"{name}:{ln}"
        extra = {}
        res = []
        for cls in ("ConstBitStream", "BitStream"):
            s = CLASSES[cls](bin=bits, pos=pos) if bits else CLASSES[cls]()
            r = tok(lambda: (s.read(fmt), s.pos), lambda r: f"ok {val_token(r[0])} {r[1]}")
            res.append("err" if r.startswith("E") else r)
            extra["pos_after_" + cls] = s.pos
            extra["bits_after_" + cls] = s.bin
        return merge(res), extra
    if op == "table":
        name = f[3]
        def look():
            d = bitstring.dtypes.dtype_register.names[name]
            al = d.allowed_lengths.values
            als = "(" + ",".join("..." if a is Ellipsis else str(a) for a in al) + ")"
            return f"ok {d.name} {d.multiplier} {als} {d.set_fn_needs_length}".replace("True", "true").replace("False", "false")
        try:
            return look(), {}
        except KeyError:
            return "unknown", {}
    raise ValueError(line)


def _exec_enc(f):
    name, ln, fam = f[3], optlen(f[4]), NAMES[f[3]]
    v, tv = parse_value(fam, f[5])
    mult = 8 if fam == "bytes" else 1
    bitlen = None if ln is None else ln * mult
    extra = {}

    def fmt(b):
        s = b.bin
        return "nan" if (fam in FLTK and is_nan_bits(fam, s)) else wire(s)

    made = []                               # mutable results, mutated at the end

    def keep(o):
        if isinstance(o, BitArray):
            made.append(o)
        return o

    def vv():
        # a fresh value object per call where the value is itself a bitstring (no sharing between routes)
        return Bits(bin=v) if (fam == "bits" and v) else (Bits() if fam == "bits" else v)

    res = {}
    # -- keyword with length=
    def kw(cls):
        if ln is None:
            return keep(CLASSES[cls](**{name: vv()}))
        return keep(CLASSES[cls](**{name: vv()}, length=bitlen if fam == "bytes" else ln))
    res["kw"] = merge([tok(lambda c=c: kw(c), fmt) for c in ORDER])
    # -- keyword with the length in the name
    if ln is None:
        res["nameLen"] = "~"
    else:
        res["nameLen"] = merge([tok(lambda c=c: keep(CLASSES[c](**{f"{name}{ln}": vv()})), fmt) for c in ORDER])
    # -- property assignment on a mutable object that already has the dtype's bit length
    def prop(cls, attr, cur):
        a = CLASSES[cls](cur) if cur else CLASSES[cls]()
        setattr(a, attr, vv())
        return keep(a)
    res["prop"] = merge([tok(lambda c=c: prop(c, name, bitlen or 0), fmt) for c in MUTABLE])
    if ln is None:
        res["propLen"] = "~"
    else:
        res["propLen"] = merge([tok(lambda c=c, k=k: prop(c, f"{name}{ln}", k), fmt) for c in MUTABLE for k in (0, 3)])
    # -- token string
    if fam == "bytes":
        res["token"] = "~"
    else:
        spell = []
        if fam == "pad":
            spell = [name if ln is None else f"{name}:{ln}", name if ln is None else f"{name}{ln}"]
        elif ln is None:
            spell = [f"{name}={tv}", f" {name} = {tv}"]
        else:
            spell = [f"{name}:{ln}={tv}", f"{name}{ln}={tv}"]
        ts = [tok(lambda c=c, s=s: keep(CLASSES[c](s)), fmt) for s in spell for c in ORDER]
        ts.append(tok(lambda: keep(bitstring.pack(spell[0])), fmt))
        ts.append(tok(lambda: keep(BitArray.fromstring(spell[0])), fmt))
        res["token"] = merge(ts)
    # -- Dtype.build
    def build(d):
        r = d().build(vv())
        if type(r) is not Bits:
            raise AssertionError("build returned " + type(r).__name__)
        return r
    ds = [lambda: bitstring.Dtype(name, ln)] if ln is not None else [lambda: bitstring.Dtype(name)]
    if ln is not None:
        ds.append(lambda: bitstring.Dtype(f"{name}{ln}"))
        ds.append(lambda: bitstring.Dtype(f"{name}:{ln}"))
    bl = [tok(lambda d=d: build(d), fmt) for d in ds]
    if fam == "bits":
        # the value may be a bitstring of any class: the built object is always a (new, immutable) Bits
        def build_from(d, c):
            src = CLASSES[c](bin=v) if v else CLASSES[c]()
            r = d().build(src)
            if type(r) is not Bits or r is src:
                raise AssertionError(f"build({c}) returned {type(r).__name__}" + (" (the value itself)" if r is src else ""))
            if isinstance(src, BitArray):
                src.append("0b1"); src.invert()                      # a later change of the source must not show
            return r
        bl += [tok(lambda d=d, c=c: build_from(d, c), fmt) for d in ds for c in CLASS_NAMES]
    res["build"] = merge(bl)
    # -- pack
    pf = name if ln is None else f"{name}:{ln}"
    if fam == "pad":
        res["pack"] = tok(lambda: keep(bitstring.pack(pf)), fmt)
    else:
        ps = [tok(lambda: keep(bitstring.pack(pf, vv())), fmt),
              tok(lambda: keep(bitstring.pack([pf], vv())), fmt),
              # value (and length) supplied through keyword arguments named in the format
              tok(lambda: keep(bitstring.pack(pf + "=v_", v_=vv())), fmt)]
        # the list form with two format strings (twice the encoding), then the single string again: the parse of a format
        # string must not depend on an earlier list-form call that started with it
        def twice():
            r = bitstring.pack([pf, pf], vv(), vv())
            h = len(r) // 2
            if len(r) % 2 or r[:h] != r[h:]:
                raise AssertionError("pack([f, f], v, v) is not the encoding twice")
            return keep(r[:h])
        ps.append(tok(twice, fmt))
        ps.append(tok(lambda: keep(bitstring.pack(pf, vv())), fmt))
        if ln is not None:
            ps.append(tok(lambda: keep(bitstring.pack(f"{name}:n_=v_", n_=ln, v_=vv())), fmt))
            ps.append(tok(lambda: keep(bitstring.pack(f"{name}:n_", vv(), n_=ln)), fmt))
        res["pack"] = merge(ps)
    toks = [res[r] for r in ROUTES]
    # read the primary result back through the plain property (value round trip)
    try:
        o = kw("Bits")
        extra["len"] = len(o)
        extra["back"] = tok(lambda: getattr(o, name), val_token)
    except Exception:                       # noqa: BLE001
        extra["len"] = None
    # results must not depend on what is done to earlier mutable results: mutate them all, build again
    for m in made:
        try:
            m.append("0b1"); m.invert()
        except Exception:                   # noqa: BLE001
            pass
    again = [tok(lambda: kw("Bits"), fmt)]
    if res["token"] != "~":
        s0 = (name if ln is None else f"{name}:{ln}") if fam == "pad" else (f"{name}={tv}" if ln is None else f"{name}:{ln}={tv}")
        again.append(tok(lambda: Bits(s0), fmt))
        extra["again_first"] = [res["kw"], res["token"]]
    else:
        extra["again_first"] = [res["kw"]]
    extra["again"] = again
    return compress(toks), extra


def _exec_dec(f):
    name, ln, bits, fam = f[3], optlen(f[4]), unwire(f[5]), NAMES[f[3]]
    fmt_s = name if ln is None else f"{name}:{ln}"
    extra = {}
    res = {}
    objs = {c: mk(c, bits) for c in CLASS_NAMES}
    res["prop"] = merge([tok(lambda c=c: getattr(objs[c], name), val_token) for c in CLASS_NAMES])
    if ln is None:
        res["propLen"] = "~"
    else:
        res["propLen"] = merge([tok(lambda c=c: getattr(objs[c], f"{name}{ln}"), val_token) for c in CLASS_NAMES])
    ds = [lambda: bitstring.Dtype(name, ln)] if ln is not None else [lambda: bitstring.Dtype(name)]
    if ln is not None:
        ds.append(lambda: bitstring.Dtype(f"{name}{ln}"))
    res["parse"] = merge([tok(lambda c=c, d=d: d().parse(objs[c]), val_token) for c in ("Bits", "BitStream") for d in ds])

    def one(l):
        if len(l) == 0:
            return None
        if len(l) != 1:
            raise AssertionError("unpack returned %d values" % len(l))
        return l[0]
    ups = [tok(lambda c=c: one(objs[c].unpack(fmt_s)), val_token) for c in CLASS_NAMES]
    ups.append(tok(lambda: one(objs["Bits"].unpack([fmt_s])), val_token))
    if ln is not None:
        ups.append(tok(lambda: one(objs["Bits"].unpack(f"{name}{ln}")), val_token))
    res["unpack"] = merge(ups)
    rds, others = [], []
    for c in ("ConstBitStream", "BitStream"):
        s = mk(c, bits)
        rds.append(tok(lambda: s.read(fmt_s), val_token))
        extra["pos_" + c] = s.pos
        s2 = mk(c, bits)
        others.append(tok(lambda: one(s2.readlist(fmt_s)), val_token))
        s3 = mk(c, bits)
        others.append(tok(lambda: s3.peek(fmt_s), val_token))
    res["read"] = merge(rds)
    extra["readlist_peek"] = others
    extra["unchanged"] = all(objs[c].bin == bits for c in CLASS_NAMES)
    # rebuild from the value the property returned (pattern round trip)
    try:
        val = getattr(objs["Bits"], name)
        if fam == "pad":
            extra["rebuilt"] = None
        elif fam in ("hex", "oct", "bin", "bits", "bytes", "bool", "bfloat", "bfloatle"):
            extra["rebuilt"] = tok(lambda: Bits(**{name: val}), wire)
        else:
            extra["rebuilt"] = tok(lambda: Bits(**{name: val}, length=len(bits)), wire)
        extra["value_is_nan"] = isinstance(val, float) and val != val
    except Exception:                       # noqa: BLE001
        extra["rebuilt"] = None
    return compress([res[r] for r in READERS]), extra


# ------------------------------------------------------------------------------------------------ independent reference
def ref_round(p64: int, E: int, M: int):
    """binary64 pattern -> pattern of the (E, M) format, round to nearest even on exact Fractions; 'nan' for NaN."""
    s, e, m = p64 >> 63, (p64 >> 52) & 0x7FF, p64 & ((1 << 52) - 1)
    sign = s << (E + M)
    inf = ((1 << E) - 1) << M
    if e == 0x7FF:
        return "nan" if m else sign | inf
    x = Fraction(m, 1 << 52) * Fraction(2) ** (-1022) if e == 0 else (1 + Fraction(m, 1 << 52)) * Fraction(2) ** (e - 1023)
    if x == 0:
        return sign
    bias = (1 << (E - 1)) - 1
    t = x.numerator.bit_length() - x.denominator.bit_length()      # floor(log2 x) is t or t-1
    if Fraction(2) ** t > x:
        t -= 1
    assert Fraction(2) ** t <= x < Fraction(2) ** (t + 1)
    t = max(t, 1 - bias)
    k = x / Fraction(2) ** (t - M)
    n = k.numerator // k.denominator
    rem = k - n
    if rem > Fraction(1, 2) or (rem == Fraction(1, 2) and n % 2 == 1):
        n += 1
    if n == 1 << (M + 1):
        t, n = t + 1, 1 << M
    if n < (1 << M):
        return sign | n
    if t + bias >= (1 << E) - 1:
        return sign | inf
    return sign | ((t + bias) << M) | (n - (1 << M))


def ref_value(bits: str, E: int, M: int):
    """pattern of an (E, M) format -> exact Fraction | 'nan' | ('inf', sign); sign of zero kept as ('zero', sign)."""
    s, e, m = int(bits[0]), int(bits[1:1 + E], 2), int(bits[1 + E:], 2)
    bias = (1 << (E - 1)) - 1
    if e == (1 << E) - 1:
        return "nan" if m else ("inf", s)
    if e == 0 and m == 0:
        return ("zero", s)
    x = Fraction(m, 1 << M) * Fraction(2) ** (1 - bias) if e == 0 else (1 + Fraction(m, 1 << M)) * Fraction(2) ** (e - bias)
    return -x if s else x


def ref_widen(bits: str, E: int, M: int) -> str:
    """value token of the Python float a pattern denotes."""
    v = ref_value(bits, E, M)
    if v == "nan":
        return "nan"
    if isinstance(v, tuple):
        s = v[1] << 63
        return "%016x" % (s | (0x7FF << 52 if v[0] == "inf" else 0))
    s = 1 << 63 if v < 0 else 0
    x = abs(v)
    t = x.numerator.bit_length() - x.denominator.bit_length()
    if Fraction(2) ** t > x:
        t -= 1
    if t < -1022:
        mant = x / Fraction(2) ** (-1074)
        assert mant.denominator == 1
        return "%016x" % (s | int(mant))
    mant = (x / Fraction(2) ** t - 1) * (1 << 52)
    assert mant.denominator == 1
    return "%016x" % (s | ((t + 1023) << 52) | int(mant))


def byterev(bits: str) -> str:
    return "".join(reversed([bits[i:i + 8] for i in range(0, len(bits), 8)]))


def ref_digits(fam: str, text: str):
    """canonical digit string of a plainly valid hex/oct/bin value, None if it has a foreign character,
    'unspec' for spellings the documentation does not cover (a prefix that is not at the front)."""
    w, prefix, digits = STRK[fam]
    t = "".join(text.split()).replace("_", "").lower()
    if t.startswith(prefix):
        t = t[2:]
    if all(c in digits for c in t):
        return t
    if all(c in digits + prefix[1] for c in t):
        return "unspec"
    return None


def ref_encode(fam: str, ln, v: str):
    """('valid', bits | 'nan') | ('invalid', natural bit length or None) | ('unspec',)"""
    if fam in INTK:
        i = int(v)
        if ln is None or ln == 0 or (fam not in ("uint", "int") and ln % 8):
            return ("invalid", None)
        signed = fam.startswith("int")
        lo, hi = (-(1 << (ln - 1)), (1 << (ln - 1)) - 1) if signed else (0, (1 << ln) - 1)
        if not lo <= i <= hi:
            return ("invalid", None)
        if fam in ("uint", "int"):
            return ("valid", format(i & ((1 << ln) - 1), "0%db" % ln))
        by = i.to_bytes(ln // 8, "little" if fam.endswith("le") else "big", signed=signed)
        return ("valid", "".join(format(x, "08b") for x in by))
    if fam in STRK:
        w = STRK[fam][0]
        t = ref_digits(fam, unesc(v[1:]))
        if t == "unspec":
            return ("unspec",)
        if t is None:
            return ("invalid", None)
        bits = "".join(format(int(c, 16), "0%db" % w) for c in t)
        if ln is not None and ln != len(bits):
            return ("invalid", len(bits))
        return ("valid", bits)
    if fam in FLTK:
        p = int(v, 16)
        if fam in ("float", "floatle"):
            if ln not in (16, 32, 64):
                return ("invalid", None)
            E, M = {16: (5, 10), 32: (8, 23), 64: (11, 52)}[ln]
            r = ref_round(p, E, M)
            if r == "nan":
                return ("valid", "nan")
            bits = format(r, "0%db" % ln)
        else:
            if ln not in (16, None):
                return ("invalid", 16)
            r = ref_round(p, 8, 23)
            if r == "nan":
                return ("valid", "nan")
            bits = format(r, "032b")[:16]
        return ("valid", byterev(bits) if fam.endswith("le") else bits)
    if fam == "bool":
        ok1, ok0 = ("T", "i1", "sTrue", "s1"), ("F", "i0", "sFalse", "s0")
        if v not in ok1 + ok0:
            return ("invalid", None)
        if ln not in (None, 1):
            return ("invalid", 1)
        return ("valid", "1" if v in ok1 else "0")
    if fam == "bytes":
        data = bytes.fromhex(v[1:])
        bits = "".join(format(x, "08b") for x in data)
        if ln is not None and ln != len(data):
            return ("invalid", len(bits))
        return ("valid", bits)
    if fam == "bits":
        b = unwire(v)
        if ln is not None and ln != len(b):
            return ("invalid", len(b))
        return ("valid", b)
    if fam == "pad":
        return ("valid", "0" * (ln or 0))
    raise ValueError(fam)


def valid_len(fam: str, n: int) -> bool:
    if fam in ("uint", "int"):
        return n > 0
    if fam in ("uintbe", "intbe", "uintle", "intle"):
        return n > 0 and n % 8 == 0
    if fam == "hex":
        return n % 4 == 0
    if fam == "oct":
        return n % 3 == 0
    if fam in ("float", "floatle"):
        return n in (16, 32, 64)
    if fam in ("bfloat", "bfloatle"):
        return n == 16
    if fam == "bool":
        return n == 1
    if fam == "bytes":
        return n % 8 == 0
    return True


def ref_decode(fam: str, bits: str) -> str:
    """value token of a pattern of a valid length"""
    n = len(bits)
    if fam in ("uint", "uintbe"):
        return str(int(bits, 2))
    if fam in ("int", "intbe"):
        u = int(bits, 2)
        return str(u - (1 << n) if bits[0] == "1" else u)
    if fam in ("uintle", "intle"):
        by = int(bits, 2).to_bytes(n // 8, "big")
        return str(int.from_bytes(by, "little", signed=fam == "intle"))
    if fam in STRK:
        w = STRK[fam][0]
        return "s" + "".join("%x" % int(bits[i:i + w], 2) for i in range(0, n, w))
    if fam in ("float", "floatle"):
        E, M = {16: (5, 10), 32: (8, 23), 64: (11, 52)}[n]
        return ref_widen(byterev(bits) if fam == "floatle" else bits, E, M)
    if fam in ("bfloat", "bfloatle"):
        return ref_widen((byterev(bits) if fam == "bfloatle" else bits) + "0" * 16, 8, 23)
    if fam == "bits":
        return wire(bits)
    if fam == "bool":
        return "True" if bits == "1" else "False"
    if fam == "bytes":
        return "x" + (int(bits, 2).to_bytes(n // 8, "big").hex() if n else "")
    if fam == "pad":
        return "None"
    raise ValueError(fam)


def third_opinion(fam, ln, v):
    """struct / int.to_bytes / format — used only to say in a message which side is off."""
    try:
        if fam in ("float", "floatle"):
            x = f64_of_pattern(int(v, 16))
            c = {16: "e", 32: "f", 64: "d"}[ln]
            try:
                b = struct.pack((">" if fam == "float" else "<") + c, x)
            except OverflowError:
                b = struct.pack((">" if fam == "float" else "<") + c, float("inf") if x > 0 else float("-inf"))
            return "".join(format(y, "08b") for y in b)
    except Exception:                       # noqa: BLE001
        pass
    return None


# ------------------------------------------------------------------------------------------------ oracle
def back_token(fam: str, ln, v: str, bits: str):
    """what reading the canonical encoding back must give (the value in canonical form)"""
    if fam in INTK:
        return str(int(v))
    if fam in STRK:
        return "s" + ref_digits(fam, unesc(v[1:]))
    if fam in FLTK:
        return None if bits == "nan" else ref_decode(fam, bits)      # value after rounding = what the pattern denotes
    if fam == "bool":
        return "True" if bits == "1" else "False"
    if fam == "bytes":
        return "x" + v[1:].lower()
    if fam == "bits":
        return v
    return "None"


def oracle(line: str, out: str, extra: dict):
    f = line.split(SEP)
    op = f[1]
    if op == "table":
        fam = NAMES.get(f[3])
        exp = "unknown" if fam is None else "ok " + TABLE[fam].replace("True", "true").replace("False", "false")
        return None if out == exp else f"dtype table entry {f[3]}: expected {exp}, got {out}"
    name, ln, fam = f[3], optlen(f[4]), NAMES[f[3]]
    if "DIFF[" in out:
        return f"classes / spellings of one route disagree: {out}"
    if "!" in out:
        return f"undocumented failure: {out}"
    if op == "enc":
        toks = expand(out)
        ref = ref_encode(fam, ln, f[5])
        if extra.get("again") != extra.get("again_first"):
            return f"after mutating earlier mutable results the same creation gives {extra.get('again')} instead of {extra.get('again_first')}"
        if ref[0] == "valid":
            exp = ref[1] if ref[1] == "nan" else wire(ref[1])
            for r, t in zip(ROUTES, toks):
                if t == "~" or (r == "prop" and fam == "pad"):
                    continue
                if t != exp:
                    third = third_opinion(fam, ln, f[5])
                    return (f"{name} len={ln} value={f[5]}: route {r} gives {t}, canonical encoding is {exp}"
                            + (f" (struct gives {third})" if third else ""))
            bt = back_token(fam, ln, f[5], ref[1])
            if bt is not None and extra.get("back") != bt:
                return f"{name} len={ln} value={f[5]}: reading the built bits back gives {extra.get('back')}, expected {bt}"
            return None
        if ref[0] == "invalid":
            mult = 8 if fam == "bytes" else 1
            for r, t in zip(ROUTES, toks):
                if t in ("~", "E") or r == "prop" or ln is None:
                    continue
                n = 0 if t == "-" else (ln * mult if t == "nan" else len(t))
                if n != ln * mult:
                    return f"{name} len={ln} value={f[5]}: route {r} succeeded with {n} bits although {ln * mult} were requested"
            return None
        return None
    if op == "dec":
        bits = unwire(f[5])
        toks = expand(out)
        mult = 8 if fam == "bytes" else 1
        if not extra.get("unchanged", True):
            return "reading changed the bitstring"
        if valid_len(fam, len(bits)) and (ln is None or ln * mult == len(bits)):
            exp = ref_decode(fam, bits)
            for r, t in zip(READERS, toks):
                if t == "~":
                    continue
                if t != exp:
                    return f"{wire(bits)} as {name} len={ln}: reading route {r} gives {t}, the pattern denotes {exp}"
            if fam != "pad" and not extra.get("value_is_nan") and extra.get("rebuilt") != wire(bits):
                return f"{wire(bits)} as {name}: rebuilding from the value read gives {extra.get('rebuilt')}"
            for c in ("ConstBitStream", "BitStream"):
                if extra.get("pos_" + c) != len(bits):
                    return f"read of the whole {len(bits)} bits left pos at {extra.get('pos_' + c)}"
            for t in extra.get("readlist_peek", []):
                if t != exp:
                    return f"{wire(bits)} as {name} len={ln}: readlist / peek gives {t}, the pattern denotes {exp}"
        return None
    if op == "readat":
        bits, pos = unwire(f[5]), int(f[6])
        mult = 8 if fam == "bytes" else 1
        n = (len(bits) - pos) if ln is None else ln * mult
        for c in ("ConstBitStream", "BitStream"):
            if extra.get("bits_after_" + c) != bits:
                return "reading changed the bitstring"
        if ln is None and fam == "bytes" and n % 8:
            return None
        if valid_len(fam, n) and pos + n <= len(bits):
            exp = f"ok {ref_decode(fam, bits[pos:pos + n])} {pos + n}"
            if out != exp:
                return f"read {name} len={ln} at {pos} of {wire(bits)}: expected {exp}, got {out}"
        elif pos + n > len(bits):
            if out != "err":
                return f"read of {n} bits with only {len(bits) - pos} available gives {out}"
            for c in ("ConstBitStream", "BitStream"):
                if extra.get("pos_after_" + c) != pos:
                    return f"failed read moved pos from {pos} to {extra.get('pos_after_' + c)}"
        return None
    return "unknown op"


REGIONS = {}


def nontrivial(line: str) -> bool:
    f = line.split(SEP)
    return f[1] != "table"


# ------------------------------------------------------------------------------------------------ generators
def L(*fields) -> str:
    return SEP.join(("C02",) + tuple(str(x) for x in fields))


INT_NAMES = {"uint": ("uint", "u"), "int": ("int", "i"), "uintbe": ("uintbe",), "intbe": ("intbe",),
             "uintle": ("uintle", "uintne") if BO == "little" else ("uintle",),
             "intle": ("intle", "intne") if BO == "little" else ("intle",)}
if BO != "little":
    INT_NAMES["uintbe"] = ("uintbe", "uintne"); INT_NAMES["intbe"] = ("intbe", "intne")
STR_NAMES = {"hex": ("hex", "h"), "oct": ("oct", "o"), "bin": ("bin", "b")}
FLT_NAMES = ("float", "floatbe", "f", "floatle", "floatne")
BFL_NAMES = ("bfloat", "bfloatbe", "bfloatle", "bfloatne")

F16 = (5, 10); F32 = (8, 23); F64 = (11, 52)


def _int_values(rng, fam, n):
    signed = fam.startswith("int")
    lo, hi = (-(1 << (n - 1)), (1 << (n - 1)) - 1) if signed else (0, (1 << n) - 1)
    vals = [0, 1, -1, lo, hi, lo - 1, hi + 1, rng.randint(lo, hi), rng.randint(lo, hi)]
    if n > 8:
        vals.append(rng.choice([1, -1]) * (1 << rng.randint(0, n - 1)))
        vals.append(rng.choice([255, 256, 0x0102, -256, -255, 0x80, -0x80]))
    return vals


def _half_to_f64(h: int) -> int:
    return int(ref_widen(format(h, "016b"), 5, 10), 16)


def _special_doubles():
    out = [0x0, 1 << 63, 0x7FF << 52, 0xFFF << 52, 0x7FF8 << 48, 0xFFF8 << 48, (0x7FF << 52) | 1, (0x7FF << 52) | (1 << 51) | 12345,
           0x3FF << 52, 0xBFF << 52, 1, (1 << 63) | 1, (1 << 52) - 1, 1 << 52, (0x7FE << 52) | ((1 << 52) - 1), (0xFFE << 52) | ((1 << 52) - 1)]
    for x in (65504.0, 65519.99, 65520.0, 65520.01, 65536.0, -65520.0, -65519.0, 1e5, -1e5, 2.0 ** -24, 2.0 ** -25, 2.0 ** -25 * 1.0000001, 2.0 ** -26,
              3 * 2.0 ** -25, 2.0 ** -14, 2.0 ** -14 - 2.0 ** -25, 2.0 ** -14 - 2.0 ** -26, 3.4028234663852886e38, 3.4028235677973366e38, 3.4028235677973362e38,
              3.402823567797337e38, -3.4028235677973366e38, 1e39, -1e39, 1e308, -1e308, 2.0 ** -149, 2.0 ** -150, 2.0 ** -150 * 1.0000001, 2.0 ** -151, 2.0 ** -126,
              2.0 ** -126 - 2.0 ** -150, 1.0 + 2.0 ** -11, 1.0 + 2.0 ** -10 + 2.0 ** -11, 1.0 + 2.0 ** -24, 1.0 + 2.0 ** -23 + 2.0 ** -24, 0.1, -0.1, 1 / 3, 3.141592653589793,
              1.0 + 2.0 ** -8, 1.0 + 2.0 ** -7 + 2.0 ** -8, 1.0 + 2.0 ** -8 + 2.0 ** -30, 3.3895313892515355e38, 3.39e38, 5e-324, -5e-324):
        out.append(pattern_of_f64(x))
    return out


def _rand_double(rng, target):
    """a binary64 pattern whose value is interesting for a target format (E, M): in range, near a tie, subnormal, overflowing"""
    E, M = target
    bias = (1 << (E - 1)) - 1
    k = rng.random()
    s = rng.getrandbits(1) << 63
    if k < 0.05:
        return rng.getrandbits(64)
    lo, hi = 1 - bias - M - 2, bias + 2
    e = rng.randint(lo, hi) + 1023
    e = min(max(e, 0), 0x7FE)
    if k < 0.45:
        m = rng.getrandbits(52)
    elif k < 0.85 and M < 52:
        # a value within one binary64 ulp of a rounding tie of the target format
        top = rng.getrandbits(M) << (52 - M)
        m = top | (1 << (51 - M))
        m += rng.choice([0, 0, 1, -1])
        m &= (1 << 52) - 1
    else:
        m = rng.choice([0, (1 << 52) - 1, 1, rng.getrandbits(M if M < 52 else 52) << (52 - M if M < 52 else 0)])
    return s | (e << 52) | m


def _band_doubles(rng, big):
    """binary64 patterns around the overflow and underflow thresholds of binary16 / binary32: strictly between the largest
    finite value and the tie that first rounds to infinity, the tie itself, just beyond; likewise around half the smallest subnormal."""
    out = []
    for (mx, tie) in ((65504.0, 65520.0), (3.4028234663852886e38, 3.4028235677973366e38)):
        a, b = pattern_of_f64(mx), pattern_of_f64(tie)
        pts = {a, a + 1, a + 2, b - 2, b - 1, b, b + 1, b + 2, (a + b) // 2}
        pts |= {rng.randrange(a + 1, b) for _ in range(60 if big else 14)}
        pts |= {rng.randrange(b, b + (b - a)) for _ in range(20 if big else 4)}
        out += sorted(pts)
    for (sub) in (2.0 ** -24, 2.0 ** -149):
        h = pattern_of_f64(sub / 2)
        lo, hi = pattern_of_f64(sub / 4), pattern_of_f64(sub)
        pts = {h - 1, h, h + 1, lo, hi - 1, hi, hi + 1, pattern_of_f64(sub * 1.5), pattern_of_f64(sub * 1.5) - 1, pattern_of_f64(sub * 1.5) + 1}
        pts |= {rng.randrange(lo, hi) for _ in range(40 if big else 8)}
        out += sorted(pts)
    return out


def gen(rng, tier):
    big = tier != "quick"
    # ---- dtype table
    for n in list(NAMES) + ["uint8", "floatbe16", "nope"]:
        yield L("table", BO, n)

    # ---- integers: every length, boundary values
    for fam, names in INT_NAMES.items():
        if fam in ("uint", "int"):
            lens = list(range(1, 131)) + [256, 512, 1000]
        else:
            lens = list(range(8, 137, 8)) + [256, 512, 1000]
        for n in lens:
            name = names[n % len(names)]
            for v in _int_values(rng, fam, n):
                yield L("enc", BO, name, n, v)
        # invalid lengths for the dtype
        for n in ([None, 0] + ([] if fam in ("uint", "int") else [1, 4, 7, 9, 12, 15, 17, 63, 65])):
            for v in (0, 1, -1):
                yield L("enc", BO, names[0], n, v)
    for _ in range(20000 if big else 3000):
        fam = rng.choice(list(INT_NAMES))
        n = rng.choice([rng.randint(1, 130), rng.randint(1, 70), 8 * rng.randint(1, 20), 1000 if rng.random() < 0.02 else 64])
        if fam not in ("uint", "int") and rng.random() < 0.95:
            n = max(8, n - n % 8)
        yield L("enc", BO, rng.choice(INT_NAMES[fam]), n, rng.choice(_int_values(rng, fam, n)))

    # ---- hex / oct / bin strings
    for fam, names in STR_NAMES.items():
        w, prefix, digits = STRK[fam]
        maxd = {"hex": 2, "oct": 3, "bin": 7}[fam] + (1 if big else 0)
        for k in range(0, maxd + 1):
            for t in itertools.product(digits, repeat=k):
                s = "".join(t)
                yield L("enc", BO, names[k % 2], k * w if (k + len(s) + sum(map(ord, s))) % 3 else "None", "s" + esc(s))
        for _ in range(6000 if big else 1200):
            k = rng.choice([0, 1, 2, 3, 4, 5, 8, 16, 17, 31, 32, 33, rng.randint(0, 130 // w), 250 if rng.random() < 0.03 else 7])
            s = "".join(rng.choice(digits) for _ in range(k))
            nbits = k * w
            r = rng.random()
            if r < 0.5:
                # decorated but valid: prefix, case, underscores, whitespace
                if rng.random() < 0.5:
                    s = rng.choice([prefix, prefix.upper(), prefix[0] + "_" + prefix[1], " " + prefix + " "]) + s
                s = "".join(c.upper() if rng.random() < 0.3 else c for c in s)
                s = "".join(c + (rng.choice(["_", " ", "\t", "\n", "__", " _", "\x0c", "\x1f", "\xa0"]) if rng.random() < 0.15 else "") for c in s)
            elif r < 0.62:
                # foreign character / prefix in the middle / other family's prefix
                pos = rng.randint(0, len(s))
                s = s[:pos] + rng.choice(["g", "z", "-", "+", "8", "9", "2", "x", "0x", "0b", "0o", "O", ".", "\xe9", "00x0", "0X", "1e1"]) + s[pos:]
            ln = rng.choice([nbits, nbits, nbits, "None", nbits + w, max(nbits - w, 0), nbits + 1, 0])
            yield L("enc", BO, rng.choice(names), ln, "s" + esc(s))

    # ---- floats
    specials = _special_doubles()
    for name in FLT_NAMES:
        for n in (16, 32, 64):
            for p in specials:
                yield L("enc", BO, name, n, "%016x" % p)
        for n in ("None", 0, 8, 15, 17, 24, 48, 63, 65, 128):
            yield L("enc", BO, name, n, "%016x" % rng.choice(specials))
    for name in BFL_NAMES:
        for p in specials:
            yield L("enc", BO, name, rng.choice([16, "None"]), "%016x" % p)
        for n in (0, 8, 15, 17, 32):
            yield L("enc", BO, name, n, "%016x" % rng.choice(specials))
    for p in _band_doubles(rng, big):
        for sgn in (0, 1 << 63):
            for n in (16, 32, 64):
                yield L("enc", BO, rng.choice(FLT_NAMES), n, "%016x" % (p | sgn))
            yield L("enc", BO, rng.choice(BFL_NAMES), rng.choice([16, "None"]), "%016x" % (p | sgn))
    for _ in range(60000 if big else 7000):
        name = rng.choice(FLT_NAMES)
        n = rng.choice([16, 16, 32, 32, 64])
        yield L("enc", BO, name, n, "%016x" % _rand_double(rng, {16: F16, 32: F32, 64: F64}[n]))
    for _ in range(20000 if big else 1500):
        yield L("enc", BO, rng.choice(BFL_NAMES), rng.choice([16, "None"]), "%016x" % _rand_double(rng, rng.choice([F32, (8, 7)])))
    # every rounding midpoint between neighbouring half-precision values (thorough) / a stratified sample (quick), +- one binary64 ulp
    halves = range(0, 0x7C00) if big else sorted({e * 1024 + m for e in range(0, 31) for m in (0, 1, 2, 3, 511, 512, 513, 1021, 1022, 1023)}
                                                 | {rng.randrange(0, 0x7C00) for _ in range(300)})
    for h in halves:
        a, b = _half_to_f64(h), _half_to_f64(h + 1) if h + 1 < 0x7C00 else pattern_of_f64(65536.0)
        mid = pattern_of_f64((f64_of_pattern(a) + f64_of_pattern(b)) / 2)      # exact: both have <= 11 significant bits
        for p in (mid, mid - 1, mid + 1):
            yield L("enc", BO, rng.choice(FLT_NAMES), 16, "%016x" % (p | (rng.getrandbits(1) << 63)))

    # ---- bool
    for v in ("T", "F", "i0", "i1", "i2", "i-1", "i256", "sTrue", "sFalse", "s1", "s0", "strue", "sfalse", "s", "sTRUE", "s%201", "s1%20", "sT%20rue", "s01", "s2", "sTrue_"):
        for n in ("None", 1, 0, 2, 8):
            yield L("enc", BO, "bool", n, v)

    # ---- bytes
    for k in list(range(0, 18)) + [31, 32, 33, 125]:
        data = bytes(rng.getrandbits(8) for _ in range(k))
        for n in (k, "None", k + 1, max(k - 1, 0)):
            yield L("enc", BO, "bytes", n, "x" + data.hex())
    for data in (b"\x00", b"\xff", b"\x80\x01", b"\x00\xff\x00", bytes(range(256))):
        yield L("enc", BO, "bytes", len(data), "x" + data.hex())

    # ---- bits
    for k in range(0, 6 if not big else 8):
        for t in itertools.product("01", repeat=k):
            b = "".join(t)
            yield L("enc", BO, "bits", k if (k + b.count("1")) % 2 else "None", wire(b))
    for k in list(range(0, 131)) + [256, 512, 1000]:
        b = rand_bits(rng, k)
        yield L("enc", BO, "bits", k, wire(b))
        if k % 7 == 0:
            yield L("enc", BO, "bits", rng.choice(["None", k + 1, max(k - 1, 0)]), wire(b))

    # ---- pad
    for k in ["None"] + list(range(0, 40)) + [63, 64, 65, 130, 1000]:
        yield L("enc", BO, "pad", k, "None")

    # ---- reading: every pattern up to 10 bits (12 thorough) through every dtype that can have that length
    maxn = 12 if big else 10
    for n in range(0, maxn + 1):
        for t in itertools.product("01", repeat=n):
            b = "".join(t)
            parity = b.count("1") + n
            for fam in ("uint", "int", "bin", "bits", "hex", "oct", "bool", "bytes", "uintbe", "intbe", "uintle", "intle", "pad"):
                if not valid_len(fam, n):
                    if parity % 16 == 0 or n <= 4:
                        yield L("dec", BO, fam, "None" if parity % 3 else n, wire(b))    # lengths the dtype cannot have
                    continue
                if fam in ("bits", "bin", "pad") and n > 8 and parity % 4:
                    continue
                names = INT_NAMES.get(fam) or STR_NAMES.get(fam) or (fam,)
                name = names[parity % len(names)]
                mult = 8 if fam == "bytes" else 1
                if n <= 8:
                    yield L("dec", BO, name, n // mult, wire(b))
                    yield L("dec", BO, name, "None", wire(b))
                else:
                    yield L("dec", BO, name, (n // mult) if parity % 2 else "None", wire(b))
    # declared length different from the pattern's
    for _ in range(4000 if big else 600):
        fam = rng.choice(["uint", "int", "bin", "bits", "hex", "oct", "bool", "bytes", "uintbe", "intle", "float", "floatle", "bfloat", "bfloatle", "pad"])
        n = rng.choice([0, 1, 3, 4, 8, 12, 15, 16, 17, 24, 31, 32, 33, 64])
        ln = rng.choice([0, 1, 2, 3, 4, 8, 16, 32])
        names = INT_NAMES.get(fam) or STR_NAMES.get(fam) or (fam,)
        yield L("dec", BO, rng.choice(names), ln, wire(rand_bits(rng, n)))
    # longer patterns
    for fam in ("uint", "int", "bin", "bits", "hex", "oct", "bytes", "uintbe", "intbe", "uintle", "intle"):
        names = INT_NAMES.get(fam) or STR_NAMES.get(fam) or (fam,)
        mult = 8 if fam == "bytes" else 1
        lens = [n for n in list(range(11, 131)) + [256, 512, 1000, 1008, 999] if valid_len(fam, n)]
        for n in lens:
            for _ in range(3 if big else 1):
                yield L("dec", BO, names[n % len(names)], rng.choice([n // mult, "None"]), wire(rand_bits(rng, n)))
    # floats: all 65536 half / bfloat patterns (thorough), stratified sample (quick); random single / double
    if big:
        hs = range(0, 65536)
    else:
        hs = sorted({(s << 15) | (e << 10) | m for s in (0, 1) for e in range(32) for m in (0, 1, 2, 3, 0x155, 0x1FF, 0x200, 0x201, 0x2AA, 0x3FE, 0x3FF)}
                    | {rng.getrandbits(16) for _ in range(400)})
    for h in hs:
        yield L("dec", BO, FLT_NAMES[h % len(FLT_NAMES)], 16 if h % 3 else "None", format(h, "016b"))
    if big:
        bs = range(0, 65536)
    else:
        bs = sorted({(s << 15) | (e << 7) | m for s in (0, 1) for e in (0, 1, 2, 126, 127, 128, 253, 254, 255) for m in (0, 1, 0x3F, 0x40, 0x7F)}
                    | {rng.getrandbits(16) for _ in range(500)})
    for h in bs:
        yield L("dec", BO, BFL_NAMES[h % len(BFL_NAMES)], 16 if h % 2 else "None", format(h, "016b"))
    for n, (E, M) in ((32, F32), (64, F64)):
        for _ in range(20000 if big else 3500):
            k = rng.random()
            e = rng.choice([0, 0, 1, (1 << E) - 2, (1 << E) - 1, (1 << (E - 1)) - 1, rng.randrange(1 << E), rng.randrange(1 << E)])
            m = rng.choice([0, 1, (1 << M) - 1, 1 << (M - 1), rng.getrandbits(M), rng.getrandbits(M)])
            p = (rng.getrandbits(1) << (E + M)) | (e << M) | m
            yield L("dec", BO, rng.choice(FLT_NAMES), n if k < 0.7 else "None", format(p, "0%db" % n))

    # ---- read at a position inside a longer stream
    for _ in range(20000 if big else 4000):
        fam = rng.choice(["uint", "int", "bin", "bits", "hex", "oct", "bool", "bytes", "uintbe", "intbe", "uintle", "intle", "float", "floatle", "bfloat", "bfloatle", "pad"])
        names = INT_NAMES.get(fam) or STR_NAMES.get(fam) or ({"float": FLT_NAMES[:3], "floatle": FLT_NAMES[3:], "bfloat": BFL_NAMES[:2], "bfloatle": BFL_NAMES[2:]}.get(fam)) or (fam,)
        mult = 8 if fam == "bytes" else 1
        cand = [n for n in (1, 2, 3, 4, 5, 6, 7, 8, 9, 12, 16, 24, 32, 33, 64, 65) if valid_len(fam, n)]
        n = rng.choice(cand)
        pre, post = rng.choice([0, 0, 1, 3, 7, 8, 9, 13, 64]), rng.choice([0, 0, 0, 1, 5, 8, 11])
        body = rand_bits(rng, n)
        r = rng.random()
        if r < 0.15:
            body, post = body[:rng.randint(0, n - 1)], 0            # not enough bits
        bits = rand_bits(rng, pre) + body + rand_bits(rng, post)
        ln = n // mult
        if r > 0.85 and fam not in ("bool",):
            ln = "None"                                             # take everything to the end
        yield L("readat", BO, rng.choice(names), ln, wire(bits), pre)
