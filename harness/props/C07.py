"""C07 — search, split and count results equal the brute-force definition (msb0).

lines (TAB separated; <pat>/<old>/<new> may be '@' = the searched object itself; None/ints for start/end/count;
       <ba> in None/False/True is the bytealigned argument, <oba> in False/True is options.bytealigned):
  C07 find|rfind  <cls> <data> <pat> <start> <end> <ba> <oba>            -> ok none | ok <p> | err ValueError
  C07 findall     <cls> <data> <pat> <start> <end> <ba> <oba> <count>    -> ok [] | ok p,p,.. | err ValueError
  C07 split       <cls> <data> <pat> <start> <end> <ba> <oba> <count>    -> ok [] | ok chunk,chunk,.. | err ValueError
  C07 in          <cls> <data> <pat> <oba>                               -> ok True|False | err ValueError
  C07 startswith|endswith <cls> <data> <pat> <start> <end>               -> ok True|False | err ValueError
  C07 count       <cls> <data> <value token, see COUNT_VALUES>           -> ok <n>      (count by truthiness of value)
  C07 cut         <cls> <data> <bits> <start> <end> <count>              -> ok [] | ok chunk,.. | err ValueError
  C07 replace     <cls> <data> <old> <new> <start> <end> <ba> <oba> <count> -> ok <n> <bits after> | err ValueError
  generator-returning operations, option changed between the call and the consumption of the iterator
  (<oba> = options.bytealigned at the call, <oba2> = while the iterator is consumed; the value at the call decides):
  C07 findall_sched|split_sched <cls> <data> <pat> <start> <end> <ba> <oba> <count> <oba2>
  C07 cut_sched   <cls> <data> <bits> <start> <end> <count> <oba> <oba2>
"""
from harness.common import *
import itertools, signal

FUNCTIONAL = True
LEVEL_TEXT = ("Lean theorems, all data/pattern/start/end/count/bytealigned: the list programs standing for bitarray.search/find, bytes.find and tobytes "
              "equal their list meaning; the byte fast path of findall_msb0 (window rounded to [8*ceil(start/8), 8*floor(end/8)), bytes.find loop restarting at "
              "byte_pos+1) and the general path with the p%8 filter both yield exactly occ(data, pat, start, end, aligned); find = lowest, rfind = highest, "
              "findall = take count of the increasing list, in/startswith/endswith/count/cut = their one-line definitions, split's re-search from pos+|delim| "
              "and _replace's starting_points loop = greedy non-overlapping selection from the left, ValueError iff empty pattern or invalid range. "
              "Correspondence: all (start,end) windows incl. None/negative/invalid for lengths 0..8, all windows of byte-rich data at lengths 16..40, "
              "pattern lengths 1..24, 3x2 bytealigned settings, counts, four classes, self as operand, 8191..8193/20000-bit data.")
LEVEL_NOTE = ("Trusted: Lean kernel (+propext, Classical.choice, Quot.sound); bitarray's C search/find/tobytes/slicing/count and bytes.find are modelled by "
              "executable list programs proved equal to their documented meaning, the C code itself is not verified; the hand transcription of the Python "
              "is tied to the code by the differential run only.")
TECHNIQUE = "Lean 4 proof (ALG = brute-force SPEC incl. byte fast path and greedy selection) + exhaustive small-window correspondence"

ASSUMPTIONS = ["`in` is read from doc/bits.rst (Bits.__contains__: 'True if bs can be found in the bitstring') as a search at every bit position, "
               "whatever options.bytealigned is (the code passes bytealigned=False explicitly)",
               "negative count arguments and cut(bits <= 0) are outside the property's domain (count in None, 0, 1, 2, ...) and are not generated; "
               "lsb0 mode belongs to C12"]
NOT_YET_PROVED = []

OPS8 = ("find", "rfind")
OPS9 = ("findall", "split")


# count(value): the value on the wire, how it is built, and its Python truth value (written by hand; the model
# receives only that truth value, the oracle uses bool() of the real object and the two are compared at import).
COUNT_VALUES = {
    "0": (lambda: 0, False), "1": (lambda: 1, True), "True": (lambda: True, True), "False": (lambda: False, False),
    "None": (lambda: None, False), "2": (lambda: 2, True), "-1": (lambda: -1, True), "0.0": (lambda: 0.0, False),
    "1.5": (lambda: 1.5, True), "''": (lambda: "", False), "'1'": (lambda: "1", True), "[]": (lambda: [], False),
    "[0]": (lambda: [0], True), "Bits1": (lambda: Bits("0b1"), True), "Bits0": (lambda: Bits(), False),
}
assert all(bool(mkv()) is t for mkv, t in COUNT_VALUES.values())
COUNT_TOKENS = list(COUNT_VALUES)


def _opt(s):
    return None if s == "None" else int(s)


def _ob(s):
    return {"None": None, "True": True, "False": False}[s]


def _resolve(field, data):
    return data if field == "@" else unwire(field)


def model_line(line):
    f = line.split(SEP)
    op = f[1]
    if op in OPS8 + OPS9 + ("in", "startswith", "endswith", "findall_sched", "split_sched") and f[4] == "@":
        f[4] = f[3]
    if op == "replace":
        for i in (4, 5):
            if f[i] == "@":
                f[i] = f[3]
    if op == "count":
        f[4] = "True" if COUNT_VALUES[f[4]][1] else "False"
    return SEP.join(f)


def _fmt_pos(r):
    if r == ():
        return "none"
    if isinstance(r, tuple) and len(r) == 1 and type(r[0]) is int:
        return str(r[0])
    return "bad:" + repr(r)


def _fmt_nats(l):
    if l == "endless":
        return "bad:endless"
    if not all(type(x) is int for x in l):
        return "bad:" + repr(l)
    return ",".join(map(str, l)) if l else "[]"


def _fmt_chunks(l):
    if l == "endless":
        return "bad:endless"
    return ",".join(wire(c) for c in l) if l else "[]"


def _fmt_bool(b):
    return "True" if b is True else ("False" if b is False else "bad:" + repr(b))


class _Hang(BaseException):
    pass


def _alarm(signum, frame):
    raise _Hang()


def _take(gen, data):
    """list(gen), but never more than a search over `data` can yield (positions 0..len, pieces ≤ len+2): a generator
    that does not stop is an observable ('bad:endless'), not a hang of the check."""
    lim = len(data) + 3
    l = list(itertools.islice(gen, lim))
    return l if len(l) < lim else "endless"


def _sched(make, data, fmt, call_opt, consume_opt):
    """Call `make()` (which returns the iterator) with options.bytealigned = call_opt, then consume the iterator with
    options.bytealigned = consume_opt.  The property fixes the result by the setting AT THE CALL."""
    o = bitstring.options
    saved = o.bytealigned
    try:
        o.bytealigned = call_opt

        def th():
            it = make()
            o.bytealigned = consume_opt
            return _take(it, data)
        return guarded(th, fmt)
    finally:
        o.bytealigned = saved


def _operand(field, s):
    return s if field == "@" else Bits(bin=unwire(field)) if unwire(field) else Bits()


def execute(line):
    """Run one case; a call that does not come back within 20 s is the observable `err Internal:Timeout`."""
    old = signal.signal(signal.SIGALRM, _alarm)
    signal.setitimer(signal.ITIMER_REAL, 20)
    try:
        return _execute(line)
    except _Hang:
        return "err Internal:Timeout", {}
    finally:
        signal.setitimer(signal.ITIMER_REAL, 0)
        signal.signal(signal.SIGALRM, old)


def _plain(line):
    """The ordinary line a *_sched line is a schedule of (option = its value at the call)."""
    f = line.split(SEP)
    if f[1] in ("findall_sched", "split_sched"):
        return SEP.join([f[0], f[1][:-6]] + f[2:10])
    if f[1] == "cut_sched":
        return SEP.join([f[0], "cut"] + f[2:8])
    return line


def _execute_sched(line):
    f = line.split(SEP)
    op, cls, data = f[1], f[2], unwire(f[3])
    s = mk(cls, data)
    extra = {}
    if op == "cut_sched":
        n, a, b, c = int(f[4]), _opt(f[5]), _opt(f[6]), _opt(f[7])
        call_opt, consume_opt = f[8] == "True", f[9] == "True"
        out = _sched(lambda: s.cut(n, a, b, c), data, _fmt_chunks, call_opt, consume_opt)
    else:
        p = _operand(f[4], s)
        a, b, ba, c = _opt(f[5]), _opt(f[6]), _ob(f[7]), _opt(f[9])
        call_opt, consume_opt = f[8] == "True", f[10] == "True"
        if op == "findall_sched":
            out = _sched(lambda: s.findall(p, a, b, c, ba), data, _fmt_nats, call_opt, consume_opt)
        else:
            out = _sched(lambda: s.split(p, a, b, c, ba), data, _fmt_chunks, call_opt, consume_opt)
        extra["pat_after"] = wire(p)
    extra["data_after"] = wire(s)
    return out, extra


def _execute(line):
    f = line.split(SEP)
    op, cls, data = f[1], f[2], unwire(f[3])
    if op.endswith("_sched"):
        with options(bytealigned=False):
            return _execute_sched(line)
    oba = False
    if op in OPS8 + OPS9:
        oba = f[8] == "True"
    elif op == "in":
        oba = f[5] == "True"
    elif op == "replace":
        oba = f[9] == "True"
    with options(bytealigned=oba):
        s = mk(cls, data)
        extra = {}
        if op in OPS8:
            p = _operand(f[4], s)
            a, b, ba = _opt(f[5]), _opt(f[6]), _ob(f[7])
            fn = s.find if op == "find" else s.rfind
            out = guarded(lambda: fn(p, a, b, ba), _fmt_pos)
            extra["again"] = guarded(lambda: fn(p, start=a, end=b, bytealigned=ba), _fmt_pos)
            extra["pat_after"] = wire(p)
        elif op == "findall":
            p = _operand(f[4], s)
            a, b, ba, c = _opt(f[5]), _opt(f[6]), _ob(f[7]), _opt(f[9])
            out = guarded(lambda: _take(s.findall(p, a, b, c, ba), data), _fmt_nats)
            extra["again"] = guarded(lambda: _take(s.findall(p, start=a, end=b, count=c, bytealigned=ba), data), _fmt_nats)
            extra["pat_after"] = wire(p)
        elif op == "split":
            p = _operand(f[4], s)
            a, b, ba, c = _opt(f[5]), _opt(f[6]), _ob(f[7]), _opt(f[9])
            out = guarded(lambda: _take(s.split(p, a, b, c, ba), data), _fmt_chunks)
            extra["again"] = guarded(lambda: _take(s.split(p, start=a, end=b, count=c, bytealigned=ba), data), _fmt_chunks)
            extra["pat_after"] = wire(p)
        elif op == "in":
            p = _operand(f[4], s)
            out = guarded(lambda: p in s, _fmt_bool)
            extra["pat_after"] = wire(p)
        elif op in ("startswith", "endswith"):
            p = _operand(f[4], s)
            a, b = _opt(f[5]), _opt(f[6])
            fn = s.startswith if op == "startswith" else s.endswith
            out = guarded(lambda: fn(p, a, b), _fmt_bool)
            extra["pat_after"] = wire(p)
        elif op == "count":
            v = COUNT_VALUES[f[4]][0]()
            out = guarded(lambda: s.count(v), lambda n: str(n) if type(n) is int else "bad:" + repr(n))
            extra["again"] = guarded(lambda: s.count(1 if v else 0), str)
        elif op == "cut":
            n, a, b, c = int(f[4]), _opt(f[5]), _opt(f[6]), _opt(f[7])
            out = guarded(lambda: _take(s.cut(n, a, b, c), data), _fmt_chunks)
        elif op == "replace":
            old = _operand(f[4], s)
            new = _operand(f[5], s)
            a, b, ba, c = _opt(f[6]), _opt(f[7]), _ob(f[8]), _opt(f[10])
            out = guarded(lambda: s.replace(old, new, a, b, c, ba), lambda n: f"{n} {wire(s)}" if type(n) is int else "bad:" + repr(n))
            if out.startswith("err"):
                extra["data_after"] = wire(s)
            if f[4] != "@":
                extra["pat_after"] = wire(old)
        else:
            raise ValueError(line)
        if op != "replace":
            extra["data_after"] = wire(s)
        extra["opt_after"] = bitstring.options.bytealigned
        extra["opt_set"] = oba
    return out, extra


# ---- reference: the property text, on str ---------------------------------------------------------------
def _window(n, start, end):
    s = 0 if start is None else (start + n if start < 0 else start)
    e = n if end is None else (end + n if end < 0 else end)
    return (s, e) if 0 <= s <= e <= n else None


def _occ(data, pat, s, e, aligned):
    m = len(pat)
    return [p for p in range(s, e - m + 1) if data[p:p + m] == pat and (not aligned or p % 8 == 0)]


def _greedy(ps, m):
    sel, lim = [], 0
    for p in ps:
        if p >= lim:
            sel.append(p)
            lim = p + m
    return sel


def expected(line):
    f = line.split(SEP)
    op, data = f[1], unwire(f[3])
    n = len(data)
    VE = "err ValueError"
    if op in OPS8 + OPS9:
        pat = _resolve(f[4], data)
        w = _window(n, _opt(f[5]), _opt(f[6]))
        ba, oba = _ob(f[7]), f[8] == "True"
        al = oba if ba is None else ba
        if not pat or w is None:
            return VE
        occ = _occ(data, pat, w[0], w[1], al)
        if op == "find":
            return "ok " + (str(occ[0]) if occ else "none")
        if op == "rfind":
            return "ok " + (str(occ[-1]) if occ else "none")
        c = _opt(f[9])
        if op == "findall":
            r = occ if c is None else occ[:c]
            return "ok " + _fmt_nats(r)
        sel = _greedy(occ, len(pat))
        bounds = [w[0]] + sel + [w[1]]
        pieces = [data[bounds[i]:bounds[i + 1]] for i in range(len(bounds) - 1)]
        if c is not None:
            pieces = pieces[:c]
        return "ok " + (",".join(wire(x) for x in pieces) if pieces else "[]")
    if op == "in":
        pat = _resolve(f[4], data)
        if not pat:
            return VE
        # documentation (doc/bits.rst, Bits.__contains__): "True if bs can be found in the bitstring" — any bit position
        return "ok " + str(bool(_occ(data, pat, 0, n, False)))
    if op in ("startswith", "endswith"):
        pat = _resolve(f[4], data)
        w = _window(n, _opt(f[5]), _opt(f[6]))
        if w is None:
            return VE
        occ = _occ(data, pat, w[0], w[1], False)
        p = w[0] if op == "startswith" else w[1] - len(pat)
        return "ok " + str(p in occ)
    if op == "count":
        value = COUNT_VALUES[f[4]][0]()
        return "ok " + str(data.count("1" if value else "0"))
    if op == "cut":
        k = int(f[4])
        w = _window(n, _opt(f[5]), _opt(f[6]))
        c = _opt(f[7])
        if w is None:
            return VE
        win = data[w[0]:w[1]]
        pieces = [win[i:i + k] for i in range(0, len(win), k)]
        if c is not None:
            pieces = pieces[:c]
        return "ok " + (",".join(pieces) if pieces else "[]")
    if op == "replace":
        old, new = _resolve(f[4], data), _resolve(f[5], data)
        w = _window(n, _opt(f[6]), _opt(f[7]))
        ba, oba, c = _ob(f[8]), f[9] == "True", _opt(f[10])
        al = oba if ba is None else ba
        if not old or w is None:
            return VE
        sel = _greedy(_occ(data, old, w[0], w[1], al), len(old))
        if c is not None:
            sel = sel[:c]
        res, cur = [], 0
        for p in sel:
            res.append(data[cur:p])
            res.append(new)
            cur = p + len(old)
        res.append(data[cur:])
        return f"ok {len(sel)} {wire(''.join(res))}"
    return None


def oracle(line, out, extra):
    # a *_sched line must give what the ordinary call gives under the option value of the call
    exp = expected(_plain(line))
    if exp is None:
        return "unknown op"
    if out != exp:
        return f"expected {exp} (brute-force scan of the bit string), got {out}"
    f = line.split(SEP)
    if "data_after" in extra and extra["data_after"] != f[3]:
        return f"searched object changed: {f[3]} -> {extra['data_after']}"
    if "pat_after" in extra and extra["pat_after"] != wire(_resolve(f[4], unwire(f[3]))):
        return f"pattern operand changed: {f[4]} -> {extra['pat_after']}"
    if "again" in extra and extra["again"] != exp:
        return f"the same call with keyword arguments gives {extra['again']} instead of {exp}"
    if extra.get("opt_after") is not extra.get("opt_set"):
        return f"options.bytealigned changed from {extra.get('opt_set')} to {extra.get('opt_after')}"
    return None


REGIONS = {}


def nontrivial(line):
    f = line.split(SEP)
    if f[3] == "-":
        return False
    return f[1] in ("count", "cut", "cut_sched") or f[4] != "-"


# ---- generators ---------------------------------------------------------------------------------------
PAT_LENS = [1, 2, 3, 7, 8, 9, 16, 17, 24]
BA = ["None", "False", "True"]
OBA = ["False", "True"]
sv = lambda x: "None" if x is None else str(x)


def _plant(rng, data, pat, positions):
    d = list(data)
    for p in positions:
        if 0 <= p and p + len(pat) <= len(d):
            d[p:p + len(pat)] = pat
    return "".join(d)


def _data_and_pat(rng, n, m=None):
    """Data of length n and a pattern; the pattern is planted / taken from the data about half of the time."""
    if m is None:
        m = rng.choice([x for x in PAT_LENS if x <= max(n, 1)] or [1])
    kind = rng.random()
    if kind < 0.08:
        data = "0" * n
    elif kind < 0.16:
        data = "1" * n
    elif kind < 0.32:
        per = "".join(rng.choice("01") for _ in range(rng.choice([1, 2, 3, 4, 5, 8, 16])))
        data = (per * (n // len(per) + 1))[:n]
    else:
        data = format(rng.getrandbits(n), "0%db" % n) if n else ""
    r = rng.random()
    if r < 0.5 and n >= m:
        # take it from the data (aligned or not), so it is present at least once
        p = rng.choice([8 * rng.randrange(0, n // 8 + 1), 8 * rng.randrange(0, n // 8 + 1), rng.randrange(0, n - m + 1)])
        p = min(p, n - m)
        pat = data[p:p + m]
    elif r < 0.85:
        pat = format(rng.getrandbits(m), "0%db" % m)
        k = rng.choice([1, 1, 2, 3, 4])
        pos = []
        for _ in range(k):
            pos.append(rng.choice([8 * rng.randrange(0, n // 8 + 1), rng.randrange(0, n + 1), 8 * rng.randrange(0, n // 8 + 1) + rng.choice([1, 7])]))
        data = _plant(rng, data, pat, pos)
    else:
        pat = rand_bits(rng, m)
    return data, pat


def _rand_window(rng, n):
    r = rng.random()
    if r < 0.25:
        return None, None
    if r < 0.75:
        a = rng.randint(0, n)
        b = rng.randint(a, n)
        if rng.random() < 0.3:
            a = (a // 8) * 8 if rng.random() < 0.5 else min(n, -(-a // 8) * 8)
            b = max(a, (b // 8) * 8)
        if rng.random() < 0.25 and a > 0:
            a = a - n if a - n < 0 else a
        if rng.random() < 0.25 and b < n:
            b = b - n if b - n < 0 else b
        return (None if rng.random() < 0.1 else a), (None if rng.random() < 0.1 else b)
    # anything, often invalid
    return rng.randint(-n - 2, n + 2), rng.randint(-n - 2, n + 2)


def _count(rng):
    return rng.choice([None, None, None, 0, 1, 1, 2, 2, 3, 4, rng.randint(0, 9)])


def _line(op, cls, data, pat, a=None, b=None, ba="None", oba="False", c=None, new=None, bits=None):
    d = wire(data)
    p = pat if pat in ("@", None) else wire(pat)
    if op in OPS8:
        return SEP.join(["C07", op, cls, d, p, sv(a), sv(b), ba, oba])
    if op in OPS9:
        return SEP.join(["C07", op, cls, d, p, sv(a), sv(b), ba, oba, sv(c)])
    if op == "in":
        return SEP.join(["C07", op, cls, d, p, oba])
    if op in ("startswith", "endswith"):
        return SEP.join(["C07", op, cls, d, p, sv(a), sv(b)])
    if op == "count":
        return SEP.join(["C07", op, cls, d, p])
    if op == "cut":
        return SEP.join(["C07", op, cls, d, str(bits), sv(a), sv(b), sv(c)])
    if op == "replace":
        nw = new if new == "@" else wire(new)
        return SEP.join(["C07", op, cls if cls in MUTABLE else "BitArray", d, p, nw, sv(a), sv(b), ba, oba, sv(c)])
    raise ValueError(op)


SEARCH_OPS = ["find", "rfind", "findall", "split", "replace", "in", "startswith", "endswith"]


def _new_for(rng, pat):
    """A replacement that makes the selected positions visible in the result."""
    m = len(pat)
    return rng.choice(["", "1", "0", "10", "0110", pat[::-1], pat + "1", rand_bits(rng, rng.randint(0, m + 3))])


def _one(rng, op, cls, data, pat, a, b, ba, oba, c):
    if op == "replace":
        new = "@" if rng.random() < 0.02 else _new_for(rng, data if pat == "@" else pat)
        return _line(op, cls, data, pat, a, b, ba, oba, c, new=new)
    return _line(op, cls, data, pat, a, b, ba, oba, c)


def gen(rng, tier):
    """Every line of `_gen`; a findall / split / cut line is also run with options.bytealigned changed between the call
    and the consumption of the iterator (always when the bytealigned default is used, sometimes when it is explicit),
    in both directions."""
    for l in _gen(rng, tier):
        yield l
        f = l.split(SEP)
        if f[1] in OPS9 and (f[7] == "None" or rng.random() < 0.15):
            flip = "False" if f[8] == "True" else "True"
            yield SEP.join([f[0], f[1] + "_sched"] + f[2:10] + [flip])                       # set, call, flip, consume
            yield SEP.join([f[0], f[1] + "_sched"] + f[2:8] + [flip, f[9], f[8]])             # the reverse
        elif f[1] == "cut" and rng.random() < 0.2:
            a = rng.choice(OBA)
            yield SEP.join([f[0], "cut_sched"] + f[2:8] + [a, "False" if a == "True" else "True"])


def _gen(rng, tier):
    big = tier != "quick"
    # 1. every (start, end) in {None} ∪ [-(n+2), n+2]² for small lengths
    L = 10 if big else 8
    for n in range(0, L + 1):
        vals = [None] + list(range(-(n + 2), n + 3))
        for rep in range(3 if big else 1):
            pairs = []
            for m in ([1, 2, 3] if n < 8 else [1, 2, 3, 8]):
                pairs.append(_data_and_pat(rng, n, min(m, max(n, 1))))
            for a in vals:
                for b in vals:
                    for (data, pat) in pairs:
                        for _ in range(2):
                            op = rng.choice(SEARCH_OPS + ["cut"])
                            cls = rng.choice(CLASS_NAMES)
                            if op == "cut":
                                yield _line("cut", cls, data, None, a, b, c=_count(rng), bits=rng.randint(1, n + 2))
                            else:
                                yield _one(rng, op, cls, data, pat, a, b, rng.choice(BA), rng.choice(OBA), _count(rng))
    # 2. byte-aligned searching: every valid window of byte-rich data
    for n in ([16, 17, 24, 25, 33, 40] if not big else [15, 16, 17, 23, 24, 25, 31, 32, 33, 39, 40, 41, 48]):
        for m in (8, 16):
            byte = rand_bits(rng, 8) if rng.random() < 0.5 else "00000000"
            pat = byte * (m // 8)
            kinds = [("".join(rng.choice([byte, byte, format(rng.getrandbits(8), "08b")]) for _ in range(n // 8 + 1)))[:n]]
            kinds.append(_plant(rng, format(rng.getrandbits(n), "0%db" % n), pat, [rng.choice([1, 3, 7, 9]), 8 * rng.randrange(0, n // 8)]))
            if big:
                kinds.append((pat * (n // m + 1))[:n])
            for data in kinds:
                for a in range(0, n + 1):
                    for b in range(a, n + 1):
                        op = rng.choice(["find", "rfind", "findall", "split", "replace", "findall", "find"])
                        ba, oba = rng.choice([("True", "False"), ("True", "True"), ("None", "True"), ("True", "False"), ("False", "True")])
                        yield _one(rng, op, rng.choice(CLASS_NAMES), data, pat, a, b, ba, oba, _count(rng))
    # 3. overlapping matches, all option settings
    for (data, pat) in [("0" * 40, "0" * 16), ("1111", "11"), ("0" * 24, "0" * 8), ("1" * 17, "111"), ("10101010" * 4, "1010"),
                        ("10101010" * 4, "10101010"), ("0" * 33, "0" * 9), ("01" * 20, "0101" * 4), ("1" * 40, "1" * 24), ("0" * 8, "0" * 8),
                        ("00000001" * 5, "0000000100000001"), ("1" * 7, "1" * 7), ("1" * 9, "1" * 8), ("0", "0"), ("1", "0"), ("", "1")]:
        n = len(data)
        for op in SEARCH_OPS:
            for ba in BA:
                for oba in OBA:
                    for c in [None, 0, 1, 2, 3]:
                        if op not in ("findall", "split", "replace") and c is not None:
                            continue
                        for (a, b) in [(None, None), (1, None), (None, -1), (8, None), (None, n - n % 8), (3, max(3, n - 2))]:
                            if (a is not None and a > n) or (not big and rng.random() < 0.5):
                                continue
                            yield _one(rng, op, rng.choice(CLASS_NAMES), data, pat, a, b, ba, oba, c)
    # 4. empty patterns, invalid ranges, count = 0, self as operand
    for n in [0, 1, 3, 8, 9, 16, 40]:
        for _ in range(6 if big else 2):
            data = rand_bits(rng, n)
            for op in SEARCH_OPS:
                for (a, b) in [(None, None), (0, n), (1, 0), (n + 1, None), (None, n + 1), (-n - 1, None), (None, -n - 1), (2, -1), (-1, 1), (n, n), (0, 0)]:
                    for c in ([None, 0, 1] if op in ("findall", "split", "replace") else [None]):
                        ba, oba = rng.choice(BA), rng.choice(OBA)
                        cls = rng.choice(CLASS_NAMES)
                        yield _one(rng, op, cls, data, "", a, b, ba, oba, c)
                        if rng.random() < 0.5:
                            yield _one(rng, op, cls, data, "@", a, b, ba, oba, c)
                        if rng.random() < 0.5 and n:
                            yield _one(rng, op, cls, data, data[: rng.randint(1, n)], a, b, ba, oba, c)
    # 4b. count(value) counts by truthiness: every kind of value x every class x a few contents
    for data in ["", "1", "0", "10110", "0" * 17, "1" * 9, rand_bits(rng, 40), rand_bits(rng, 65)]:
        for cls in CLASS_NAMES:
            for tok in COUNT_TOKENS:
                yield _line("count", cls, data, tok)
    # 4c. generator-returning operations with the bytealigned default: aligned and unaligned occurrences both present,
    #     so that the option value at the call (and not the one while consuming) decides the result
    for _ in range(600 if big else 150):
        byte = rand_bits(rng, 8)
        k = rng.randint(2, 6)
        data = "".join(rng.choice([byte, rand_bits(rng, 8)]) for _ in range(k))
        data = rand_bits(rng, rng.choice([1, 3, 4, 7])) + data + byte + rand_bits(rng, rng.randint(0, 9))
        data = _plant(rng, data, byte, [8 * rng.randrange(0, len(data) // 8)])
        a, b = rng.choice([(None, None), (None, None), (1, None), (None, -1), (rng.randint(0, 8), None)])
        for oba in OBA:
            yield _line("findall", rng.choice(CLASS_NAMES), data, byte, a, b, "None", oba, _count(rng))
            yield _line("split", rng.choice(CLASS_NAMES), data, byte, a, b, "None", oba, _count(rng))
    # 5. structured random
    N = 400000 if big else 24000
    lens = list(range(0, 41)) + [7, 8, 9, 15, 16, 17, 23, 24, 25, 31, 32, 33, 39, 40] * 2
    for _ in range(N):
        r = rng.random()
        n = rng.choice(lens) if r < 0.85 else rng.choice([47, 48, 49, 63, 64, 65, 71, 72, 73, 127, 128, 129, 255, 256, 257])
        data, pat = _data_and_pat(rng, n)
        a, b = _rand_window(rng, n)
        w = _window(n, a, b)
        if w is not None and rng.random() < 0.45 and w[1] - w[0] >= 1:
            # take the pattern from inside the window (at a byte boundary when there is one) so that the search matches
            m = min(len(pat), w[1] - w[0])
            lo, hi = w[0], w[1] - m
            al = [q for q in range(-(-lo // 8) * 8, hi + 1, 8)]
            q = rng.choice(al) if al and rng.random() < 0.7 else rng.randint(lo, hi)
            pat = data[q:q + m]
        op = rng.choice(SEARCH_OPS + ["find", "rfind", "findall", "split", "replace", "cut", "count"])
        cls = rng.choice(CLASS_NAMES)
        if op == "cut":
            yield _line("cut", cls, data, None, a, b, c=_count(rng), bits=max(1, rng.choice([1, 2, 3, 7, 8, 9, n, n + 1, n - 1, rng.randint(1, n + 2)])))
        elif op == "count":
            yield _line("count", cls, data, rng.choice(COUNT_TOKENS))
        else:
            p = "@" if rng.random() < 0.01 else pat
            yield _one(rng, op, cls, data, p, a, b, rng.choice(BA), rng.choice(OBA), _count(rng))
    # 6. long data (crossing 8192) — sparse matches so that the outputs stay small
    for n in [8191, 8192, 8193, 16385, 20000] * (6 if big else 1):
        for m in [8, 16, 17, 24]:
            pat = format(rng.getrandbits(m) | 1 << (m - 1) | 1, "0%db" % m)
            base = format(rng.getrandbits(n), "0%db" % n) if rng.random() < 0.6 else "0" * n
            pos = [0, 1, 8, 8184 - m, 8192 - m, 8192 - 8, 8185, 8192, 8200, n - m, n - m - 1, ((n - m) // 8) * 8,
                   8 * rng.randrange(0, n // 8 - 3), rng.randrange(0, n - m)]
            data = _plant(rng, base, pat, rng.sample(pos, rng.randint(0, 6)))
            for op in ["find", "rfind", "findall", "split", "replace", "in"]:
                a, b = rng.choice([(None, None), (None, None), (rng.randint(0, 8200), None), (None, -rng.randint(1, 9)),
                                   (8185, None), (None, 8192), (8192, None), (rng.randint(0, n // 2), rng.randint(n // 2, n))])
                yield _one(rng, op, rng.choice(CLASS_NAMES), data, pat, a, b, rng.choice(BA), rng.choice(OBA), rng.choice([None, None, 1, 2, 5]))
        # a single occurrence far from the end the search starts at (first / last bits of long data)
        for m in [1, 8, 9, 16]:
            pat = "1" * m
            for p in [0, 1, 7, 8, 9, n - m, n - m - 1, ((n - m) // 8) * 8, rng.randrange(0, 64), n - m - rng.randrange(0, 64)]:
                data = _plant(rng, "0" * n, pat, [p])
                op = rng.choice(["find", "rfind", "rfind", "findall", "split", "in", "replace"])
                a, b = rng.choice([(None, None), (None, None), (rng.randint(0, 9), None), (None, -rng.randint(1, 9)), (p, p + m), (max(0, p - 1), min(n, p + m + 1))])
                yield _one(rng, op, rng.choice(CLASS_NAMES), data, pat, a, b, rng.choice(BA), rng.choice(OBA), rng.choice([None, 1, 2]))
                far = "rfind" if p < n // 2 else "find"
                yield _line(far, rng.choice(CLASS_NAMES), data, pat, None, None, "False", rng.choice(OBA))
                yield _line(far, rng.choice(CLASS_NAMES), data, pat, None, None, "True", rng.choice(OBA))
        data = rand_bits(rng, n)
        yield _line("findall", "Bits", data, "1", rng.randint(0, n - 100), None, "None", "False", 5)
        yield _line("findall", "Bits", data, data[8000:8016], None, None, "True", "False", 7)
        yield _line("rfind", "Bits", data, "1", None, rng.randint(n - 50, n), "None", "True")
        yield _line("rfind", "Bits", data, "0", None, rng.randint(n - 50, n), "True", "False")
        yield _line("count", "Bits", data, "True")
        yield _line("cut", "Bits", data, None, 3, None, c=4, bits=4096)
        yield _line("startswith", "Bits", data, data[100:8300], 100, None)
        yield _line("endswith", "Bits", data, data[100:n - 3], None, -3)
