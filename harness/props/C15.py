"""C15 — out-of-range or mis-sized values are rejected (CreationError, a ValueError), never wrapped or truncated.

lines (fields TAB separated; <m> = the model's name of the dtype definition, <name> = the (alias) name used in the call):
  C15 table <name> <m>                                   -> ok <multiplier> <allowed lengths> <set_fn takes length> <variable>
  C15 i2b   <int> <len> <signed 0|1>                     -> ok <bits> | err ValueError        bitstore_helpers.int2bitstore
  C15 i2ble <int> <len> <signed 0|1>                     -> ok <bits> | err ValueError        bitstore_helpers.intle2bitstore
  C15 dig   <hex|oct|bin> <route> <s..>                  -> ok <bits> | err ValueError        digit validation (route: fn kw tok lit prop)
  C15 enc   <route> <cls> <m> <name> <len|None> <val> <off|None> -> ok <bits> | err ValueError
            route: kw kwn tok tokn pack packk build buildn   (constructor keyword + length=, name-with-length keyword,
                   token string 'name:len=v' / 'namelen=v', pack('name:len', v), pack('name:n', v, n=len),
                   Dtype(name, len).build(v), Dtype('namelen').build(v))
  C15 asg   <cls> <m> <name> <len|None> <cur bits> <val> -> ok <bits after> | err ValueError <bits after>
            (len None: a.<name> = v through the property; else a.<name><len> = v through __setattr__)
  C15 arr   <m> <name> <len> <data bits> <key> <val>     -> ok <data after> | err ValueError|IndexError <data after>
  C15 win   <src> <cls> <data> <off|None> <len|None>     -> ok <bits> | err ValueError
            src: bytes bitarray bytesio fname fhandle; data: x<hex bytes> (b<bits> for bitarray)

values: i<int> int object | n<int> the same as a decimal string | t1/t0 True/False | s<hex of code points> str |
        x<hex> bytes | b<bits> Bits object | B<bits> '0b…' string | F<16 hex> float | E<16 hex> repr(float) string |
        G<16 hex> float for an 8/6/4-bit format.  model_line() rewrites n,t -> i; B -> b; F,E -> f<c16>,<c32>,<c64>
        (IEEE patterns by struct); G -> c<code> (the format's own LUT code: the codecs are C11's, C15 fixes the length).
"""
from harness.common import *
import struct, sys, io, os, math, tempfile, shutil, atexit, itertools

FUNCTIONAL = True
LEVEL_TEXT = ("Lean theorems (every width, every value, no bound): the model of int2bitstore (bitarray's int2ba = 'OverflowError iff out of range', plus the code's "
              "re-diagnosis) returns the two's-complement bits iff the value is in [0,2^n) / [-2^(n-1),2^(n-1)) and n >= 1, a ValueError otherwise, and never lets the "
              "OverflowError escape; a total classification valid(dtype, length, value) (allowed length per dtype, integer range, digit strings, bytes/bits size, bool "
              "literal, float 16/32/64, variable-length codes without a length) such that Dtype.build, token strings, pack, name-with-length property assignment and Array "
              "element assignment, each transcribed with the validation it really performs, succeed with exactly encode(dtype, length, value) when valid and raise ValueError "
              "otherwise (constructor keyword and name-with-length keyword included); every success has exactly length*multiplier bits; plain property assignment is the same "
              "classification at the object's own length; windows over bytes / bitarray / BytesIO / file sources succeed iff 0 <= offset, 0 <= length, offset+length <= n, for every "
              "offset and length incl. negative and None (including the BytesIO byte/bit arithmetic), with exactly those bits; a rejected property or Array element assignment leaves the object unchanged and a successful Array assignment changes only that item. "
              "Correspondence: every dtype and alias x lengths -1..130, 256, 1000 x values just inside/outside every limit x eight creation routes x four classes, "
              "malformed digit strings and numerals, stated-length/value mismatches, property and Array element assignment, windows over 0-9 byte sources with "
              "offset, length in [-2, n+9] or None for bytes=, bitarray=, BytesIO, file by name and by handle.")
LEVEL_NOTE = ("Full strength on the current tree: the five deviations this check found (keyword route ignoring length=, empty file, endian property on a non-whole-byte object, "
              "negative offset/length, offset beyond the data) were fixed in /repo (b88b583, a177cac, bf99409, dbe55ac, bcebbd6) and are listed as fixed findings whose witnesses are re-run on every check. Trusted: Lean kernel (+propext, Classical.choice, Quot.sound); bitarray int2ba/hex2ba/base2ba/frombytes/"
              "tobytes, Python slicing, divmod, struct and mmap modelled by their documented meaning; int()/float() string parsing, the token regexes and the float codecs are not "
              "modelled (numbers cross the wire as numbers, 8/6/4-bit float values as their codes); dtype table transcribed by hand and compared with the live register on every "
              "run (table lines); transcription of the Python tied by the differential run only.")
TECHNIQUE = "Lean 4 proof (integer range arithmetic, list slicing, byte-group induction) + exhaustive boundary correspondence over all dtypes, lengths, routes and window sources"

BO = sys.byteorder
LE = BO == "little"

# (alias) name -> model name of its definition
MNAME = {
    "uint": "uint", "u": "uint", "int": "int", "i": "int",
    "uintbe": "uintbe", "intbe": "intbe", "uintle": "uintle", "intle": "intle",
    "uintne": "uintle" if LE else "uintbe", "intne": "intle" if LE else "intbe",
    "hex": "hex", "h": "hex", "oct": "oct", "o": "oct", "bin": "bin", "b": "bin",
    "float": "float", "floatbe": "float", "f": "float", "floatle": "floatle",
    "floatne": "floatle" if LE else "float",
    "bfloat": "bfloat", "bfloatbe": "bfloat", "bfloatle": "bfloatle",
    "bfloatne": "bfloatle" if LE else "bfloat",
    "bits": "bits", "bool": "bool", "bytes": "bytes",
    "ue": "ue", "se": "se", "uie": "uie", "sie": "sie",
    "p3binary": "fx8", "p4binary": "fx8", "e4m3mxfp": "fx8", "e5m2mxfp": "fx8", "e8m0mxfp": "fx8", "mxint": "fx8",
    "e3m2mxfp": "fx6", "e2m3mxfp": "fx6", "e2m1mxfp": "fx4",
}
NAMES_OF = {}
for _k, _v in MNAME.items():
    NAMES_OF.setdefault(_v, []).append(_k)
INTK = ("uint", "int", "uintbe", "intbe", "uintle", "intle")
SIGNED = ("int", "intbe", "intle")
ENDIAN = ("uintbe", "intbe", "uintle", "intle")
LEK = ("uintle", "intle", "floatle", "bfloatle")
STRK = {"hex": (4, "x", "0123456789abcdef"), "oct": (3, "o", "01234567"), "bin": (1, "b", "01")}
FLTK = ("float", "floatle")
BFLK = ("bfloat", "bfloatle")
GOLK = ("ue", "se", "uie", "sie")
FXK = {"fx8": 8, "fx6": 6, "fx4": 4}
# reference copy of the dtype table (what the documentation says): multiplier, allowed lengths, set_fn takes length, variable
TABLE = {
    "uint": "1 () True False", "int": "1 () True False",
    "uintbe": "1 (8,16,...) True False", "intbe": "1 (8,16,...) True False",
    "uintle": "1 (8,16,...) True False", "intle": "1 (8,16,...) True False",
    "hex": "1 (0,4,...) True False", "oct": "1 (0,3,...) True False", "bin": "1 () True False",
    "float": "1 (16,32,64) True False", "floatle": "1 (16,32,64) True False",
    "bfloat": "1 (16) True False", "bfloatle": "1 (16) True False",
    "bits": "1 () True False", "bool": "1 (1) False False", "bytes": "8 () True False",
    "ue": "1 () False True", "se": "1 () False True", "uie": "1 () False True", "sie": "1 () False True",
    "fx8": "1 (8) False False", "fx6": "1 (6) False False", "fx4": "1 (4) False False",
}
ROUTES = ("kw", "kwn", "tok", "tokn", "pack", "packk", "build", "buildn")


def optlen(s):
    return None if s == "None" else int(s)


def sx(s: str) -> str:
    return "s" + s.encode("latin1").hex()


def f64_of_pattern(p: int) -> float:
    return struct.unpack(">d", p.to_bytes(8, "big"))[0]


def pattern_of_f64(x: float) -> int:
    return int.from_bytes(struct.pack(">d", x), "big")


def fv(x: float, kind="F") -> str:
    return kind + "%016x" % pattern_of_f64(x)


def ieee(x: float, fmt: str) -> int:
    """Reference IEEE encoding (struct; a finite value too large for the format becomes the infinity of its sign)."""
    try:
        b = struct.pack(fmt, x)
    except OverflowError:
        b = struct.pack(fmt, math.copysign(math.inf, x))
    return int.from_bytes(b, "big")


# ------------------------------------------------------------------------------------------------ values
def py_value(vs: str):
    """The Python object handed to the direct routes."""
    k, body = vs[0], vs[1:]
    if k == "i":
        return int(body)
    if k == "n":
        return body
    if k == "t":
        return body == "1"
    if k == "s":
        return bytes.fromhex(body).decode("latin1")
    if k == "x":
        return bytes.fromhex(body)
    if k == "b":
        b = unwire(body)
        return Bits(bin=b) if b else Bits()
    if k == "B":
        b = unwire(body)
        return "0b" + b if b else ""
    if k in "FG":
        return f64_of_pattern(int(body, 16))
    if k == "E":
        return repr(f64_of_pattern(int(body, 16)))
    raise ValueError(vs)


def tok_value(vs: str):
    """The text after '=' in a token string (None: the value has no spelling there)."""
    k, body = vs[0], vs[1:]
    if k in "in":
        return body
    if k == "t":
        return "True" if body == "1" else "False"
    if k == "s":
        return bytes.fromhex(body).decode("latin1")
    if k in "bB":
        b = unwire(body)
        return "0b" + b if b else ""
    if k in "FEG":
        return repr(f64_of_pattern(int(body, 16)))
    return None


def fx_code(name: str, x: float) -> int:
    """The format's own code for x (bitstring's encoder: C11 decides whether it is the right code)."""
    from bitstring import bitstore_helpers
    try:
        bs = getattr(bitstore_helpers, name + "2bitstore")(x)
        return int(bs._bitarray.to01(), 2)
    except Exception:                      # noqa: BLE001
        return 0


def model_value(vs: str, name: str) -> str:
    k, body = vs[0], vs[1:]
    if k in "nt":
        return "i" + body
    if k == "B":
        return "b" + body
    if k in "FE":
        x = f64_of_pattern(int(body, 16))
        return "f%d,%d,%d" % (ieee(x, ">e"), ieee(x, ">f"), ieee(x, ">d"))
    if k == "G":
        return "c%d" % fx_code(name, f64_of_pattern(int(body, 16)))
    return vs


def model_line(line: str) -> str:
    f = line.split(SEP)
    op = f[1]
    if op == "enc":
        f[7] = model_value(f[7], f[5])
    elif op == "asg":
        f[7] = model_value(f[7], f[4])
    elif op == "arr":
        f[7] = model_value(f[7], f[3])
    return SEP.join(f)


# ------------------------------------------------------------------------------------------------ execute
_TMP = None


def _tmpdir():
    global _TMP
    if _TMP is None:
        _TMP = tempfile.mkdtemp(prefix="verif-C15-")
        assert not _TMP.startswith("/repo") and not _TMP.startswith("/verif")
        atexit.register(shutil.rmtree, _TMP, True)
    return _TMP


def run(thunk):
    try:
        v = thunk()
    except RecursionError:
        return "err Internal:RecursionError", None
    except Exception as e:                 # noqa: BLE001 — the class is the observable
        return "err " + err_name(e), None
    return "ok " + wire(v), v


def execute(line: str):
    f = line.split(SEP)
    op, extra = f[1], {}
    if op == "table":
        d = bitstring.dtypes.dtype_register.names[f[2]]
        vals = d.allowed_lengths.values
        if vals and vals[-1] is Ellipsis:
            al = "(%d,%d,...)" % (vals[0], vals[1])
        else:
            al = "(" + ",".join(str(x) for x in vals) + ")"
        return f"ok {d.multiplier} {al} {d.set_fn_needs_length} {d.variable_length}", extra
    if op in ("i2b", "i2ble"):
        from bitstring import bitstore_helpers
        fn = bitstore_helpers.int2bitstore if op == "i2b" else bitstore_helpers.intle2bitstore
        i, ln, sg = int(f[2]), int(f[3]), f[4] == "1"
        out, _ = run(lambda: fn(i, ln, sg)._bitarray.to01())
        return out, extra
    if op == "dig":
        kind, route, s = f[2], f[3], bytes.fromhex(f[4][1:]).decode("latin1")
        if route == "fn":
            from bitstring import bitstore_helpers
            fn = getattr(bitstore_helpers, kind + "2bitstore")
            out, _ = run(lambda: fn(s)._bitarray.to01())
        elif route == "kw":
            out, _ = run(lambda: Bits(**{kind: s}))
        elif route == "tok":
            out, _ = run(lambda: BitArray(kind + "=" + s))
        elif route == "lit":
            out, _ = run(lambda: ConstBitStream("0" + STRK[kind][1] + s))
        elif route == "prop":
            def th():
                a = BitStream("0b1")
                setattr(a, kind, s)
                return a
            out, _ = run(th)
        else:
            raise ValueError(line)
        return out, extra
    if op == "enc":
        route, cls, name, ln, vs, off = f[2], f[3], f[5], optlen(f[6]), f[7], optlen(f[8])
        C = CLASSES[cls]
        if route == "kw":
            kw = {name: py_value(vs)}
            if ln is not None:
                kw["length"] = ln
            if off is not None:
                kw["offset"] = off
            th = lambda: C(**kw)
        elif route == "kwn":
            th = lambda: C(**{f"{name}{ln}": py_value(vs)})
        elif route in ("tok", "tokn"):
            tv = tok_value(vs)
            head = name if ln is None else (f"{name}:{ln}" if route == "tok" else f"{name}{ln}")
            th = lambda: C(f"{head}={tv}")
        elif route == "pack":
            head = name if ln is None else f"{name}:{ln}"
            th = lambda: bitstring.pack(head, py_value(vs))
        elif route == "packk":
            th = lambda: bitstring.pack(f"{name}:n", py_value(vs), n=ln)
        elif route == "build":
            th = lambda: (bitstring.Dtype(name, ln) if ln is not None else bitstring.Dtype(name)).build(py_value(vs))
        elif route == "buildn":
            th = lambda: bitstring.Dtype(f"{name}{ln}").build(py_value(vs))
        else:
            raise ValueError(line)
        out, v = run(th)
        if v is not None:
            extra["len"] = len(v)
            extra["cls"] = type(v).__name__
        return out, extra
    if op == "asg":
        cls, name, ln, cur, vs = f[2], f[4], optlen(f[5]), unwire(f[6]), f[7]
        a = mk(cls, cur)
        attr = name if ln is None else f"{name}{ln}"
        try:
            setattr(a, attr, py_value(vs))
            out = "ok " + wire(a)
        except Exception as e:             # noqa: BLE001
            out = "err " + err_name(e) + " " + wire(a)
        extra["len"] = len(a)
        return out, extra
    if op == "arr":
        name, n, data, key, vs = f[3], int(f[4]), unwire(f[5]), int(f[6]), f[7]
        A = bitstring.Array(f"{name}{n}")
        A.data = BitArray(bin=data) if data else BitArray()
        try:
            A[key] = py_value(vs)
            out = "ok " + wire(A.data)
        except Exception as e:             # noqa: BLE001
            out = "err " + err_name(e) + " " + wire(A.data)
        return out, extra
    if op == "win":
        src, cls, data, off, ln = f[2], f[3], f[4], optlen(f[5]), optlen(f[6])
        C = CLASSES[cls]
        kw = {}
        if off is not None:
            kw["offset"] = off
        if ln is not None:
            kw["length"] = ln
        if src == "bitarray":
            ba = bitarray.bitarray(unwire(data[1:]))
            out, _ = run(lambda: C(bitarray=ba, **kw))
            extra["src_after"] = ba.to01()
        elif src == "bytes":
            b = bytes.fromhex(data[1:])
            out, _ = run(lambda: C(bytes=b, **kw))
        elif src == "bytesio":
            bio = io.BytesIO(bytes.fromhex(data[1:]))
            out, _ = run(lambda: C(bio, **kw))
        elif src in ("fname", "fhandle"):
            fd, path = tempfile.mkstemp(dir=_tmpdir())
            try:
                with os.fdopen(fd, "wb") as fh:
                    fh.write(bytes.fromhex(data[1:]))
                if src == "fname":
                    out, _ = run(lambda: C(filename=path, **kw))
                else:
                    with open(path, "rb") as fh:
                        out, _ = run(lambda: C(fh, **kw))
            finally:
                os.unlink(path)
        else:
            raise ValueError(line)
        return out, extra
    raise ValueError(line)


# ------------------------------------------------------------------------------------------------ reference (oracle side)
def ref_clean(kind: str, s: str) -> str:
    """Whitespace and underscores are ignored, case is ignored, the 0x/0o/0b marker is ignored wherever it stands."""
    t = "".join(c for c in s if not c.isspace() and c != "_").lower()
    marker = "0" + STRK[kind][1]
    out, i = [], 0
    while i < len(t):
        if t.startswith(marker, i):
            i += 2
        else:
            out.append(t[i]); i += 1
    return "".join(out)


def ref_digits(kind: str, s: str):
    w, _, alphabet = STRK[kind]
    t = ref_clean(kind, s)
    if any(c not in alphabet for c in t):
        return None
    return "".join(format(alphabet.index(c), "0%db" % w) for c in t)


def ref_golomb(code, i):
    if code in ("ue", "uie") and i < 0:
        return None
    if code == "ue":
        b = bin(i + 1)[2:]
        return "0" * (len(b) - 1) + b
    if code == "se":
        return ref_golomb("ue", 2 * i - 1 if i > 0 else -2 * i)
    if code == "uie":
        return "".join("0" + d for d in bin(i + 1)[3:]) + "1"
    return "1" if i == 0 else ref_golomb("uie", abs(i)) + ("1" if i < 0 else "0")


def bytes_reversed(bits: str) -> str:
    return "".join(reversed([bits[i:i + 8] for i in range(0, len(bits), 8)]))


def in_range(signed: bool, n: int, i: int) -> bool:
    return -(2 ** (n - 1)) <= i < 2 ** (n - 1) if signed else 0 <= i < 2 ** n


def ref(m: str, ln, vs: str):
    """The property's classification of (dtype, stated length, value): (valid, bits) — bits None = any bits of
    the right length (8/6/4-bit float formats), "?" = outside the domain of the line protocol."""
    k, body = vs[0], vs[1:]
    if m in INTK:
        if k not in "in":
            return False, None
        i = int(body)
        if ln is None or ln < 1 or (m in ENDIAN and ln % 8):
            return False, None
        if not in_range(m in SIGNED, ln, i):
            return False, None
        bits = format(i % (1 << ln), "0%db" % ln)
        return True, bytes_reversed(bits) if m in LEK else bits
    if m in STRK:
        if k != "s":
            return False, None
        bits = ref_digits(m, bytes.fromhex(body).decode("latin1"))
        if bits is None or (ln is not None and ln != len(bits)):
            return False, None
        return True, bits
    if m in FLTK or m in BFLK:
        if k not in "FE":
            return False, None
        x = f64_of_pattern(int(body, 16))
        if m in FLTK:
            if ln not in (16, 32, 64):
                return False, None
            bits = format(ieee(x, {16: ">e", 32: ">f", 64: ">d"}[ln]), "0%db" % ln)
        else:
            if ln not in (None, 16):
                return False, None
            bits = format(ieee(x, ">f") >> 16, "016b")
        return True, bytes_reversed(bits) if m in LEK else bits
    if m == "bits":
        b = unwire(body)
        return (ln is None or ln == len(b)), b
    if m == "bool":
        if k in "int":
            ok, bit = body in ("0", "1"), body
        else:
            s = bytes.fromhex(body).decode("latin1")
            ok, bit = s in ("True", "False", "1", "0"), "1" if s in ("True", "1") else "0"
        return (ok and ln in (None, 1)), bit
    if m == "bytes":
        b = bytes.fromhex(body)
        return (ln is None or ln == len(b)), "".join(format(x, "08b") for x in b)
    if m in GOLK:
        if k not in "in" or ln is not None:
            return False, None
        bits = ref_golomb(m, int(body))
        return bits is not None, bits
    if m in FXK:
        if k != "G":
            return False, None
        return ln in (None, FXK[m]), None
    raise ValueError(m)


def expect(valid, bits, ok_len=None):
    if not valid:
        return "err ValueError"
    return None if bits is None else "ok " + wire(bits)


def ref_window(bits: str, off, ln):
    n = len(bits)
    o = 0 if off is None else off
    if o < 0 or o > n:
        return "err ValueError"
    l = n - o if ln is None else ln
    if l < 0 or o + l > n:
        return "err ValueError"
    return "ok " + wire(bits[o:o + l])


def data_bits(data: str) -> str:
    if data[0] == "b":
        return unwire(data[1:])
    return "".join(format(x, "08b") for x in bytes.fromhex(data[1:]))


def eff_len(m: str, ln, cur: str):
    if ln is not None:
        return ln
    if m in INTK or m in FLTK:
        return len(cur) if cur else None
    return None


def oracle(line: str, out: str, extra: dict):
    f = line.split(SEP)
    op = f[1]
    if op == "table":
        exp = "ok " + TABLE[f[3]]
        return None if out == exp else f"dtype table entry {f[2]}: expected {exp}, live register gives {out}"
    if op in ("i2b", "i2ble"):
        i, ln, sg = int(f[2]), int(f[3]), f[4] == "1"
        if ln >= 1 and in_range(sg, ln, i):
            bits = format(i % (1 << ln), "0%db" % ln)
            if op == "i2ble":
                bits = bytes_reversed(bits + "0" * (-ln % 8))
            exp = "ok " + bits
        else:
            exp = "err ValueError"
        return None if out == exp else f"{op}({i}, {ln}, signed={sg}): expected {exp}, got {out}"
    if op == "dig":
        kind, s = f[2], bytes.fromhex(f[4][1:]).decode("latin1")
        bits = ref_digits(kind, s)
        if f[3] == "lit" and bits is not None and ref_clean(kind, s) == "" and "".join(s.split()) == "":
            bits = None                      # '0x' alone is no literal token
        exp = "err ValueError" if bits is None else "ok " + wire(bits)
        return None if out == exp else f"{kind} string {s!r} via {f[3]}: expected {exp}, got {out}"
    if op == "enc":
        route, m, ln, vs, off = f[2], f[4], optlen(f[6]), f[7], optlen(f[8])
        valid, bits = ref(m, ln, vs)
        if off is not None:
            valid = False                    # offset= is only for bytes / filename / bitarray sources
        if route in ("kwn", "tokn", "buildn", "tok") and ln is not None and ln < 0:
            valid = False
        if not valid:
            return None if out == "err ValueError" else \
                f"{route} {f[5]} length={ln} value={vs} offset={off} does not fit: expected CreationError/ValueError, got {out}"
        if not out.startswith("ok "):
            return f"{route} {f[5]} length={ln} value={vs} fits: expected success, got {out}"
        got = unwire(out[3:])
        if ln is not None:
            want = ln * (8 if m == "bytes" else 1)
            if len(got) != want:
                return f"{route} {f[5]} length={ln} value={vs}: result has {len(got)} bits, not {want}"
        if bits is not None and got != bits:
            return f"{route} {f[5]} length={ln} value={vs}: expected bits {wire(bits)}, got {wire(got)}"
        if bits is None and len(got) != FXK[m]:
            return f"{route} {f[5]} value={vs}: result has {len(got)} bits, not {FXK[m]}"
        if "len" in extra and extra["len"] != len(got):
            return f"len() = {extra['len']} but {len(got)} bits"
        return None
    if op == "asg":
        m, ln, cur, vs = f[3], optlen(f[5]), unwire(f[6]), f[7]
        e = eff_len(m, ln, cur)
        valid, bits = ref(m, e, vs)
        if ln is not None and ln < 0:
            valid = False
        if not valid:
            exp = "err ValueError " + wire(cur)
            if out == exp:
                return None
            if out.startswith("err ") and not out.endswith(" " + wire(cur)):
                return f"rejected assignment {f[4]}{'' if ln is None else ln} = {vs} changed the object from {wire(cur)}: {out}"
            return f"assignment {f[4]}{'' if ln is None else ln} = {vs} on {len(cur)} bits does not fit: expected {exp}, got {out}"
        if not out.startswith("ok "):
            return f"assignment {f[4]}{'' if ln is None else ln} = {vs} on {len(cur)} bits fits: expected success, got {out}"
        got = unwire(out[3:])
        if e is not None and len(got) != e * (8 if m == "bytes" else 1):
            return f"assignment {f[4]}{'' if ln is None else ln} = {vs}: object now has {len(got)} bits, not {e}"
        if bits is not None and got != bits:
            return f"assignment {f[4]}{'' if ln is None else ln} = {vs}: expected {wire(bits)}, got {wire(got)}"
        if bits is None and len(got) != FXK[m]:
            return f"assignment {f[4]} = {vs}: object now has {len(got)} bits, not {FXK[m]}"
        return None
    if op == "arr":
        m, nitems, data, key, vs = f[2], int(f[4]), unwire(f[5]), int(f[6]), f[7]
        n = nitems * (8 if m == "bytes" else 1)          # bits per item
        count = len(data) // n
        k = key + count if key < 0 else key
        if k < 0 or k >= count:
            exp = "err IndexError " + wire(data)
            return None if out == exp else f"Array index {key} of {count}: expected {exp}, got {out}"
        valid, bits = ref(m, nitems, vs)
        if not valid:
            exp = "err ValueError " + wire(data)
            if out == exp:
                return None
            if out.startswith("err ") and not out.endswith(" " + wire(data)):
                return f"rejected Array element assignment changed the data: {out}"
            return f"Array('{f[3]}{n}')[{key}] = {vs} does not fit: expected {exp}, got {out}"
        if bits is None:
            if not out.startswith("ok "):
                return f"Array('{f[3]}{n}')[{key}] = {vs} fits: expected success, got {out}"
            got = unwire(out[3:])
            if len(got) != len(data) or got[:k * n] != data[:k * n] or got[k * n + n:] != data[k * n + n:]:
                return f"Array element assignment changed other items: {out}"
            return None
        exp = "ok " + wire(data[:k * n] + bits + data[k * n + n:])
        return None if out == exp else f"Array('{f[3]}{n}')[{key}] = {vs}: expected {exp}, got {out}"
    if op == "win":
        src, data, off, ln = f[2], f[4], optlen(f[5]), optlen(f[6])
        bits = data_bits(data)
        exp = ref_window(bits, off, ln)
        if out != exp:
            return f"{src} source of {len(bits)} bits, offset={off}, length={ln}: expected {exp}, got {out}"
        if "src_after" in extra and extra["src_after"] != bits:
            return "the source bitarray was changed"
        return None
    return "unknown op"


def nontrivial(line):
    return line.split(SEP)[1] != "table"


# ------------------------------------------------------------------------------------------------ generators
KEY_LENGTHS = (-1, 0, 1, 2, 7, 8, 9, 15, 16, 17, 24, 31, 32, 33, 63, 64, 65, 127, 128, 129)


def int_boundaries(n: int):
    if n < 1:
        return [-1, 0, 1]
    vals = [-(2 ** (n - 1)) - 1, -(2 ** (n - 1)), -1, 0, 2 ** (n - 1) - 1, 2 ** (n - 1), 2 ** n - 1, 2 ** n]
    return sorted(set(vals))


def enc_line(route, cls, name, ln, vs, off=None):
    return SEP.join(["C15", "enc", route, cls, MNAME[name], name, str(ln), vs, str(off)])


def asg_line(cls, name, ln, cur, vs):
    return SEP.join(["C15", "asg", cls, MNAME[name], name, str(ln), wire(cur), vs])


def arr_line(name, n, data, key, vs):
    return SEP.join(["C15", "arr", MNAME[name], name, str(n), wire(data), str(key), vs])


def win_line(src, cls, data, off, ln):
    return SEP.join(["C15", "win", src, cls, data, str(off), str(ln)])


def routes_for(m: str, ln, vs: str):
    """Routes on which the case can be expressed."""
    out = []
    for r in ROUTES:
        if r in ("kwn", "tokn", "buildn", "packk") and ln is None:
            continue
        if r in ("tok", "tokn") and (tok_value(vs) is None):
            continue
        if r == "kw" and m == "bytes":
            continue                          # bytes= with length= is a window (win lines)
        out.append(r)
    return out


class Rot:
    """Deterministic rotation through routes / classes / alias names, so that every one meets every length."""
    def __init__(self, rng):
        self.i = rng.randrange(1000)

    def pick(self, seq):
        self.i += 1
        return seq[self.i % len(seq)]


def int_value(rot, i):
    return rot.pick(["i", "i", "n"]) + str(i)


def gen(rng, tier):
    big = tier != "quick"
    rot = Rot(rng)
    # ---- the dtype table, entry by entry
    for name in sorted(MNAME):
        yield SEP.join(["C15", "table", name, MNAME[name]])
    # ---- int2bitstore / intle2bitstore called directly: every width, both signs, every limit
    lengths = list(range(-1, 131)) + [255, 256, 257, 1000]
    for ln in lengths:
        for sg in ("0", "1"):
            vals = int_boundaries(ln) + ([rng.getrandbits(ln) - (2 ** (ln - 1) if sg == "1" else 0)] if ln >= 1 else [])
            for i in vals:
                yield SEP.join(["C15", "i2b", str(i), str(ln), sg])
                if ln % 8 == 0 or ln in (1, 7, 9, 12, 63, 65):
                    yield SEP.join(["C15", "i2ble", str(i), str(ln), sg])
    # ---- integers through every route
    for m in INTK:
        for ln in [None] + lengths:
            full = big or ln is None or ln in KEY_LENGTHS
            for i in (int_boundaries(ln) if ln is not None else [0, 1, -1]):
                for r in (routes_for(m, ln, "i0") if full else [rot.pick(routes_for(m, ln, "i0"))]):
                    yield enc_line(r, rot.pick(CLASS_NAMES), rot.pick(NAMES_OF[m]), ln, int_value(rot, i))
        # malformed numerals, offset= on a non-source keyword
        for ln in (8, 16):
            for s in ("abc", "", "1.5", "0x10", "--1", "1e3"):
                for r in ("kw", "tok", "pack", "build"):
                    yield enc_line(r, rot.pick(CLASS_NAMES), rot.pick(NAMES_OF[m]), ln, sx(s))
            for off in (0, 1, -1):
                yield enc_line("kw", rot.pick(CLASS_NAMES), rot.pick(NAMES_OF[m]), ln, "i1", off)
    # random widths and values near the limits
    for _ in range(6000 if big else 1500):
        m = rng.choice(INTK)
        ln = rng.choice([rng.randint(1, 130), rng.randint(1, 16) * 8, rng.choice([200, 256, 512, 1000, 1024])])
        base = rng.choice(int_boundaries(ln))
        i = base + rng.choice([0, 0, 1, -1, rng.randint(-5, 5)]) if rng.random() < 0.7 else \
            rng.getrandbits(ln + 1) - 2 ** (ln - 1)
        yield enc_line(rng.choice(routes_for(m, ln, "i0")), rng.choice(CLASS_NAMES), rng.choice(NAMES_OF[m]), ln, int_value(rot, i))
    # ---- floats: every length, a value that overflows binary16/32, both spellings
    fvals = [1.0, -0.0, 1e300, -65520.0, 65519.99, math.inf, 3.5e38, 5e-324, 0.1]
    for m in FLTK + BFLK:
        for ln in [None] + lengths:
            full = big or ln in (None, 15, 16, 17, 31, 32, 33, 63, 64, 65, 0, -1, 8)
            xs = fvals if full else [rot.pick(fvals)]
            for x in xs:
                vs = fv(x, rot.pick("FFE"))
                for r in (routes_for(m, ln, vs) if full else [rot.pick(routes_for(m, ln, vs))]):
                    yield enc_line(r, rot.pick(CLASS_NAMES), rot.pick(NAMES_OF[m]), ln, vs)
        for ln in (None, 16, 32, 64):
            yield enc_line(rot.pick(["kw", "build", "pack"]), "Bits", rot.pick(NAMES_OF[m]), ln, fv(math.nan))
            for s in ("abc", "", "1.0.0"):
                for r in ("kw", "pack", "build") + (("tok",) if s else ()):
                    yield enc_line(r, rot.pick(CLASS_NAMES), rot.pick(NAMES_OF[m]), ln, sx(s))
    # ---- digit strings: stated length against the number of digits
    for m, (w, mk_, alphabet) in STRK.items():
        for ln in [None] + list(range(-1, 42 if big else 26)) + [64, 128, 129, 256, 1000]:
            base = 0 if ln is None else max(ln, 0) // w
            for k in sorted({0, max(base - 1, 0), base, base + 1}):
                digits = "".join(rng.choice(alphabet) for _ in range(k))
                form = rot.pick(["", "0" + mk_, "0" + mk_.upper(), ""])
                s = form + (digits.upper() if rot.pick([0, 0, 1]) else digits)
                vs = sx(s)
                full = big or ln is None or ln in (-1, 0, 1, w - 1, w, w + 1, 2 * w, 8, 12, 24)
                for r in (routes_for(m, ln, vs) if full else [rot.pick(routes_for(m, ln, vs))]):
                    yield enc_line(r, rot.pick(CLASS_NAMES), rot.pick(NAMES_OF[m]), ln, vs)
        # malformed / decorated digit strings, through the helper and through the routes
        bad = [alphabet[-1] + "g", "z", alphabet[:2] + "-", "+" + alphabet[1], alphabet[1] + ".", "0" + mk_ + "0" + mk_, "0" + mk_,
               alphabet[1] + "0" + mk_ + alphabet[-1], " " + alphabet[1] + " _" + alphabet[-1] + "\n", "0 " + mk_.upper() + alphabet[1],
               mk_, "0" + mk_ + mk_, "00" + mk_ + mk_, "", "_", " ", alphabet[-1] * 3 + {"hex": "G", "oct": "8", "bin": "2"}[m],
               {"hex": "0b1", "oct": "0x7", "bin": "0o1"}[m], "\t" + alphabet[1] + "\x0b", "\xa0" + alphabet[1], "\x85", alphabet[1] + "\xe9"]
        for s in bad:
            for route in ("fn", "kw", "prop") + (("tok", "lit") if all(c not in s for c in ",=()*:") and s.isascii() else ()):
                if route == "lit" and "".join(s.split()) == "":
                    continue                  # '0x' alone is not a literal token
                yield SEP.join(["C15", "dig", m, route, sx(s)])
        for _ in range(400 if big else 120):
            n = rng.randint(0, 12)
            pool = alphabet * 3 + alphabet.upper() + " _" + mk_ + "0" + rng.choice(["", "", "g", "9", "8", "2", "-", "x", "o", "b"])
            s = "".join(rng.choice(pool) for _ in range(n))
            for route in ("fn", rot.pick(["kw", "prop", "tok", "lit"])):
                if route == "lit" and "".join(s.split()) == "":
                    route = "kw"
                yield SEP.join(["C15", "dig", m, route, sx(s)])
    # ---- bits and bytes: stated size against the real size
    for ln in [None] + list(range(-1, 21)) + [64, 65]:
        for k in sorted({0, 1, max((ln or 0) - 1, 0), max(ln or 0, 0), (ln or 0) + 1}):
            b = rand_bits(rng, k)
            for kind in "bB":
                vs = kind + wire(b)
                for r in routes_for("bits", ln, vs):
                    yield enc_line(r, rot.pick(CLASS_NAMES), "bits", ln, vs)
    for ln in [None] + list(range(-1, 7)) + [16]:
        for k in sorted({0, 1, max((ln or 0) - 1, 0), max(ln or 0, 0), (ln or 0) + 1}):
            vs = "x" + bytes(rng.getrandbits(8) for _ in range(k)).hex()
            for r in routes_for("bytes", ln, vs):
                yield enc_line(r, rot.pick(CLASS_NAMES), "bytes", ln, vs)
    # ---- bool, exp-Golomb (a length must not be given), 8/6/4-bit float formats (one allowed length)
    bvals = ["t1", "t0", "i1", "i0", "i2", "i-1", "n1", "n0", sx("True"), sx("False"), sx("true"), sx("2"), sx("TRUE"), sx("yes")]
    for ln in (None, -1, 0, 1, 2, 8):
        for vs in bvals:
            for r in routes_for("bool", ln, vs):
                yield enc_line(r, rot.pick(CLASS_NAMES), "bool", ln, vs)
    for m in GOLK:
        for ln in (None, -1, 0, 1, 3, 5, 8):
            for i in (-3, -1, 0, 1, 2, 3, 6, 7, 8, 254, 255, 256, 2 ** 64):
                for r in routes_for(m, ln, "i0"):
                    yield enc_line(r, rot.pick(CLASS_NAMES), m, ln, int_value(rot, i))
    for name in sorted(MNAME):
        m = MNAME[name]
        if m not in FXK:
            continue
        xs = [1.0, 0.5, 2.0, -1.0] if name != "e8m0mxfp" else [1.0, 0.5, 2.0 ** -127, 2.0 ** 127]
        for ln in (None, -1, 0, 1, 4, 5, 6, 7, 8, 9, 16):
            for x in xs[:4 if big else 2]:
                vs = fv(x, "G")
                for r in routes_for(m, ln, vs):
                    yield enc_line(r, rot.pick(CLASS_NAMES), name, ln, vs)
    # ---- property assignment: a.<name> = v uses the current length; a.<name><n> = v replaces the object
    curs = list(range(0, 19)) + [23, 24, 25, 31, 32, 33, 63, 64, 65, 128]
    for m in INTK:
        for c in curs:
            cur = rand_bits(rng, c)
            for i in int_boundaries(c):
                yield asg_line(rot.pick(MUTABLE), rot.pick(NAMES_OF[m]), None, cur, int_value(rot, i))
        for ln in (lengths if big else [l for l in lengths if l in KEY_LENGTHS or l % 5 == 0 or l < 20]):
            cur = rand_bits(rng, rot.pick([0, 1, 8, 13, max(ln, 0)]))
            for i in int_boundaries(ln):
                yield asg_line(rot.pick(MUTABLE), rot.pick(NAMES_OF[m]), ln, cur, int_value(rot, i))
    for m in FLTK + BFLK:
        for c in (0, 1, 8, 15, 16, 17, 24, 31, 32, 33, 48, 63, 64, 65, 80, 128, 256):
            yield asg_line(rot.pick(MUTABLE), rot.pick(NAMES_OF[m]), None, rand_bits(rng, c), fv(rot.pick(fvals)))
            yield asg_line(rot.pick(MUTABLE), rot.pick(NAMES_OF[m]), None, rand_bits(rng, c), sx("abc"))
        for ln in (-1, 0, 8, 15, 16, 17, 32, 33, 64, 65, 128):
            yield asg_line(rot.pick(MUTABLE), rot.pick(NAMES_OF[m]), ln, rand_bits(rng, rot.pick([0, 5, 16, 32])), fv(rot.pick(fvals)))
    for m, (w, mk_, alphabet) in STRK.items():
        for ln in [None] + list(range(-1, 14)):
            for k in sorted({0, max((ln or 0) // w - 1, 0), (ln or 0) // w, (ln or 0) // w + 1}):
                s = "".join(rng.choice(alphabet) for _ in range(k))
                yield asg_line(rot.pick(MUTABLE), rot.pick(NAMES_OF[m]), ln, rand_bits(rng, rot.pick([0, 3, 8])), sx(s))
            yield asg_line(rot.pick(MUTABLE), rot.pick(NAMES_OF[m]), ln, rand_bits(rng, 5), sx(alphabet[1] + "q"))
    for ln in (None, -1, 0, 1, 2, 3, 8):
        for k in (0, 1, 2, 3, 8):
            yield asg_line(rot.pick(MUTABLE), "bits", ln, rand_bits(rng, 4), rot.pick("bB") + wire(rand_bits(rng, k)))
    for ln in (None, -1, 0, 1, 2, 3):
        for k in (0, 1, 2, 3):
            yield asg_line(rot.pick(MUTABLE), "bytes", ln, rand_bits(rng, 4), "x" + bytes(rng.getrandbits(8) for _ in range(k)).hex())
    for ln in (None, 0, 1, 2):
        for vs in bvals:
            yield asg_line(rot.pick(MUTABLE), "bool", ln, rand_bits(rng, rot.pick([0, 1, 4])), vs)
    for m in GOLK:
        for ln in (None, 0, 3):
            for i in (-2, -1, 0, 1, 5):
                yield asg_line(rot.pick(MUTABLE), m, ln, rand_bits(rng, 3), "i%d" % i)
    for name in sorted(MNAME):
        if MNAME[name] in FXK:
            for ln in (None, 4, 6, 8, 9):
                yield asg_line(rot.pick(MUTABLE), name, ln, rand_bits(rng, 5), fv(1.0, "G"))
    # ---- Array element assignment: out of range values must leave the data as it was
    for m in INTK:
        lens = [8, 16, 24, 64] if m in ENDIAN else [1, 2, 3, 7, 8, 9, 16, 17, 32, 33, 64, 65]
        for n in lens:
            for items in (1, 3):
                data = rand_bits(rng, n * items + rot.pick([0, 0, 1, n - 1]))
                for key in sorted({0, items - 1, -1, -items}):
                    for i in int_boundaries(n):
                        yield arr_line(rot.pick(NAMES_OF[m]), n, data, key, "i%d" % i)
            yield arr_line(m, n, rand_bits(rng, 2 * n), 2, "i0")
            yield arr_line(m, n, rand_bits(rng, 2 * n), -3, "i0")
            yield arr_line(m, n, "", 0, "i0")
    for n in (4, 8, 12):
        for s in ("f", "ff", "fff", "0xab", "fg", ""):
            yield arr_line("hex", n, rand_bits(rng, 2 * n), 1, sx(s))
    for n in (3, 6):
        for s in ("7", "77", "8", ""):
            yield arr_line("oct", n, rand_bits(rng, 2 * n), 0, sx(s))
    for n in (1, 3, 5):
        for k in (0, n - 1, n, n + 1):
            yield arr_line("bin", n, rand_bits(rng, 3 * n), 1, sx("1" * k))
            yield arr_line("bits", n, rand_bits(rng, 3 * n), 2, "b" + wire(rand_bits(rng, k)))
    for m in FLTK:
        for n in (16, 32, 64):
            for x in fvals[:4]:
                yield arr_line(rot.pick(NAMES_OF[m]), n, rand_bits(rng, 2 * n), 1, fv(x))
            yield arr_line(m, n, rand_bits(rng, 2 * n), 0, sx("abc"))
    for m in BFLK:
        yield arr_line(m, 16, rand_bits(rng, 48), 1, fv(1.5))
    for vs in bvals:
        yield arr_line("bool", 1, rand_bits(rng, 5), 2, vs)
    for n in (1, 2, 3):
        for k in (0, n - 1, n, n + 1):
            yield arr_line("bytes", n, rand_bits(rng, 8 * n * 3 + rot.pick([0, 3])), rot.pick([0, 1, 2, -1]),
                           "x" + bytes(rng.getrandbits(8) for _ in range(k)).hex())
    for name in sorted(MNAME):
        if MNAME[name] in FXK:
            yield arr_line(name, FXK[MNAME[name]], rand_bits(rng, 3 * FXK[MNAME[name]]), 1, fv(1.0, "G"))
    # ---- windows over bytes / bitarray / BytesIO / file sources
    srcs = ("bytes", "bitarray", "bytesio", "fname", "fhandle")
    for nb in range(0, 10):
        payload = bytes(rng.getrandbits(8) for _ in range(nb))
        n = 8 * nb
        if big or nb <= 3:
            grid = [None] + list(range(-2, n + 10))
        else:
            grid = [None] + sorted({-2, -1, 0, 1, 7, 8, 9, n - 9, n - 8, n - 1, n, n + 1, n + 8, n + 9})
        for src in srcs:
            data = ("b" + wire("".join(format(x, "08b") for x in payload))) if src == "bitarray" else "x" + payload.hex()
            for off in grid:
                for ln in grid:
                    yield win_line(src, rot.pick(CLASS_NAMES), data, off, ln)
    for nbits in (1, 3, 7, 9, 13, 20):                     # bitarray sources need not be whole bytes
        b = rand_bits(rng, nbits)
        for off in [None] + list(range(-2, nbits + 4)):
            for ln in [None] + list(range(-2, nbits + 4)):
                yield win_line("bitarray", rot.pick(CLASS_NAMES), "b" + wire(b), off, ln)
    for _ in range(3000 if big else 400):
        nb = rng.choice([10, 16, 31, 64, 100])
        n = 8 * nb
        payload = bytes(rng.getrandbits(8) for _ in range(nb))
        src = rng.choice(srcs)
        data = ("b" + wire("".join(format(x, "08b") for x in payload))) if src == "bitarray" else "x" + payload.hex()
        off = rng.choice([None, 0, rng.randint(0, n), rng.randint(0, n), n - rng.randint(0, 9), n + rng.randint(1, 9), -rng.randint(1, 9)])
        ln = rng.choice([None, 0, rng.randint(0, n), n - (off or 0), n - (off or 0) + 1, n - (off or 0) - 1, -1])
        yield win_line(src, rng.choice(CLASS_NAMES), data, off, ln)
