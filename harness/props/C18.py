"""C18 — struct-code formats match struct / array; endian forms relate by byte reversal.

lines (values: ints in decimal, floats as `f<hex IEEE pattern at the width of their code>`, `nan`; `-` = empty list;
       bytes as lower-case hex, `-` = empty; bits as 0/1 strings, `-` = empty):
  C18 pack    <fmt> <vals>                            -> ok <hex> | err      pack(fmt, *vals).bytes
  C18 unpack  <fmt> <hex>                             -> ok <vals> | err     Bits(bytes=…).unpack(fmt)
  C18 packd   <fmt> <vals>                            -> ok <hex> | err      as pack, float values are `d<hex float64 pattern>`
                                                        (any Python float, NOT necessarily representable in 'e' / 'f')
  C18 arrd    <dtype> <vals>                          -> ok <hex> | err      Array(dtype, vals).tobytes() with such floats
  C18 packl   <fmt1;fmt2;…> <vals>                    -> ok <hex> | err      pack([fmt1, fmt2, …], *vals).bytes — a short HISTORY:
                                                        the list call twice, then pack(fmt_i, …) of every part, the list call
                                                        again, unpack through the list form twice and through every part
  C18 interp  <bits>                                  -> ok uintle,uintbe,uintne,intle,intbe,intne | err
  C18 interpf <bits>                                  -> ok floatle,floatbe,floatne | err
  C18 enc     <name> <bitlen> <val>                   -> ok <bits> | err     BitArray(<name>=val, length=bitlen)
  C18 bswap   <cls> <bits> <fmt> <start> <end> <rep>  -> ok <repeats> <bits> | err   (fmt: None | i:N | l:a,b | s:<str>)
  C18 arr     <dtype> <vals>                          -> ok <hex> | err      Array(dtype, vals).tobytes()
  C18 alist   <dtype> <bits>                          -> ok <vals> | err     Array(dtype, bits).tolist()
  C18 aswap   <dtype> <bits> [<code>]                 -> ok <bits> | err     Array(dtype, bits).byteswap(); .data   (any dtype family;
                                                        with <code> the bits are struct.pack('>' + k*code, …): result = '<' encoding)
  C18 packm   <fmt> <vals>   /   C18 unpackm <fmt> <hex>                       formats with N* multipliers, brackets and commas
                                                        around struct-style tokens ('2*<hB', '2*(<hB,>q)', '<b,3*>bHq')
  C18 aext    <dtype> <pre> <typecode> <itemsize> <vals> -> ok <bits> <vals> | err
                                                        a = Array(dtype, pre); a.extend(array.array(typecode, vals)); data, tolist
The property names no exception class: every exception is `err`.
The oracle is Python's own `struct`, `array`, `int.to_bytes` / `int.from_bytes`, evaluated live.
"""
from harness.common import *
from harness import extract_C18
import struct, array, sys, re, math, itertools

# GENERATED layer: re-extract the struct tables from the working tree before the Lean build (write-if-changed)
GEN_CHANGED = extract_C18.write(extract_C18.GEN_DIR, extract_C18.extract(REPO))

FUNCTIONAL = True
LEVEL_TEXT = ("Lean theorems: the struct tables re-extracted from the working tree on every run (REPLACEMENTS_BE/LE/NE, PACK_CODE_SIZE, the regex alphabets, the graph of parse_single_struct_token, byteorder and the *ne aliases) equal structSpec, written from the struct documentation (standard sizes, signedness by case, byte order by prefix), for all 4 prefixes x 13 codes; the code's pack over any expanded struct format equals the concatenation of int.to_bytes of each value (base-256 digits) and unpack inverts it, for all values and all format lengths; for every whole-byte bit string the little-endian readings equal the big-endian readings of the byte-reversed bits and int.from_bytes, the native readings are sys.byteorder's; the transcribed byteswap loop equals the byte-group reversal spec for every pattern list, window and repeat setting, converts between the two encodings and is an involution; Array.extend accepts an array.array typecode iff the Array's dtype is the dtype of that code's native layout with the array's own item size, and then reads back the same values. Correspondence: 13 codes x 4 prefixes x counts 1..3 x limit values, multi-code formats, 1..8-byte contents, byteswap patterns/windows, every array typecode x dtype, float64 inputs not representable in 'e'/'f', against struct/array live.")
LEVEL_NOTE = ("Trusted: Lean kernel (+propext, Classical.choice, Quot.sound); the extractor reads the tables it claims to read; struct.pack/unpack of one float (pattern bytes in the given order), bitarray tobytes/frombytes/int2ba/ba2int and slice assignment are modelled by their documented meaning; representable floats are carried as bit patterns; struct.pack's float64->16/32 rounding (nearest-even, OverflowError at the threshold, which float2bitstore turns into +-inf) is modelled by roundF64 and tied by the correspondence on ties, near-ties, subnormal boundaries and the band above the largest finite value; the hand transcription is tied to the code by the differential run only. One known finding: '@' is treated as '=' (documented by bitstring, differs from struct's native sizes/alignment where the platform's native size or alignment is not the standard one).")
TECHNIQUE = "Lean 4 proof (decide over regenerated tables; induction over formats, byte lists and the byteswap loop) + differential correspondence against struct/array"
TRUSTED = ["harness/extract_C18.py reads REPLACEMENTS_*/PACK_CODE_SIZE/byteorder/regex alphabets from the working tree",
           "CPython struct / array / int.to_bytes are the reference for byte layouts (oracle) and are modelled by their documented meaning"]
NOT_YET_PROVED = []

CODES = "bBhHlLiIqQefd"
ENDIANS = "><=@"
STD = {"b": ("s", 1), "B": ("u", 1), "h": ("s", 2), "H": ("u", 2), "i": ("s", 4), "I": ("u", 4), "l": ("s", 4), "L": ("u", 4),
       "q": ("s", 8), "Q": ("u", 8), "e": ("f", 2), "f": ("f", 4), "d": ("f", 8)}          # struct docs, standard sizes
FCODE = {2: "e", 4: "f", 8: "d"}
GRAMMAR = re.compile(r"^[<>=@](?:\d*[bBhHlLiIqQefd])+$")
NATIVE = sys.byteorder
TYPECODES = array.typecodes                                                                    # 'bBuhHiIlLqQfd' (+ 'w')


# ------------------------------------------------------------------------------------------------ wire helpers
def hexwire(b: bytes) -> str:
    return b.hex() if b else "-"


def unhex(s: str) -> bytes:
    return b"" if s == "-" else bytes.fromhex(s)


def expand(fmt: str):
    """'<2hq' -> ('<', ['h', 'h', 'q']) by the grammar of the struct documentation (count then code)."""
    out = []
    for n, c in re.findall(r"(\d*)([A-Za-z?])", fmt[1:]):
        out += [c] * (int(n) if n else 1)
    return fmt[0], out


def f_of_pattern(p: int, size: int) -> float:
    if size not in FCODE:                                   # a length no float dtype has: the call must fail anyway
        return 0.0
    return struct.unpack(">" + FCODE[size], p.to_bytes(size, "big"))[0]


def val_of_wire(tok: str, kind: str, size: int):
    if tok.startswith("d"):                                 # a float64 pattern: any Python float
        return struct.unpack(">d", int(tok[1:], 16).to_bytes(8, "big"))[0]
    if tok.startswith("f"):
        return f_of_pattern(int(tok[1:], 16), size)
    return int(tok)


def vals_of_wire(s: str, specs):
    """specs: list of (kind, size) per value."""
    if s == "-":
        return []
    toks = s.split(",")
    if len(specs) < len(toks):                              # more values than codes: type them like the last code
        specs = list(specs) + [specs[-1] if specs else ("s", 1)] * (len(toks) - len(specs))
    return [val_of_wire(t, *sp) for t, sp in zip(toks, specs)]


def canon(v, size: int) -> str:
    """Canonical value: ints in decimal, floats as their pattern at `size` bytes (exact for a value read from
    that many bytes), NaN as `nan`."""
    if isinstance(v, float):
        if v != v:
            return "nan"
        try:
            return "f%x" % int.from_bytes(struct.pack(">" + FCODE[size], v), "big")
        except (OverflowError, KeyError, struct.error):
            return "f?%r" % v
    if isinstance(v, bool) or not isinstance(v, int):
        return "?%r" % (v,)
    return str(v)


def canon_list(vs, sizes) -> str:
    vs = list(vs)
    if len(sizes) < len(vs):
        sizes = list(sizes) + [sizes[-1] if sizes else 1] * (len(vs) - len(sizes))
    return ",".join(canon(v, n) for v, n in zip(vs, sizes)) if vs else "-"


def exact(vs):
    """Exact rendering for the oracle (float.hex is exact and keeps the sign of zero)."""
    return [("nan" if v != v else v.hex()) if isinstance(v, float) else repr(v) for v in vs]


def any_err(thunk, fmt=str) -> str:
    """`ok <formatted value>` / `err`.  The formatter runs INSIDE the guard: an exception raised while observing the result
    (tolist(), .data, iteration …) is an observable outcome of the implementation, not a harness failure."""
    try:
        return "ok " + fmt(thunk())
    except RecursionError:
        return "err"
    except Exception:                       # noqa: BLE001 — the property names no exception class
        return "err"


def dtype_spec(dt: str):
    """(kind, size_bytes or None, order or None, bitlen) of an Array dtype string, from its spelling alone."""
    if len(dt) == 2 and dt[0] in ENDIANS and dt[1] in STD:
        k, n = STD[dt[1]]
        o = {"<": "little", ">": "big"}.get(dt[0], NATIVE)
        return k, n, o, 8 * n
    m = re.fullmatch(r"(uint|int|float)(be|le|ne|)(\d+)", dt)
    if not m:
        return None
    k = {"uint": "u", "int": "s", "float": "f"}[m.group(1)]
    bits = int(m.group(3))
    o = {"be": "big", "le": "little", "ne": NATIVE, "": "big"}[m.group(2)]
    return k, (bits // 8 if bits % 8 == 0 else None), o, bits


def dtype_bits(dt: str):
    """Bit length of one item of an Array dtype string, from bitstring's documentation of the dtype families
    (bytesN: N bytes; hexN / octN / binN / bitsN / uintN / intN / floatN: N bits); None = not a valid Array dtype."""
    sp = dtype_spec(dt)
    if sp is not None:
        k, n, o, bl = sp
        if bl == 0 or (k == "f" and bl not in (16, 32, 64)) or (n is None and re.search(r"(be|le|ne)\d", dt)):
            return None
        return bl
    m = re.fullmatch(r"(bytes|hex|oct|bin|bits|bool)(\d+)", dt)
    if not m:
        return None
    fam, n = m.group(1), int(m.group(2))
    if n == 0 or (fam == "hex" and n % 4) or (fam == "oct" and n % 3) or (fam == "bool" and n != 1):
        return None
    return 8 * n if fam == "bytes" else n


def ref_tokens(fmt: str):
    """The struct-style tokens a format with multipliers stands for, written out: '2*(<h,3*>B)' -> ['<h', '>B', '>B', '>B',
    '<h', …].  Independent recursive-descent reading of the documented syntax `N*token`, `N*(…)`, `a, b`."""
    s = "".join(fmt.split())

    def seq(i):
        out = []
        while True:
            j = i
            while j < len(s) and s[j].isdigit():
                j += 1
            n = 1
            if j < len(s) and s[j] == "*" and j > i:
                n, i = int(s[i:j]), j + 1
            if i < len(s) and s[i] == "(":
                inner, i = seq(i + 1)
                assert s[i] == ")"
                i += 1
                out += inner * n
            else:
                j = i
                while j < len(s) and s[j] not in ",()":
                    j += 1
                if j > i:
                    out += [s[i:j]] * n
                i = j
            if i < len(s) and s[i] == ",":
                i += 1
                continue
            return out, i
    toks, i = seq(0)
    assert i == len(s), (fmt, i)
    return toks


def ref_item_bytes(v, kind, size, order) -> bytes:
    if kind == "f":
        return struct.pack(("<" if order == "little" else ">") + FCODE[size], v)
    return int(v).to_bytes(size, order, signed=(kind == "s"))


def ref_item_value(b: bytes, kind, order):
    if kind == "f":
        return struct.unpack(("<" if order == "little" else ">") + FCODE[len(b)], b)[0]
    return int.from_bytes(b, order, signed=(kind == "s"))


def bits_of_bytes(b: bytes) -> str:
    return "".join(format(x, "08b") for x in b)


def bytes_of_bits(s: str) -> bytes:
    assert len(s) % 8 == 0
    return bytes(int(s[i:i + 8], 2) for i in range(0, len(s), 8))


def _opt(s):
    return None if s == "None" else int(s)


def fmt_arg(s: str):
    if s == "None":
        return None
    k, v = s.split(":", 1)
    if k == "i":
        return int(v)
    if k == "l":
        return [int(x) for x in v.split(",")] if v else []
    return v


# ------------------------------------------------------------------------------------------------ execute
def execute(line: str):
    """Never raises for something the implementation does: an exception in a follow-up observation (second call, tolist,
    byteswap of the result …) is reported through extra["observe_exception"] and flagged by the oracle."""
    try:
        return _execute(line)
    except Exception as e:                  # noqa: BLE001
        import traceback
        tb = traceback.extract_tb(e.__traceback__)
        where = next((f"{fr.name}:{fr.lineno}" for fr in reversed(tb) if fr.filename.endswith("C18.py")), "?")
        return "err", {"observe_exception": f"{type(e).__name__}: {str(e)[:120]} (while observing, at {where})"}


def _execute(line: str):
    # every case starts on cold caches (DESIGN §3B): a case is self-contained, so a replay in a fresh process sees what
    # the run saw, and state left behind by one case (e.g. a poisoned token cache) is charged to the case that caused it
    clear_caches()
    f = line.split(SEP)
    op, extra = f[1], {}
    if op == "pack":
        fmt = f[2]
        _e, codes = expand(fmt)
        specs = [STD.get(c, ("s", 1)) for c in codes]
        vals = vals_of_wire(f[3], specs)
        out = any_err(lambda: bitstring.pack(fmt, *vals).bytes, hexwire)
        if out.startswith("ok"):
            s = bitstring.pack(fmt, *vals)
            sizes = [sp[1] for sp in specs]
            extra["cls"] = type(s).__name__
            extra["bitlen"] = len(s)
            extra["unpack"] = any_err(lambda: s.unpack(fmt), lambda v: canon_list(v, sizes))
            extra["unpack_exact"] = any_err(lambda: s.unpack(fmt), lambda v: repr(exact(v)))
            s.pos = 0
            extra["readlist"] = any_err(lambda: (s.readlist(fmt), s.pos), lambda r: canon_list(r[0], sizes) + " " + str(r[1]))
            extra["listfmt"] = any_err(lambda: bitstring.pack([fmt], *vals).bytes, hexwire)
        return out, extra
    if op in ("packm", "unpackm"):
        fmt = f[2]
        codes = [c for t in ref_tokens(fmt) for c in expand(t)[1]]
        specs = [STD.get(c, ("s", 1)) for c in codes]
        sizes = [sp[1] for sp in specs]
        if op == "packm":
            vals = vals_of_wire(f[3], specs)
            out = any_err(lambda: bitstring.pack(fmt, *vals).bytes, hexwire)
            extra["again"] = any_err(lambda: bitstring.pack(fmt, *vals).bytes, hexwire)
            if out.startswith("ok"):
                sp = bitstring.pack(fmt, *vals)
                extra["unpack"] = any_err(lambda: sp.unpack(fmt), lambda v: canon_list(v, sizes))
        else:
            data = unhex(f[3])
            b = Bits(bytes=data)
            out = any_err(lambda: b.unpack(fmt), lambda v: canon_list(v, sizes))
            extra["again"] = any_err(lambda: b.unpack(fmt), lambda v: canon_list(v, sizes))
            s_ = ConstBitStream(bytes=data)
            extra["readlist"] = any_err(lambda: s_.readlist(fmt), lambda v: canon_list(v, sizes))
        return out, extra
    if op == "packl":
        fmts = f[2].split(";")
        parts = [expand(x)[1] for x in fmts]
        specs = [STD.get(c, ("s", 1)) for cs in parts for c in cs]
        sizes = [sp[1] for sp in specs]
        vals = vals_of_wire(f[3], specs)
        out = any_err(lambda: bitstring.pack(list(fmts), *vals).bytes, hexwire)               # 1st evaluation
        extra["again"] = any_err(lambda: bitstring.pack(list(fmts), *vals).bytes, hexwire)    # 2nd, straight after
        singles, usingles, k, off = [], [], 0, 0
        data = b"".join(_struct_ref(lambda: struct.pack(x, *vals[i:j])) or b"" for x, i, j in _slices(fmts, parts))
        for x, cs in zip(fmts, parts):                                                         # each part on its own
            vp = vals[k:k + len(cs)]
            singles.append(any_err(lambda: bitstring.pack(x, *vp).bytes, hexwire))
            n = sum(STD.get(c, ("s", 1))[1] for c in cs)
            chunk = data[off:off + n]
            usingles.append(any_err(lambda: Bits(bytes=chunk).unpack(x), lambda v: canon_list(v, sizes[k:k + len(cs)])))
            k += len(cs)
            off += n
        extra["singles"], extra["unpack_singles"] = singles, usingles
        extra["third"] = any_err(lambda: bitstring.pack(list(fmts), *vals).bytes, hexwire)    # list form after the singles
        b = Bits(bytes=data)
        extra["unpackl"] = any_err(lambda: b.unpack(list(fmts)), lambda v: canon_list(v, sizes))
        extra["unpackl_again"] = any_err(lambda: b.unpack(list(fmts)), lambda v: canon_list(v, sizes))
        extra["joined"] = any_err(lambda: bitstring.pack(",".join(fmts), *vals).bytes, hexwire)
        return out, extra
    if op == "packd":
        fmt = f[2]
        _e, codes = expand(fmt)
        vals = vals_of_wire(f[3], [STD.get(c, ("s", 1)) for c in codes])
        out = any_err(lambda: bitstring.pack(fmt, *vals).bytes, hexwire)
        extra["listfmt"] = any_err(lambda: bitstring.pack([fmt], *vals).bytes, hexwire)
        extra["tokens"] = any_err(lambda: bitstring.pack(",".join(fmt[0] + c for c in codes), *vals).bytes, hexwire)
        return out, extra
    if op == "arrd":
        dt = f[2]
        vals = vals_of_wire(f[3], [("f", 8)] * (f[3].count(",") + 1))
        out = any_err(lambda: bitstring.Array(dt, vals).tobytes(), hexwire)
        extra["append"] = any_err(lambda: _append_all(dt, vals), hexwire)
        return out, extra
    if op == "unpack":
        fmt, data = f[2], unhex(f[3])
        _e, codes = expand(fmt)
        sizes = [STD.get(c, ("s", 1))[1] for c in codes]
        b = Bits(bytes=data)
        out = any_err(lambda: b.unpack(fmt), lambda v: canon_list(v, sizes))
        extra["exact"] = any_err(lambda: b.unpack(fmt), lambda v: repr(exact(v)))
        s = ConstBitStream(bytes=data)
        extra["readlist"] = any_err(lambda: s.readlist(fmt), lambda v: canon_list(v, sizes))
        extra["bits_after"] = b.tobytes().hex()
        return out, extra
    if op == "interp":
        bits = unwire(f[2])
        b = mk("Bits", bits)
        out = any_err(lambda: [b.uintle, b.uintbe, b.uintne, b.intle, b.intbe, b.intne], lambda v: ",".join(map(str, v)))
        if bits and len(bits) % 8 == 0:
            rb = Bits(bytes=bytes_of_bits(bits)[::-1])
            extra["rev_be"] = any_err(lambda: [rb.uintbe, rb.intbe, rb.uint, rb.int], lambda v: ",".join(map(str, v)))
            extra["rev_le"] = any_err(lambda: [rb.uintle, rb.intle], lambda v: ",".join(map(str, v)))
            sw = BitArray(bin=bits)
            extra["swap_ret"] = any_err(lambda: sw.byteswap(), str)
            extra["swapped_be"] = any_err(lambda: [sw.uintbe, sw.intbe], lambda v: ",".join(map(str, v)))
            extra["swapped_bits"] = wire(sw)
        return out, extra
    if op == "interpf":
        bits = unwire(f[2])
        b = mk("Bits", bits)
        n = len(bits) // 8
        out = any_err(lambda: [b.floatle, b.floatbe, b.floatne], lambda v: canon_list(v, [n] * 3))
        extra["exact"] = any_err(lambda: [b.floatle, b.floatbe, b.floatne, b.float], lambda v: repr(exact(v)))
        if len(bits) in (16, 32, 64):
            rb = Bits(bytes=bytes_of_bits(bits)[::-1])
            extra["rev_exact"] = any_err(lambda: [rb.floatbe, rb.floatle], lambda v: repr(exact(v)))
            sw = BitArray(bin=bits)
            sw.byteswap()
            extra["swapped_exact"] = any_err(lambda: [sw.floatbe], lambda v: repr(exact(v)))
        return out, extra
    if op == "enc":
        name, n = f[2], int(f[3])
        kind = "f" if name.startswith("float") else ("u" if name.startswith("u") else "s")
        v = val_of_wire(f[4], kind, n // 8)
        out = any_err(lambda: BitArray(**{name: v}, length=n), wire)

        def setter():
            a = BitArray(n)
            setattr(a, name, v)
            return a
        extra["routes"] = {
            "pack": any_err(lambda: bitstring.pack(f"{name}:{n}", v), wire),
            "bits": any_err(lambda: Bits(**{name: v}, length=n), wire),
            "token": any_err(lambda: Bits(f"{name}{n}={v!r}"), wire) if kind != "f" else None,
            "build": any_err(lambda: bitstring.Dtype(name, n).build(v), wire),
        }
        extra["routes"]["setter"] = any_err(setter, wire)
        if out.startswith("ok"):
            a = BitArray(**{name: v}, length=n)
            extra["readback"] = any_err(lambda: getattr(a, name), lambda x: canon(x, n // 8))
            a.byteswap()
            extra["swapped"] = wire(a)
        return out, extra
    if op == "bswap":
        cls, bits = f[2], unwire(f[3])
        fm, st, en, rep = fmt_arg(f[4]), _opt(f[5]), _opt(f[6]), f[7] == "1"
        s = mk(cls, bits)
        out = any_err(lambda: (s.byteswap(fm, st, en, rep), s), lambda r: f"{r[0]} {wire(r[1])}")
        extra["after"] = wire(s)
        if out.startswith("ok"):
            extra["twice"] = any_err(lambda: (s.byteswap(fm, st, en, rep), s), lambda r: f"{r[0]} {wire(r[1])}")
        return out, extra
    if op == "arr":
        dt = f[2]
        sp = dtype_spec(dt)
        k, n = (sp[0], sp[1] or 1) if sp else ("s", 1)
        vals = vals_of_wire(f[3], [(k, n)] * (f[3].count(",") + 1))
        out = any_err(lambda: bitstring.Array(dt, vals).tobytes(), hexwire)
        if out.startswith("ok"):
            a = bitstring.Array(dt, vals)
            extra["tolist"] = any_err(a.tolist, lambda v: repr(exact(v)))
            extra["itemsize"] = a.itemsize
            extra["len"] = len(a)
            extra["frombytes"] = any_err(lambda: bitstring.Array(dt, a.tobytes()).tolist(), lambda v: repr(exact(v)))
            extra["append"] = any_err(lambda: _append_all(dt, vals), hexwire)
        return out, extra
    if op == "alist":
        dt, bits = f[2], unwire(f[3])
        sp = dtype_spec(dt)
        n = (sp[1] or 1) if sp else 1
        out = any_err(lambda: bitstring.Array(dt, mk("BitArray", bits)).tolist(), lambda v: canon_list(v, [n] * max(1, len(v))))
        extra["exact"] = any_err(lambda: bitstring.Array(dt, mk("BitArray", bits)).tolist(), lambda v: repr(exact(v)))
        extra["iter"] = any_err(lambda: list(bitstring.Array(dt, mk("BitArray", bits))), lambda v: repr(exact(v)))

        def by_index():
            a = bitstring.Array(dt, mk("BitArray", bits))
            return [a[i] for i in range(len(a))] + ([a[-1]] if len(a) else [])
        extra["index"] = any_err(by_index, lambda v: repr(exact(v)))
        extra["equals_self"] = any_err(lambda: bitstring.Array(dt, mk("BitArray", bits)).equals(bitstring.Array(dt, mk("BitArray", bits))), str)
        if sp and len(dt) == 2 and dt[0] in "=@" and dt[1] in TYPECODES and array.array(dt[1]).itemsize == n and len(bits) % (8 * n) == 0:
            src = array.array(dt[1])
            src.frombytes(bytes_of_bits(bits))               # the reference values, by the array module itself
            if not any(v != v for v in src):
                extra["equals_array"] = any_err(lambda: bitstring.Array(dt, mk("BitArray", bits)).equals(src), str)
        return out, extra
    if op == "aswap":
        dt, bits = f[2], unwire(f[3])

        def run():
            a = bitstring.Array(dt, mk("BitArray", bits))
            a.byteswap()
            return a
        out = any_err(run, lambda a: wire(a.data))
        if out.startswith("ok"):
            a = run()
            extra["before_exact"] = any_err(lambda: bitstring.Array(dt, mk("BitArray", bits)).tolist(), lambda v: repr(exact(v)))[3:]
            opp = _opposite(dt)
            if opp:
                extra["opp_exact"] = any_err(lambda: bitstring.Array(opp, a.data).tolist(), lambda v: repr(exact(v)))
            a.byteswap()
            extra["twice"] = wire(a.data)
        return out, extra
    if op == "aext":
        dt, tc, isz = f[2], f[4], int(f[5])
        sp = dtype_spec(dt)
        k, n = (sp[0], sp[1] or 1) if sp else ("s", 1)
        pre = vals_of_wire(f[3], [(k, n)] * (f[3].count(",") + 1))
        tk = "u" if tc in "uw" else STD[tc][0]
        src = _mk_array(tc, isz, f[6])
        assert src.itemsize == isz, (tc, src.itemsize, isz)

        def run():
            a = bitstring.Array(dt, pre)
            a.extend(src)
            return a
        out = any_err(run, lambda a: wire(a.data) + " " + canon_list(a.tolist(), [n] * max(1, len(a))))
        extra["src_bytes"] = src.tobytes().hex()
        extra["src_exact"] = repr(exact(src.tolist())) if tc not in "uw" else None
        if out.startswith("ok"):
            a = run()
            extra["exact"] = repr(exact(a.tolist()))
            extra["equals"] = any_err(lambda: bitstring.Array(dt, src).equals(src), str)
        if not pre:
            extra["ctor"] = any_err(lambda: bitstring.Array(dt, src), lambda a: wire(a.data))
        extra["src_after"] = src.tobytes().hex()
        return out, extra
    raise ValueError(line)


def _slices(fmts, parts):
    k = 0
    for x, cs in zip(fmts, parts):
        yield x, k, k + len(cs)
        k += len(cs)


def _append_all(dt, vals):
    a = bitstring.Array(dt)
    for v in vals:
        a.append(v)
    return a.tobytes()


def _opposite(dt):
    if len(dt) == 2 and dt[0] in ENDIANS:
        o = {"<": "little", ">": "big"}.get(dt[0], NATIVE)
        return (">" if o == "little" else "<") + dt[1]
    m = re.fullmatch(r"(uint|int|float)(be|le|ne)(\d+)", dt)
    if m:
        o = {"be": "big", "le": "little", "ne": NATIVE}[m.group(2)]
        return m.group(1) + ("be" if o == "little" else "le") + m.group(3)
    return None


def _mk_array(tc, isz, s):
    if tc in "uw":
        return array.array(tc, "".join(chr(int(t)) for t in s.split(",")) if s != "-" else "")
    k = STD[tc][0]
    return array.array(tc, vals_of_wire(s, [(k, isz)] * (s.count(",") + 1)))


# ------------------------------------------------------------------------------------------------ oracle
def _byteswap_ref(bits, fm, st, en, rep):
    """byteswap from its documentation: pattern of byte sizes, applied from `start`, repeated as often as it fits
    before `end` (once at most without repeat); returns (repeats, bits) or None for an error."""
    n = len(bits)
    a = 0 if st is None else (st + n if st < 0 else st)
    z = n if en is None else (en + n if en < 0 else en)
    if not 0 <= a <= z <= n:
        return None
    if fm is None or (isinstance(fm, int) and fm == 0):
        sizes = [(z - a) // 8]
    elif isinstance(fm, int):
        if fm < 0:
            return None
        sizes = [fm]
    elif isinstance(fm, str):
        m = re.fullmatch(r"[<>=@]?((?:\d*[bBhHlLiIqQefd])+)", fm)
        if not m:
            return None
        sizes = []
        for cnt, c in re.findall(r"(\d*)([A-Za-z])", m.group(1)):
            sizes += [STD[c][1]] * (int(cnt) if cnt else 1)
    else:
        if any(k < 0 for k in fm):
            return None
        sizes = list(fm)
    total = 8 * sum(sizes)
    if total == 0:
        return 0, bits
    k = (z - a) // total if rep else (1 if a + total <= z else 0)
    out, p = list(bits), a
    for _ in range(k):
        for s in sizes:
            seg = bits[p:p + 8 * s]
            out[p:p + 8 * s] = "".join(seg[i:i + 8] for i in range(8 * s - 8, -1, -8))
            p += 8 * s
    return k, "".join(out)


def _struct_ref(thunk):
    try:
        return thunk()
    except (struct.error, OverflowError, TypeError, ValueError):
        return None


def oracle(line: str, out: str, extra: dict):
    if extra.get("observe_exception"):
        return "an observation of the result raised " + extra["observe_exception"]
    f = line.split(SEP)
    op = f[1]
    if op == "pack":
        fmt = f[2]
        if not GRAMMAR.match(fmt):
            return None if out == "err" else f"pack({fmt!r}): not a struct-style format of the property, expected an exception, got {out}"
        e, codes = expand(fmt)
        specs = [STD[c] for c in codes]
        vals = vals_of_wire(f[3], specs)
        ref = _struct_ref(lambda: struct.pack(fmt, *vals))
        exp = "err" if ref is None else "ok " + hexwire(ref)
        if out != exp:
            return f"pack({fmt!r}, {vals}).bytes: struct.pack gives {exp}, got {out}"
        if ref is not None:
            if extra["cls"] != "BitStream" or extra["bitlen"] != 8 * len(ref):
                return f"pack returned a {extra['cls']} of {extra['bitlen']} bits"
            sizes = [sp[1] for sp in specs]
            want = "ok " + canon_list(vals, sizes)
            if extra["unpack"] != want:
                return f"unpack({fmt!r}) of the packed object gives {extra['unpack']}, packed values were {want}"
            if extra["unpack_exact"] != "ok " + repr(exact(struct.unpack(fmt, ref))):
                return f"unpack({fmt!r}) gives {extra['unpack_exact']}, struct.unpack gives {exact(struct.unpack(fmt, ref))}"
            if extra["readlist"] != want + " " + str(8 * len(ref)):
                return f"readlist({fmt!r}) gives {extra['readlist']}, expected {want} {8 * len(ref)}"
            if extra["listfmt"] != exp:
                return f"pack([{fmt!r}], …) gives {extra['listfmt']}, pack({fmt!r}, …) gives {out}"
        return None
    if op in ("packm", "unpackm"):
        fmt = f[2]
        toks = ref_tokens(fmt)
        parts = [expand(t)[1] for t in toks]
        specs = [STD[c] for cs in parts for c in cs]
        sizes = [sp[1] for sp in specs]
        written_out = " ".join(toks)
        if op == "packm":
            vals = vals_of_wire(f[3], specs)
            refs = [_struct_ref(lambda: struct.pack(t, *vals[i:j])) if len(vals) >= j else None for t, i, j in _slices(toks, parts)]
            if any(r is None for r in refs) or len(vals) != len(specs):
                return None if out == "err" else f"pack({fmt!r}, {vals!r}): struct.pack refuses a part, expected an exception, got {out}"
            exp = "ok " + hexwire(b"".join(refs))
            if out != exp:
                return f"pack({fmt!r}, {vals!r}).bytes: struct.pack of the format written out ({written_out}) gives {exp}, got {out}"
            if extra["again"] != exp:
                return f"pack({fmt!r}, …) evaluated again gives {extra['again']}, expected {exp}"
            if extra["unpack"] != "ok " + canon_list(vals, sizes):
                return f"unpack({fmt!r}) of the packed object gives {extra['unpack']}, packed values were {canon_list(vals, sizes)}"
            return None
        data = unhex(f[3])
        need = sum(sizes)
        if len(data) < need:
            return None if out == "err" else f"unpack({fmt!r}) of {len(data)} bytes ({need} needed): expected an exception, got {out}"
        ref, off = [], 0
        for t, cs in zip(toks, parts):
            n = struct.calcsize(t)
            ref += list(struct.unpack(t, data[off:off + n]))
            off += n
        exp = "ok " + canon_list(ref, sizes)
        if out != exp:
            return f"Bits(bytes={data.hex()}).unpack({fmt!r}): struct.unpack of the format written out ({written_out}) gives {exp}, got {out}"
        for k in ("again", "readlist"):
            if extra[k] != exp:
                return f"unpack({fmt!r}) route {k} gives {extra[k]}, expected {exp}"
        return None
    if op == "packl":
        fmts = f[2].split(";")
        parts = [expand(x)[1] for x in fmts]
        specs = [STD[c] for cs in parts for c in cs]
        sizes = [sp[1] for sp in specs]
        vals = vals_of_wire(f[3], specs)
        refs = [_struct_ref(lambda: struct.pack(x, *vals[i:j])) if len(vals) >= j else None for x, i, j in _slices(fmts, parts)]
        if any(r is None for r in refs) or len(vals) != len(specs):
            return None if out == "err" else f"pack({fmts!r}, {vals!r}): struct.pack refuses a part, expected an exception, got {out}"
        exp = "ok " + hexwire(b"".join(refs))
        if out != exp:
            return f"pack({fmts!r}, {vals!r}).bytes: concatenation of struct.pack of the parts gives {exp}, got {out}"
        for k in ("again", "third", "joined"):
            if extra[k] != exp:
                return (f"pack({fmts!r}, {vals!r}) evaluated again ({k}) gives {extra[k]}, the first evaluation and struct.pack "
                        f"give {exp}")
        i = 0
        for x, cs, r, got, ugot in zip(fmts, parts, refs, extra["singles"], extra["unpack_singles"]):
            vp = vals[i:i + len(cs)]
            if got != "ok " + hexwire(r):
                return f"after the list call, pack({x!r}, {vp!r}).bytes gives {got}, struct.pack gives {r.hex()}"
            want = "ok " + canon_list(struct.unpack(x, r), sizes[i:i + len(cs)])
            if ugot != want:
                return f"after the list call, unpack({x!r}) of {r.hex()} gives {ugot}, struct.unpack gives {want}"
            i += len(cs)
        want = "ok " + canon_list(vals, sizes)
        for k in ("unpackl", "unpackl_again"):
            if extra[k] != want:
                return f"unpack({fmts!r}) ({k}) gives {extra[k]}, expected {want}"
        return None
    if op == "packd":
        fmt = f[2]
        e, codes = expand(fmt)
        vals = vals_of_wire(f[3], [STD[c] for c in codes])
        try:
            ref = struct.pack(fmt, *vals)
        except OverflowError:
            return None            # struct refuses the value (beyond the rounding threshold): outside "in-range values"
        exp = "ok " + hexwire(ref)
        if out != exp:
            return f"pack({fmt!r}, {vals!r}).bytes: struct.pack gives {exp}, got {out}"
        for k in ("listfmt", "tokens"):
            if extra[k] != exp:
                return f"pack route {k} for {fmt!r}, {vals!r} gives {extra[k]}, struct.pack gives {exp}"
        return None
    if op == "arrd":
        dt = f[2]
        k, n, o, bl = dtype_spec(dt)
        vals = vals_of_wire(f[3], [("f", 8)] * (f[3].count(",") + 1))
        try:
            if len(dt) == 2:
                ref = struct.pack("%s%d%s" % (dt[0], len(vals), dt[1]), *vals)
            else:
                ref = b"".join(ref_item_bytes(v, k, n, o) for v in vals)
        except OverflowError:
            return None
        exp = "ok " + hexwire(ref)
        if out != exp:
            return f"Array({dt!r}, {vals!r}).tobytes(): struct.pack gives {exp}, got {out}"
        if extra["append"] != exp:
            return f"appending one by one gives {extra['append']}, struct.pack gives {exp}"
        return None
    if op == "unpack":
        fmt, data = f[2], unhex(f[3])
        if not GRAMMAR.match(fmt):
            return None if out == "err" else f"unpack({fmt!r}): not a struct-style format, expected an exception, got {out}"
        e, codes = expand(fmt)
        sizes = [STD[c][1] for c in codes]
        ref = _struct_ref(lambda: struct.unpack_from(fmt, data)) if len(data) >= struct.calcsize(fmt) else None
        exp = "err" if ref is None else "ok " + canon_list(ref, sizes)
        if out != exp:
            return f"Bits(bytes={data.hex()}).unpack({fmt!r}): struct.unpack gives {exp}, got {out}"
        if ref is not None and extra["exact"] != "ok " + repr(exact(ref)):
            return f"unpack({fmt!r}) values {extra['exact']} differ from struct.unpack {exact(ref)}"
        if extra["readlist"] != exp:
            return f"readlist({fmt!r}) gives {extra['readlist']}, unpack gives {out}"
        if extra["bits_after"] != data.hex():
            return "unpack changed the bitstring"
        return None
    if op == "interp":
        bits = unwire(f[2])
        if not bits or len(bits) % 8:
            return None if out == "err" else f"le/be/ne integer interpretation of {len(bits)} bits: expected an exception, got {out}"
        d = bytes_of_bits(bits)
        I = int.from_bytes
        ref = [I(d, "little"), I(d, "big"), I(d, NATIVE), I(d, "little", signed=True), I(d, "big", signed=True), I(d, NATIVE, signed=True)]
        exp = "ok " + ",".join(map(str, ref))
        if out != exp:
            return f"uintle,uintbe,uintne,intle,intbe,intne of 0x{d.hex()}: int.from_bytes gives {exp}, got {out}"
        want = f"ok {ref[0]},{ref[3]},{ref[0]},{ref[3]}"
        if extra["rev_be"] != want:
            return f"big-endian reading of the byte-reversed bits gives {extra['rev_be']}, little-endian reading is {ref[0]},{ref[3]}"
        if extra["rev_le"] != f"ok {ref[1]},{ref[4]}":
            return f"little-endian reading of the byte-reversed bits gives {extra['rev_le']}, big-endian reading is {ref[1]},{ref[4]}"
        if extra["swap_ret"] != "ok 1" or extra["swapped_bits"] != bits_of_bytes(d[::-1]):
            return f"byteswap() of 0x{d.hex()} returned {extra['swap_ret']} and left {extra['swapped_bits']}"
        if extra["swapped_be"] != f"ok {ref[0]},{ref[3]}":
            return f"after byteswap() the big-endian reading is {extra['swapped_be']}, the little-endian reading was {ref[0]},{ref[3]}"
        return None
    if op == "interpf":
        bits = unwire(f[2])
        if len(bits) not in (16, 32, 64):
            return None if out == "err" else f"float interpretation of {len(bits)} bits: expected an exception, got {out}"
        d = bytes_of_bits(bits)
        c = FCODE[len(d)]
        ref = [struct.unpack("<" + c, d)[0], struct.unpack(">" + c, d)[0], struct.unpack("=" + c, d)[0]]
        exp = "ok " + canon_list(ref, [len(d)] * 3)
        if out != exp:
            return f"floatle,floatbe,floatne of 0x{d.hex()}: struct.unpack gives {exp}, got {out}"
        if extra["exact"] != "ok " + repr(exact(ref + [ref[1]])):
            return f"float readings {extra['exact']} differ from struct.unpack {exact(ref)}"
        if extra["rev_exact"] != "ok " + repr(exact([ref[0], ref[1]])):
            return f"floatbe/floatle of the byte-reversed bits give {extra['rev_exact']}, expected {exact([ref[0], ref[1]])}"
        if extra["swapped_exact"] != "ok " + repr(exact([ref[0]])):
            return f"after byteswap() floatbe is {extra['swapped_exact']}, floatle was {exact([ref[0]])}"
        return None
    if op == "enc":
        name, n = f[2], int(f[3])
        m = re.fullmatch(r"(uint|int|float)(be|le|ne|)", name)
        kind = {"uint": "u", "int": "s", "float": "f"}[m.group(1)]
        order = {"be": "big", "le": "little", "ne": NATIVE, "": "big"}[m.group(2)]
        bytewise = m.group(2) != "" or kind == "f"
        ok_len = n > 0 and ((n % 8 == 0) if bytewise else True) and (n in (16, 32, 64) if kind == "f" else True)
        exp = "err"
        if ok_len:
            v = val_of_wire(f[4], kind, n // 8)
            if kind == "f":
                exp = "ok " + bits_of_bytes(ref_item_bytes(v, "f", n // 8, order))
            else:
                lo, hi = (-(1 << (n - 1)), 1 << (n - 1)) if kind == "s" else (0, 1 << n)
                if lo <= v < hi:
                    if n % 8 == 0:
                        exp = "ok " + bits_of_bytes(v.to_bytes(n // 8, order, signed=(kind == "s")))
                    else:
                        exp = "ok " + format(v % (1 << n), "0%db" % n)
        if out != exp:
            return f"BitArray({name}={f[4]}, length={n}): to_bytes gives {exp}, got {out}"
        for k, r in extra["routes"].items():
            if r is not None and r != exp:
                return f"creation route {k} for {name}:{n}={f[4]} gives {r}, keyword route gives {out}"
        if exp != "err":
            if extra["readback"] != "ok " + f[4]:
                return f"reading .{name} back gives {extra['readback']}, value set was {f[4]}"
            if n % 8 == 0 and m.group(2) != "":
                other = {"big": "little", "little": "big"}[order]
                want = bits_of_bytes(ref_item_bytes(val_of_wire(f[4], kind, n // 8), kind, n // 8, other))
                if extra["swapped"] != want:
                    return f"byteswap() of the {order}-endian encoding gives {extra['swapped']}, the {other}-endian encoding is {want}"
        return None
    if op == "bswap":
        bits = unwire(f[3])
        fm, st, en, rep = fmt_arg(f[4]), _opt(f[5]), _opt(f[6]), f[7] == "1"
        ref = _byteswap_ref(bits, fm, st, en, rep)
        exp = "err" if ref is None else f"ok {ref[0]} {wire(ref[1])}"
        if out != exp:
            return f"byteswap({fm!r}, {st}, {en}, {rep}) on {wire(bits)}: byte-group reversal gives {exp}, got {out}"
        if ref is None:
            if extra["after"] != wire(bits):
                return f"failed byteswap changed the bitstring to {extra['after']}"
        elif extra["twice"] != f"ok {ref[0]} {wire(bits)}":
            return f"byteswap applied twice gives {extra['twice']}, expected {ref[0]} {wire(bits)} (the original)"
        return None
    if op == "arr":
        dt = f[2]
        sp = dtype_spec(dt)
        if sp is None:
            return None if out == "err" else f"Array({dt!r}): expected an exception, got {out}"
        k, n, o, bl = sp
        bad_len = (k == "f" and bl not in (16, 32, 64)) or bl == 0 or (n is None and re.search(r"(be|le|ne)\d", dt) is not None)
        if bad_len:
            return None if out == "err" else f"Array({dt!r}): expected an exception, got {out}"
        vals = vals_of_wire(f[3], [(k, n or 1)] * (f[3].count(",") + 1))
        if n is None:                                        # not whole-byte: big-endian bit fields, zero padded
            lo, hi = (-(1 << (bl - 1)), 1 << (bl - 1)) if k == "s" else (0, 1 << bl)
            if all(lo <= v < hi for v in vals):
                s = "".join(format(v % (1 << bl), "0%db" % bl) for v in vals)
                s += "0" * (-len(s) % 8)
                exp, ref = "ok " + hexwire(bytes_of_bits(s)), None
            else:
                exp, ref = "err", None
        else:
            if len(dt) == 2:                                  # struct code: the struct module itself
                ref = _struct_ref(lambda: struct.pack("%s%d%s" % (dt[0], len(vals), dt[1]), *vals))
            else:
                ref = _struct_ref(lambda: b"".join(ref_item_bytes(v, k, n, o) for v in vals))
            exp = "err" if ref is None else "ok " + hexwire(ref)
        if out != exp:
            return f"Array({dt!r}, {vals}).tobytes(): reference gives {exp}, got {out}"
        if exp != "err":
            if extra["itemsize"] != bl or extra["len"] != len(vals):
                return f"Array({dt!r}) has itemsize {extra['itemsize']} and length {extra['len']}"
            if n is not None:
                if len(dt) == 2 and dt[0] in "=@" and dt[1] in TYPECODES and array.array(dt[1]).itemsize == n:
                    ab = array.array(dt[1], vals).tobytes()
                    if out != "ok " + hexwire(ab):
                        return f"Array({dt!r}, {vals}).tobytes() = {out}, array.array({dt[1]!r}, …).tobytes() = {ab.hex()}"
                want = repr(exact([ref_item_value(ref[i:i + n], k, o) for i in range(0, len(ref), n)]))
                if extra["tolist"] != "ok " + want:
                    return f"Array({dt!r}, {vals}).tolist() gives {extra['tolist']}, expected {want}"
                if extra["frombytes"] != "ok " + want:
                    return f"Array({dt!r}, tobytes).tolist() gives {extra['frombytes']}, expected {want}"
            if extra["append"] != exp:
                return f"appending one by one gives {extra['append']}, the initialiser gives {out}"
        return None
    if op == "alist":
        dt, bits = f[2], unwire(f[3])
        sp = dtype_spec(dt)
        if sp is None or sp[1] is None:
            return None
        k, n, o, bl = sp
        cnt = len(bits) // bl
        d = bytes_of_bits(bits[:cnt * bl])
        if len(dt) == 2:                                      # struct code: the struct module itself
            sf = "%s%d%s" % (dt[0], cnt, dt[1])
            if struct.calcsize(sf) != len(d):
                return (f"Array({dt!r}) reads {cnt} items from {len(d)} bytes, struct.calcsize({sf!r}) = {struct.calcsize(sf)}: "
                        f"item size differs from struct's; got {out}")
            ref = list(struct.unpack(sf, d))
        else:
            ref = [ref_item_value(d[i:i + n], k, o) for i in range(0, len(d), n)]
        exp = "ok " + canon_list(ref, [n] * max(1, cnt))
        if out != exp:
            return f"Array({dt!r}, {wire(bits)}).tolist(): reference gives {exp}, got {out}"
        if extra["exact"] != "ok " + repr(exact(ref)):
            return f"Array({dt!r}).tolist() values {extra['exact']} differ from {exact(ref)}"
        if extra["iter"] != extra["exact"]:
            return f"iterating gives {extra['iter']}, tolist gives {extra['exact']}"
        if extra["index"] != "ok " + repr(exact(ref + ref[-1:])):
            return f"indexing gives {extra['index']}, struct gives {exact(ref + ref[-1:])}"
        if extra["equals_self"] != "ok True":
            return f"Array({dt!r}, data).equals(an equal Array) is {extra['equals_self']}"
        if extra.get("equals_array", "ok True") != "ok True":
            return f"Array({dt!r}, data).equals(array.array({dt[1]!r}) of the same bytes) is {extra['equals_array']}"
        return None
    if op == "aswap":
        dt, bits = f[2], unwire(f[3])
        bl = dtype_bits(dt)
        if bl is None:
            return None if out == "err" else f"Array({dt!r}): not a valid Array dtype, expected an exception, got {out}"
        if bl % 8:
            return None if out == "err" else f"Array({dt!r}).byteswap() on {bl}-bit items: expected ValueError, got {out}"
        cnt = len(bits) // bl
        body = "".join(bits_of_bytes(bytes_of_bits(bits[i * bl:(i + 1) * bl])[::-1]) for i in range(cnt))
        exp = "ok " + wire(body + bits[cnt * bl:])
        if out != exp:
            return f"Array({dt!r}, {wire(bits)}).byteswap(): every {bl // 8}-byte item byte-reversed gives {exp}, got {out}"
        if extra["twice"] != wire(bits):
            return f"Array.byteswap applied twice gives {extra['twice']}, expected the original {wire(bits)}"
        if "opp_exact" in extra and extra["opp_exact"] != "ok " + extra["before_exact"]:
            return (f"after byteswap the opposite-endian dtype {_opposite(dt)!r} reads {extra['opp_exact']}, "
                    f"{dt!r} read {extra['before_exact']} before")
        if len(f) > 4:                                      # the data is struct.pack('>' + k*code, …) viewed through dt
            c = f[4]
            d = bytes_of_bits(bits[:cnt * bl])
            k = len(d) // STD[c][1]
            le = struct.pack("<%d%s" % (k, c), *struct.unpack(">%d%s" % (k, c), d))
            if unwire(out[3:])[:cnt * bl] != bits_of_bytes(le):
                return (f"data packed with '>{c}' viewed as Array({dt!r}) byteswaps to {out}, "
                        f"the '<{c}' encoding is {bits_of_bytes(le)}")
        return None
    if op == "aext":
        dt, tc, isz = f[2], f[4], int(f[5])
        sp = dtype_spec(dt)
        if sp is None:
            return None
        k, n, o, bl = sp
        if extra["src_after"] != extra["src_bytes"]:
            return "extend changed the source array.array"
        tk = None if tc in "uw" else STD[tc][0]
        match = (tk == k and bl == 8 * isz and (o == NATIVE or isz == 1))
        canonical = match and (len(dt) == 2 or re.fullmatch(r"u?int8", dt) is not None
                               or (isz > 1 and re.search(r"(be|le|ne)\d", dt) is not None))
        if out == "err":
            if canonical:
                return (f"Array({dt!r}).extend(array.array({tc!r}, …)) raised although item kind, width ({isz} bytes) "
                        f"and byte order match")
            return None
        if not match:
            return (f"Array({dt!r}) ({k}, {bl} bits, {o}) accepted array.array({tc!r}) (kind {tk}, itemsize {isz} bytes): "
                    f"kind and width must match; read back {out}")
        pre = vals_of_wire(f[3], [(k, n or 1)] * (f[3].count(",") + 1))
        src = _mk_array(tc, isz, f[6])
        want_vals = list(pre) + src.tolist()
        want_bits = "".join(bits_of_bytes(ref_item_bytes(v, k, n, o)) for v in pre) + bits_of_bytes(src.tobytes())
        exp = "ok " + wire(want_bits) + " " + canon_list(want_vals, [n] * max(1, len(want_vals)))
        if out != exp:
            return f"Array({dt!r}, {pre}).extend(array.array({tc!r}, {src.tolist()})): expected {exp}, got {out}"
        if extra["exact"] != repr(exact(want_vals)):
            return f"values read back {extra['exact']} differ from {exact(want_vals)}"
        if extra.get("ctor") is not None and extra["ctor"] != "ok " + wire(want_bits):
            return f"Array({dt!r}, array.array(…)) gives {extra['ctor']}, extend gives {wire(want_bits)}"
        if extra["equals"] != "ok True":
            return f"Array({dt!r}, a).equals(a) is {extra['equals']}"
        return None
    return "unknown op"


# ------------------------------------------------------------------------------------------------ regions
def _at_region(line):
    """'@' prefix with codes whose native size / alignment differs from the standard one on this platform."""
    f = line.split(SEP)
    if f[1] in ("pack", "unpack", "packd") and f[2].startswith("@") and GRAMMAR.match(f[2]):
        return struct.calcsize(f[2]) != struct.calcsize("=" + f[2][1:])
    if f[1] in ("arr", "alist", "arrd") and len(f[2]) == 2 and f[2][0] == "@" and f[2][1] in STD:
        return struct.calcsize(f[2]) != STD[f[2][1]][1]
    return False


REGIONS = {"native_at_prefix_platform_sizes": _at_region}


def compare(out, model_out, line):
    """IMPL = MODEL, except inside a known-deviation region: there the model transcribes the deviant behaviour of the
    pinned tree and is *not* the specification, so an implementation that satisfies the property itself (oracle
    silent, e.g. after the proposed fix) is not a disagreement."""
    if out == model_out:
        return True
    if any(pred(line) for pred in REGIONS.values()):
        o, e = execute(line)
        return o == out and oracle(line, o, e) is None
    return False


def model_line(line):
    f = line.split(SEP)
    if f[1] == "bswap":
        del f[2]                                            # the class is not part of the model
    if f[1] == "aswap" and len(f) > 4:
        del f[4]                                            # the struct code the data was made with
    return SEP.join(f)


def nontrivial(line):
    f = line.split(SEP)
    return f[-1] != "-" or f[1] in ("pack", "arr")


# ------------------------------------------------------------------------------------------------ generators
def _int_limits(kind, size):
    n = 8 * size
    if kind == "s":
        lo, hi = -(1 << (n - 1)), (1 << (n - 1)) - 1
        return [lo, hi, 0, 1, -1, lo + 1, hi - 1, -2, 127, -128, 128, -129, 255, 256][: 14 if size > 1 else 9]
    hi = (1 << n) - 1
    return [0, hi, 1, hi - 1, 1 << (n - 1), (1 << (n - 1)) - 1, 255, 256, 2][: 9 if size > 1 else 6]


def _int_outside(kind, size):
    n = 8 * size
    return [-(1 << (n - 1)) - 1, 1 << (n - 1)] if kind == "s" else [-1, 1 << n]


FLOAT_LAYOUT = {2: (5, 10), 4: (8, 23), 8: (11, 52)}


def _is_nan(p, size):
    eb, mb = FLOAT_LAYOUT[size]
    return (p >> mb) & ((1 << eb) - 1) == (1 << eb) - 1 and p & ((1 << mb) - 1) != 0


def _float_patterns(size):
    eb, mb = FLOAT_LAYOUT[size]
    sign = 1 << (eb + mb)
    one = ((1 << (eb - 1)) - 1) << mb
    inf = ((1 << eb) - 1) << mb
    ps = [0, sign, 1, (1 << mb) - 1, 1 << mb, one, one | sign, inf - 1, inf, inf | sign, sign | 1,
          one + 1, (one << 1) & (inf - 1) | 3,
          int.from_bytes(bytes(range(1, size + 1)), "big")]           # all bytes different: 0x0102…
    return [p for p in ps if not _is_nan(p, size)]


def _rand_val(rng, kind, size):
    if kind == "f":
        while True:
            p = rng.getrandbits(8 * size)
            if not _is_nan(p, size):
                return "f%x" % p
    n = 8 * size
    if kind == "s":
        return str(rng.getrandbits(n) - (1 << (n - 1)))
    return str(rng.getrandbits(n))


def _tok(kind, v):
    return ("f%x" % v) if kind == "f" else str(v)


def _count_spelling(rng, code, k):
    if k == 1:
        return rng.choice([code, code, "1" + code])
    r = rng.random()
    if r < 0.4:
        return f"{k}{code}"
    if r < 0.7:
        return code * k
    if r < 0.85:
        return f"0{k}{code}"
    return f"{k - 1}{code}{code}"


def gen_struct(rng, big):
    # 13 codes x 4 prefixes x counts 1..3 x limit values
    for e in ENDIANS:
        for c in CODES:
            kind, size = STD[c]
            lim = _float_patterns(size) if kind == "f" else _int_limits(kind, size)
            for k in (1, 2, 3):
                combos = [[v] * k for v in lim]
                for _ in range(6 if big else 3):
                    combos.append([rng.choice(lim) for _ in range(k)])
                for vs in combos:
                    fmt = e + _count_spelling(rng, c, k)
                    vals = ",".join(_tok(kind, v) for v in vs)
                    yield SEP.join(["C18", "pack", fmt, vals])
                    try:
                        data = struct.pack(("=" if e == "@" else e) + fmt[1:], *vals_of_wire(vals, [(kind, size)] * k))
                        yield SEP.join(["C18", "unpack", fmt, hexwire(data)])
                    except struct.error:
                        pass
                for _ in range(12 if big else 3):
                    yield SEP.join(["C18", "pack", e + _count_spelling(rng, c, k), ",".join(_rand_val(rng, kind, size) for _ in range(k))])
                    yield SEP.join(["C18", "unpack", e + _count_spelling(rng, c, k), hexwire(bytes(rng.getrandbits(8) for _ in range(k * size)))])
                if kind != "f":
                    for v in _int_outside(kind, size):                               # out of range: both raise
                        vs = [rng.choice(lim) for _ in range(k)]
                        vs[rng.randrange(k)] = v
                        yield SEP.join(["C18", "pack", e + _count_spelling(rng, c, k), ",".join(map(str, vs))])
            # arity errors, short and long buffers
            yield SEP.join(["C18", "pack", e + "2" + c, _rand_val(rng, kind, size)])
            yield SEP.join(["C18", "pack", e + c, _rand_val(rng, kind, size) + "," + _rand_val(rng, kind, size)])
            yield SEP.join(["C18", "pack", e + c, "-"])
            yield SEP.join(["C18", "pack", e + "0" + c, "-"])
            for ln in {0, size - 1, size, size + 1, 2 * size - 1, 2 * size}:
                yield SEP.join(["C18", "unpack", e + c, hexwire(bytes(rng.getrandbits(8) for _ in range(ln)))])
    # multi-code formats
    for _ in range(30000 if big else 5000):
        e = rng.choice(ENDIANS)
        parts, vals, specs = [], [], []
        for _ in range(rng.randint(1, 6 if rng.random() < 0.9 else 12)):
            c = rng.choice(CODES)
            k = rng.choice([1, 1, 1, 2, 3, 0, rng.randint(1, 12)]) if rng.random() < 0.5 else 1
            parts.append(_count_spelling(rng, c, k) if k else "0" + c)
            kind, size = STD[c]
            for _ in range(k):
                if rng.random() < 0.4:
                    vals.append(_tok(kind, rng.choice(_float_patterns(size) if kind == "f" else _int_limits(kind, size))))
                else:
                    vals.append(_rand_val(rng, kind, size))
                specs.append((kind, size))
        fmt = e + "".join(parts)
        if not specs:
            fmt += "b"; vals.append("5"); specs.append(("s", 1))
        yield SEP.join(["C18", "pack", fmt, ",".join(vals)])
        if rng.random() < 0.7:
            need = struct.calcsize("=" + fmt[1:])
            data = bytes(rng.getrandbits(8) for _ in range(need))
            r = rng.random()
            if r < 0.1 and need:
                data = data[:rng.randrange(need)]
            elif r < 0.25:
                data += bytes(rng.getrandbits(8) for _ in range(rng.randint(1, 9)))
            yield SEP.join(["C18", "unpack", fmt, hexwire(data)])


def gen_interp(rng, big):
    for nbytes in range(1, 9):
        pats = [bytes([0] * nbytes), bytes([255] * nbytes), bytes([128] + [0] * (nbytes - 1)), bytes([0] * (nbytes - 1) + [128]),
                bytes([127] + [255] * (nbytes - 1)), bytes([255] * (nbytes - 1) + [127]), bytes(range(1, nbytes + 1)),
                bytes([1] + [0] * (nbytes - 1)), bytes([0] * (nbytes - 1) + [1]), bytes(range(0xf0, 0xf0 + nbytes))]
        for p in pats:
            yield SEP.join(["C18", "interp", bits_of_bytes(p)])
        for _ in range(1200 if big else 400):
            yield SEP.join(["C18", "interp", bits_of_bytes(bytes(rng.getrandbits(8) for _ in range(nbytes)))])
    if big:
        for v in range(1 << 16):
            yield SEP.join(["C18", "interp", format(v, "016b")])
    else:
        for v in range(256):
            yield SEP.join(["C18", "interp", format(v, "08b")])
        for v in range(0, 1 << 16, 97):
            yield SEP.join(["C18", "interp", format(v, "016b")])
    for nbytes in (9, 12, 16, 17, 32, 100):
        for _ in range(20 if big else 4):
            yield SEP.join(["C18", "interp", bits_of_bytes(bytes(rng.getrandbits(8) for _ in range(nbytes)))])
    for n in [0, 1, 2, 7, 9, 12, 15, 17, 23, 31, 33, 63, 65]:
        yield SEP.join(["C18", "interp", wire(rand_bits(rng, n))])
    # floats
    for size in (2, 4, 8):
        for p in _float_patterns(size):
            yield SEP.join(["C18", "interpf", format(p, "0%db" % (8 * size))])
            yield SEP.join(["C18", "interpf", bits_of_bytes(p.to_bytes(size, "big")[::-1])])
        for _ in range(4000 if big else 500):
            yield SEP.join(["C18", "interpf", format(rng.getrandbits(8 * size), "0%db" % (8 * size))])
    if big:
        for v in range(1 << 16):
            yield SEP.join(["C18", "interpf", format(v, "016b")])
    for n in [0, 8, 15, 17, 24, 48, 128]:
        yield SEP.join(["C18", "interpf", wire(rand_bits(rng, n))])


def gen_enc(rng, big):
    for name in ("uintle", "uintbe", "uintne", "intle", "intbe", "intne", "uint", "int"):
        kind = "u" if name.startswith("u") else "s"
        for n in (8, 16, 24, 32, 40, 48, 56, 64, 72, 128):
            for v in _int_limits(kind, n // 8) + _int_outside(kind, n // 8):
                yield SEP.join(["C18", "enc", name, str(n), str(v)])
            for _ in range(40 if big else 8):
                yield SEP.join(["C18", "enc", name, str(n), _rand_val(rng, kind, n // 8)])
        for n in (0, 1, 4, 7, 9, 12, 15, 17, 20, 31, 33):
            for v in (0, 1, -1, 5):
                yield SEP.join(["C18", "enc", name, str(n), str(v)])
    for name in ("floatle", "floatbe", "floatne", "float"):
        for size in (2, 4, 8):
            for p in _float_patterns(size):
                yield SEP.join(["C18", "enc", name, str(8 * size), "f%x" % p])
            for _ in range(60 if big else 10):
                yield SEP.join(["C18", "enc", name, str(8 * size), _rand_val(rng, "f", size)])
        for n in (0, 8, 24, 48, 128):
            yield SEP.join(["C18", "enc", name, str(n), "f0"])


SWAP_STRS = ["h", "<h", ">h", "=h", "@h", "b", "2b", "hb", "<hb", "bh", "2h", "hh", "q", "<q", "i", "l", "L", "I", "e", "f", "d", "Q",
             "hbh", "3b", "2hb", "b2h", "<2h", ">bhi", "bB", "02h", "1h", "10b", "0h", "<0h", "h0b", "ef", "<ebh"]
SWAP_BAD = ["", "<", "2", "h2", "x", "<x", "!h", "hx", "<<h", "h<", " h", "h,h", "<h>h", "?", "s"]


def _window(rng, n):
    if rng.random() < 0.35:
        return None, None
    a = rng.choice([None, 0, 8, 16, rng.randint(0, n), -rng.randint(0, n)])
    b = rng.choice([None, n, n - 8, rng.randint(0, n), -rng.randint(0, n)])
    av = 0 if a is None else (a + n if a < 0 else a)
    bv = n if b is None else (b + n if b < 0 else b)
    if not 0 <= av <= bv <= n and rng.random() < 0.85:   # mostly valid windows
        return None, None
    return a, b


def _fmt_wire(fm):
    if fm is None:
        return "None"
    if isinstance(fm, int):
        return f"i:{fm}"
    if isinstance(fm, str):
        return "s:" + fm
    return "l:" + ",".join(map(str, fm))


def gen_bswap(rng, big):
    sv = lambda x: "None" if x is None else str(x)
    fmts = ([None, 0] + list(range(1, 10)) + [[1], [2], [1, 2], [2, 1], [1, 1, 2], [0, 2], [2, 0], [0], [], [3, 1], [4], [1, 2, 3], [8]]
            + SWAP_STRS)
    for nbytes in range(0, 9):
        for trail in (0, 0, 3, 7):
            n = 8 * nbytes + trail
            for fm in fmts:
                for rep in (True, False):
                    for _ in range(2 if big else 1):
                        bits = rand_bits(rng, n) if rng.random() < 0.7 else bits_of_bytes(bytes(range(1, nbytes + 1))) + "101"[:min(3, trail)] + "0" * max(0, trail - 3)
                        a, b = (None, None) if rng.random() < 0.5 else _window(rng, n)
                        yield SEP.join(["C18", "bswap", rng.choice(MUTABLE), wire(bits), _fmt_wire(fm), sv(a), sv(b), "1" if rep else "0"])
    for _ in range(20000 if big else 5000):
        n = rng.choice([8, 16, 24, 32, 40, 48, 56, 64, 64, 72, 80, 128]) + rng.choice([0, 0, 0, 1, 4, 7])
        bits = rand_bits(rng, n)
        r = rng.random()
        if r < 0.3:
            fm = rng.choice([None, 0, 1, 2, 3, 4, 8, rng.randint(1, 12)])
        elif r < 0.6:
            fm = [rng.choice([0, 1, 1, 2, 2, 3, 4]) for _ in range(rng.randint(1, 4))]
        else:
            fm = rng.choice(["", "<", ">", "=", "@"]) + "".join(_count_spelling(rng, rng.choice(CODES), rng.choice([1, 1, 2, 3])) for _ in range(rng.randint(1, 3)))
        a, b = _window(rng, n)
        rep = rng.random() < 0.7
        yield SEP.join(["C18", "bswap", rng.choice(MUTABLE), wire(bits), _fmt_wire(fm), sv(a), sv(b), "1" if rep else "0"])
    # malformed
    for bad in SWAP_BAD:
        yield SEP.join(["C18", "bswap", "BitArray", wire(rand_bits(rng, 32)), "s:" + bad, "None", "None", "1"])
    for fm in (-1, -8, [-1], [1, -2], [2, -1, 2]):
        yield SEP.join(["C18", "bswap", "BitArray", wire(rand_bits(rng, 32)), _fmt_wire(fm), "None", "None", "1"])
    for (a, b) in [(33, None), (None, 33), (9, 8), (-33, None), (None, -33), (16, 8), (-1, -2)]:
        yield SEP.join(["C18", "bswap", "BitStream", wire(rand_bits(rng, 32)), "i:1", sv(a), sv(b), "1"])


ARRAY_NAMES = ["int8", "uint8", "int16", "uint16", "int32", "uint32", "int64", "uint64",
               "intbe16", "uintbe16", "intle16", "uintle16", "intne16", "uintne16", "intbe32", "uintle32", "intne32", "uintne32",
               "intle64", "uintne64", "intne64", "uintbe64", "intle8", "uintle8", "uintbe8", "intne8", "uintne8", "intle24", "uintbe24",
               "float16", "float32", "float64", "floatbe16", "floatle16", "floatne16", "floatle32", "floatne32", "floatbe32",
               "floatle64", "floatne64", "floatbe64"]
ARRAY_ODD = ["int12", "uint4", "uint7", "int3", "uint12", "int20"]
ARRAY_BAD = ["uintle12", "intbe7", "floatle24", "float8", "<hh", "<2h", "<", "h<", "<x", "!h", "uintle", "floatne"]


def _struct_dtypes():
    return [e + c for e in ENDIANS for c in CODES]


def gen_array(rng, big):
    dts = _struct_dtypes() + ARRAY_NAMES
    for dt in dts + ARRAY_ODD:
        k, n, o, bl = dtype_spec(dt)
        size = n or (bl + 7) // 8
        if n is None:
            lim = [0, 1, (1 << (bl - 1)) - 1] + ([-1, -(1 << (bl - 1))] if k == "s" else [(1 << bl) - 1])
            mk_rand = lambda: str(rng.randrange(1 << (bl - 1)))
        else:
            lim = _float_patterns(n) if k == "f" else _int_limits(k, n)
            mk_rand = lambda: _rand_val(rng, k, n)
        lists = [[], [lim[0]], [lim[1]], lim[:3], lim[2:5], lim]
        for vs in lists:
            yield SEP.join(["C18", "arr", dt, ",".join(_tok(k, v) for v in vs) or "-"])
        for _ in range(10 if big else 3):
            yield SEP.join(["C18", "arr", dt, ",".join(mk_rand() for _ in range(rng.randint(1, 5)))])
        if k != "f":
            bad = (_int_outside(k, n) if n else [1 << bl, -(1 << bl)])
            for v in bad:
                yield SEP.join(["C18", "arr", dt, ",".join([str(lim[0]), str(v)])])
        if n is not None:                                   # odd and even item counts, whole items
            for cnt in (1, 2, 3, 4, 5):
                yield SEP.join(["C18", "alist", dt, wire(rand_bits(rng, cnt * bl))])
        for _ in range(16 if big else 5):
            cnt = rng.randint(0, 4)
            bits = rand_bits(rng, cnt * bl + rng.choice([0, 0, 1, 3, 7, bl - 1]))
            if n is not None:
                yield SEP.join(["C18", "alist", dt, wire(bits)])
            yield SEP.join(["C18", "aswap", dt, wire(bits)])
        if n is not None:
            body = "".join(bits_of_bytes(bytes(range(16 * i + 1, 16 * i + 1 + n))) for i in range(3))
            yield SEP.join(["C18", "aswap", dt, body])
            yield SEP.join(["C18", "aswap", dt, body + "101"])
            if k != "f":
                yield SEP.join(["C18", "alist", dt, body])
    for dt in ARRAY_BAD:
        yield SEP.join(["C18", "arr", dt, "1"])
        yield SEP.join(["C18", "aswap", dt, wire(rand_bits(rng, 32))])
    # extend from array.array: every typecode x every dtype
    for tc in TYPECODES:
        isz = array.array(tc).itemsize
        tk = "u" if tc in "uw" else STD[tc][0]
        for dt in dts + ARRAY_ODD[:2]:
            k, n, o, bl = dtype_spec(dt)
            reps = 3 if (tk == k and bl == 8 * isz) else 1
            for i in range(reps if not big else reps + 2):
                if tc in "uw":
                    vals = ",".join(str(rng.choice([65, 97, 0x3b1, 0x1f600])) for _ in range(rng.randint(1, 3)))
                elif tk == "f":
                    vals = ",".join(_tok("f", rng.choice(_float_patterns(isz))) if rng.random() < 0.5 else _rand_val(rng, "f", isz)
                                    for _ in range(rng.randint(1, 3)))
                else:
                    small = rng.random() < 0.5 or i == 0
                    lim = _int_limits(tk, min(isz, (n or 1)) if small else isz)
                    vals = ",".join(str(rng.choice(lim)) for _ in range(rng.randint(1, 3)))
                if i == 2:
                    vals = "-"
                pre = "-"
                if rng.random() < 0.4 and n is not None:
                    pre = ",".join(_rand_val(rng, k, n) for _ in range(rng.randint(1, 2)))
                yield SEP.join(["C18", "aext", dt, pre, tc, str(isz), vals])


def _dtok(x: float) -> str:
    return "d%x" % int.from_bytes(struct.pack(">d", x), "big")


def _unrepresentable(rng, size, big):
    """float64 values that are NOT representable in the binary16 / binary32 target: exact ties and near-ties between
    adjacent target values (even and odd lower neighbour), the subnormal boundary, half the smallest subnormal, the band
    between the largest finite value and struct's overflow threshold (on both sides of it), far overflow; both signs."""
    eb, mb = FLOAT_LAYOUT[size]
    mx = ((1 << eb) - 1 << mb) - 1                                    # pattern of the largest finite value
    cs = [0, 1, 2, 3, (1 << mb) - 2, (1 << mb) - 1, 1 << mb, (1 << mb) + 1,              # zero / subnormal / min normal
          ((1 << (eb - 1)) - 1) << mb, (((1 << (eb - 1)) - 1) << mb) + 1, (((1 << (eb - 1)) - 1) << mb) - 1,   # around 1.0
          mx - 2, mx - 1]
    cs += [rng.randrange(0, mx - 1) for _ in range(40 if big else 10)]
    out = []
    for c in cs:
        a, b = f_of_pattern(c, size), f_of_pattern(c + 1, size)
        mid = (a + b) / 2                                             # exact in float64
        out += [mid, math.nextafter(mid, a), math.nextafter(mid, b), math.nextafter(a, b), math.nextafter(b, a),
                a + (b - a) * rng.random()]
    M = f_of_pattern(mx, size)
    ulp = M - f_of_pattern(mx - 1, size)
    T = M + ulp / 2                                                   # struct's overflow threshold (rounds to inf)
    out += [math.nextafter(M, math.inf), M + ulp / 4, (M + T) / 2, math.nextafter(T, 0.0), T, math.nextafter(T, math.inf),
            M + ulp, 2 * M, 1e300 if size == 4 else 1e10, 1.7976931348623157e308,
            M + ulp * rng.random() / 2, M + ulp * rng.random() / 2]
    tiny = f_of_pattern(1, size)
    out += [tiny / 2, math.nextafter(tiny / 2, 0.0), math.nextafter(tiny / 2, 1.0), tiny / 4, 5e-324, 2.2250738585072014e-308,
            tiny * 1.5, tiny * 2.5]
    for _ in range(200 if big else 30):                               # random doubles inside the target's range
        x = math.ldexp(1 + rng.random(), rng.randint(-(1 << (eb - 1)) - mb, (1 << (eb - 1)) - 1))
        out.append(x)
    return out + [-x for x in out]


def gen_unrepresentable(rng, big):
    for c, size in (("e", 2), ("f", 4)):
        xs = _unrepresentable(rng, size, big)
        for i, x in enumerate(xs):
            for e in (ENDIANS if (big or i % 3 == 0) else [ENDIANS[i % 4]]):
                yield SEP.join(["C18", "packd", e + c, _dtok(x)])
                if i % 2 == 0:
                    yield SEP.join(["C18", "arrd", e + c, _dtok(x)])
        for _ in range(600 if big else 120):                          # mixed with other codes, several values per call
            e = rng.choice(ENDIANS)
            k = rng.randint(1, 3)
            fmt = e + _count_spelling(rng, c, k) + rng.choice(["", "b", "H", "d"])
            vals = [_dtok(rng.choice(xs)) for _ in range(k)]
            if fmt[-1] in "bH":
                vals.append("7")
            elif fmt[-1] == "d" and not fmt.endswith(c * k) or (fmt[-1] == "d" and c != "d" and len(expand(fmt)[1]) == k + 1):
                vals.append(_dtok(rng.choice(xs)))
            if len(vals) == len(expand(fmt)[1]):
                yield SEP.join(["C18", "packd", fmt, ",".join(vals)])
            yield SEP.join(["C18", "arrd", rng.choice([e + c, "float%s%d" % (rng.choice(["", "be", "le", "ne"]), 8 * size)]),
                            ",".join(_dtok(rng.choice(xs)) for _ in range(rng.randint(1, 4)))])
    for x in [0.1, 1 / 3, 1e-320, 123456.789, -2.5e-310]:               # 'd' is the identity
        for e in ENDIANS:
            yield SEP.join(["C18", "packd", e + "d", _dtok(x)])
            yield SEP.join(["C18", "arrd", e + "d", _dtok(x)])


def gen_listform(rng, big):
    """pack / unpack through a LIST of 2-4 struct format strings with mixed prefixes ('@' left out: its cases would fall
    into the known-finding region); every case is a short history (see execute)."""
    def part():
        e = rng.choice("<>=")
        body, vals = "", []
        for _ in range(rng.randint(1, 3)):
            c = rng.choice(CODES)
            k = rng.choice([1, 1, 1, 2, 3])
            body += _count_spelling(rng, c, k)
            kind, size = STD[c]
            for _ in range(k):
                vals.append(_tok(kind, rng.choice(_float_patterns(size) if kind == "f" else _int_limits(kind, size)))
                            if rng.random() < 0.4 else _rand_val(rng, kind, size))
        return e + body, vals
    yield SEP.join(["C18", "packl", "<hI;>H;<d", "-2,3735928559,3,f8000000000000000"])
    yield SEP.join(["C18", "packl", "<hI", "-2,3735928559"])
    yield SEP.join(["C18", "packl", ">h;<h", "1,1"])
    for _ in range(6000 if big else 900):
        ps = [part() for _ in range(rng.randint(2, 4))]
        if rng.random() < 0.2:                              # the same format string more than once in one list
            ps.append((ps[0][0], part_vals_like(rng, ps[0][0])))
        yield SEP.join(["C18", "packl", ";".join(p[0] for p in ps), ",".join(v for p in ps for v in p[1])])
    for _ in range(200 if big else 40):                     # arity / range errors: must raise, and must not poison later calls
        ps = [part() for _ in range(rng.randint(2, 3))]
        vals = [v for p in ps for v in p[1]]
        if rng.random() < 0.5:
            vals = vals[:-1]
        else:
            vals.append("1")
        yield SEP.join(["C18", "packl", ";".join(p[0] for p in ps), ",".join(vals) or "-"])
        yield SEP.join(["C18", "packl", ";".join(p[0] for p in ps), ",".join(v for p in ps for v in p[1])])


def part_vals_like(rng, fmt):
    return [_rand_val(rng, *STD[c]) for c in expand(fmt)[1]]


SWAP_FAMILIES = (["bytes%d" % n for n in (1, 2, 3, 4, 8, 16)]
                 + ["hex%d" % n for n in (8, 16, 24, 32, 64)] + ["bin%d" % n for n in (8, 16, 24, 64)]
                 + ["oct%d" % n for n in (24, 48)] + ["bits%d" % n for n in (8, 16, 32, 64, 128)]
                 + ["uint%d" % n for n in (8, 16, 24, 32, 40, 48, 56, 64, 128)] + ["int%d" % n for n in (8, 16, 24, 32, 64)]
                 + ["uintbe16", "intle24", "uintne32", "intbe64", "uintle64", "float16", "float32", "float64",
                    "floatle16", "floatne32", "floatle64"])
SWAP_ODD = ["hex4", "hex12", "hex20", "bin1", "bin5", "bin12", "oct3", "oct12", "oct21", "bits7", "bits9", "bool1", "uint12",
            "int7", "uint63"]
SWAP_INVALID = ["bytes0", "hex0", "hex6", "oct8", "oct16", "bool2", "bytes", "hex", "bits", "uint0", "float8"]


def gen_swap_families(rng, big):
    """Array.byteswap for every fixed-length dtype family (bytesN counts BYTES, the others bits)."""
    for dt in SWAP_FAMILIES:
        bl = dtype_bits(dt)
        for cnt in (0, 1, 2, 3, 5):
            for trail in ((0, 3, bl - 1) if cnt in (1, 3) else (0, 7 % bl)):
                body = bits_of_bytes(bytes(range(1, cnt * bl // 8 + 1))) if rng.random() < 0.5 else rand_bits(rng, cnt * bl)
                yield SEP.join(["C18", "aswap", dt, wire(body + rand_bits(rng, trail))])
        for _ in range(12 if big else 2):
            yield SEP.join(["C18", "aswap", dt, wire(rand_bits(rng, rng.randint(0, 5) * bl + rng.choice([0, 0, 1, 4, bl - 1])))])
        # data packed with a big-endian struct code of the same width, viewed through this dtype: byteswap gives the '<' encoding
        for c in CODES:
            kind, size = STD[c]
            if bl != 8 * size:
                continue
            k = rng.randint(1, 3)
            vals = vals_of_wire(",".join(_rand_val(rng, kind, size) for _ in range(k)), [(kind, size)] * k)
            yield SEP.join(["C18", "aswap", dt, bits_of_bytes(struct.pack(">%d%s" % (k, c), *vals)), c])
    for dt in SWAP_ODD + SWAP_INVALID:
        for _ in range(3):
            yield SEP.join(["C18", "aswap", dt, wire(rand_bits(rng, rng.choice([0, 8, 16, 24, 63, 64])))])


def gen_multiplier(rng, big):
    """N* multipliers, brackets and commas around struct-style tokens with >= 2 different codes; pack AND unpack against
    struct with the format written out ('@' left out: region)."""
    def tok(min_codes=2):
        e = rng.choice("<>=")
        cs = rng.sample(CODES, rng.randint(min_codes, 3))
        return e + "".join(_count_spelling(rng, c, rng.choice([1, 1, 1, 2, 3])) for c in cs)

    def item(depth=0):
        r = rng.random()
        n = rng.choice([2, 2, 2, 3, 3, 4, 1, 0, 10] if depth == 0 else [2, 3, 1])
        sp = rng.choice(["", "", "", " "])
        if r < 0.45:
            return f"{n}{sp}*{sp}{tok()}"
        if r < 0.65:
            return f"{n}*({tok()})"
        if r < 0.85:
            return f"{n}*({tok(1)},{sp}{tok(1)})"
        if r < 0.93 and depth == 0:
            return f"{n}*({tok(1)},{item(1)})"
        return tok(1)

    fixed = ["2*<hB", "3*>bHq", "2*(<hB)", "2*<2hB", "2*(<h,>B)", "<b,2*<hB", "0*<hB", "<b,0*(<hB)", "2*(<b,2*>hB)", " 2 * <hB",
             "1*<hB", "2*(2*(<bH))", "2*=eB", "3*<Bd", "2*>2bH,<q", "10*<bH"]
    fmts = fixed + [",".join(item() for _ in range(rng.choice([1, 1, 1, 2, 3]))) for _ in range(5000 if big else 650)]
    for fmt in fmts:
        toks = ref_tokens(fmt)
        codes = [c for t in toks for c in expand(t)[1]]
        if len(codes) > 60:
            continue
        vals = []
        for c in codes:
            kind, size = STD[c]
            vals.append(_tok(kind, rng.choice(_float_patterns(size) if kind == "f" else _int_limits(kind, size)))
                        if rng.random() < 0.3 else _rand_val(rng, kind, size))
        yield SEP.join(["C18", "packm", fmt, ",".join(vals) or "-"])
        need = sum(STD[c][1] for c in codes)
        data = bytes(rng.getrandbits(8) for _ in range(need))
        r = rng.random()
        if r < 0.08 and need:
            data = data[:rng.randrange(need)]
        elif r < 0.2:
            data += bytes(rng.getrandbits(8) for _ in range(rng.randint(1, 5)))
        yield SEP.join(["C18", "unpackm", fmt, hexwire(data)])
        if rng.random() < 0.05 and vals:                    # arity error
            yield SEP.join(["C18", "packm", fmt, ",".join(vals[:-1]) or "-"])


def gen(rng, tier):
    big = tier != "quick"
    yield from gen_struct(rng, big)
    yield from gen_listform(rng, big)
    yield from gen_multiplier(rng, big)
    yield from gen_swap_families(rng, big)
    yield from gen_unrepresentable(rng, big)
    yield from gen_interp(rng, big)
    yield from gen_enc(rng, big)
    yield from gen_bswap(rng, big)
    yield from gen_array(rng, big)
