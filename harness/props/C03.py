"""C03 — in-place mutations equal their sequence-level specification; nothing else moves (msb0).

line: C03 <cls> <initial bits> <op> <op> ...          (TAB separated; a history on ONE object)
  operand X   = <bits> | - | @ (the object itself), optionally ~s (as '0b…' string) ~A (BitArray) ~S (BitStream)
                ~l (list of ints); default a Bits object.  The model sees the bits only.
  op tokens (space separated inside a field):
    append X | iadd X (+=) | prepend X | insert X pos | overwrite X pos
    delitem i | delslice a b c | setitem i V | setslice a b c V            V = i:<int> | t:0/1 (False/True) | b:X
    replace Xold Xnew start end count ba [opt] | reverse s e | rol k s e | ror k s e
        (ba = explicit bytealigned argument 0 | 1 | N (None); opt = bitstring.options.bytealigned during the call, default 0)
    set v P | invert P                                                    P = None | i:<int> | l:<ints> | r:a,b,c
    byteswap F s e rep                                                    F = None | i:<int> | l:<ints> | s:<fmt>
    ishl n | ishr n | imul n | iand X | ior X | ixor X | clear
out : one observation per step, space separated:  <ret>:<bits after the step>
      ret = N (None / self) | <int> (replace, byteswap) | E (raised — the property names no class)
"""
from harness.common import *
import re, struct

FUNCTIONAL = True
LEVEL_TEXT = ("Lean theorems: for every mutator the transcribed code path (ALG: _validate_slice, _insert/_overwrite/_delete, _ror_msb0/_rol_msb0 as slice+delete+insert, reverse's two branches, the set/invert loops and set's range fast path, _setitem_int/_setitem_slice, _replace's collect-and-rebuild, byteswap's pattern loop over _reversebytes, _ilshift/_irshift, _imul) equals a one-line list expression (SPEC) for all contents and arguments, with no side condition; frame (bits outside [start,end) unchanged) and length theorems per range operation; partial-prefix theorems for set/invert over iterables; rol/ror inverse, reverse and byteswap involutive; replace returns the number of selected matches; run_eq over arbitrary operation histories by induction. Correspondence: exhaustive single-operation sweeps on small contents x argument tuples in and beyond range + random histories of 1-12 operations on BitArray/BitStream.")
LEVEL_NOTE = ("Trusted: Lean kernel (+propext, Classical.choice, Quot.sound); bitarray's C item/slice assignment and deletion are modelled as Python list semantics and its search as 'all occurrences' (tied by the correspondence and by the oracle, which uses CPython lists); the struct-format grammar of byteswap is a shared definition of SPEC and ALG; BitStream positions are out of scope (C06). Eight deviations found while building were fixed in /repo (known_findings.d/C03.json, status fixed); their witnesses run on every check.")
TECHNIQUE = "Lean 4 proof (ALG = SPEC per mutator, frame/length/involution lemmas, induction over histories) + exhaustive small-domain and random-history correspondence"
NOT_YET_PROVED = []


# ------------------------------------------------------------------------------------------------ wire helpers
def _opt(s):
    return None if s == "None" else int(s)


def _sv(x):
    return "None" if x is None else str(x)


def _ints(s):
    return [int(x) for x in s.split(",")] if s else []


def _strip_kind(tok):
    return tok.split("~")[0]


def _canon_op(tok: str) -> str:
    """The operation as the model and the oracle see it: no operand presentation, bool = 0/1, `+=` = append."""
    tok = re.sub(r"~[sASl]", "", tok)
    tok = re.sub(r" t:([01])$", r" i:\1", tok)
    if tok.startswith("iadd "):
        tok = "append " + tok[5:]
    return tok


def model_line(line: str) -> str:
    f = line.split(SEP)
    return SEP.join(f[:3] + [_canon_op(t) for t in f[3:]])


def _mkoperand(tok, a):
    """-> (python value handed to the library, bits it stands for, checker giving its bits afterwards)"""
    kind = "B"
    if "~" in tok:
        tok, kind = tok.split("~")
    if tok == "@":
        return a, None, None
    bits = unwire(tok)
    if kind == "s":
        lit = ("0b" + bits) if bits else ""
        return lit, bits, (lambda: Bits(lit).bin)
    if kind == "l":
        v = [int(c) for c in bits]
        return v, bits, (lambda: "".join(str(int(x)) for x in v))
    o = mk({"B": "Bits", "A": "BitArray", "S": "BitStream"}[kind], bits)
    return o, bits, (lambda: o.bin)


def _value(tok, a):
    tag, rest = tok.split(":", 1)
    if tag == "i":
        return int(rest), None, None
    if tag == "t":
        return rest == "1", None, None
    return _mkoperand(rest, a)


def _posarg(tok):
    if tok == "None":
        return None
    tag, rest = tok.split(":", 1)
    if tag == "i":
        return int(rest)
    if tag == "l":
        return _ints(rest)
    if tag == "r":
        a, b, c = _ints(rest)
        return range(a, b, c)
    raise ValueError(tok)


def _fmtarg(tok):
    if tok == "None":
        return None
    tag, rest = tok.split(":", 1)
    if tag == "i":
        return int(rest)
    if tag == "l":
        return _ints(rest)
    if tag == "s":
        return rest
    raise ValueError(tok)


# ------------------------------------------------------------------------------------------------ IMPL
def _apply(a, t):
    """Run one op token list on the real object. Returns (return value, [operand checkers])."""
    op, chk = t[0], []

    def opnd(tok):
        v, bits, c = _mkoperand(tok, a)
        if c is not None:
            chk.append((bits, c))
        return v
    if op == "append":
        return a.append(opnd(t[1])), chk
    if op == "iadd":
        r = a.__iadd__(opnd(t[1]))
        return (None if r is a else ("not-self", r)), chk
    if op == "prepend":
        return a.prepend(opnd(t[1])), chk
    if op == "insert":
        return a.insert(opnd(t[1]), int(t[2])), chk
    if op == "overwrite":
        return a.overwrite(opnd(t[1]), int(t[2])), chk
    if op == "delitem":
        return a.__delitem__(int(t[1])), chk
    if op == "delslice":
        return a.__delitem__(slice(_opt(t[1]), _opt(t[2]), _opt(t[3]))), chk
    if op in ("setitem", "setslice"):
        key = int(t[1]) if op == "setitem" else slice(_opt(t[1]), _opt(t[2]), _opt(t[3]))
        v, bits, c = _value(t[-1], a)
        if c is not None:
            chk.append((bits, c))
        return a.__setitem__(key, v), chk
    if op == "replace":
        ba = None if t[6] == "N" else t[6] == "1"
        if len(t) == 8:                                   # module option bitstring.options.bytealigned for this call
            bitstring.options.bytealigned = t[7] == "1"
        try:
            return a.replace(opnd(t[1]), opnd(t[2]), _opt(t[3]), _opt(t[4]), _opt(t[5]), ba), chk
        finally:
            bitstring.options.bytealigned = False
    if op == "reverse":
        return a.reverse(_opt(t[1]), _opt(t[2])), chk
    if op == "rol":
        return a.rol(int(t[1]), _opt(t[2]), _opt(t[3])), chk
    if op == "ror":
        return a.ror(int(t[1]), _opt(t[2]), _opt(t[3])), chk
    if op == "set":
        return a.set(t[1] == "1", _posarg(t[2])), chk
    if op == "invert":
        return a.invert(_posarg(t[1])), chk
    if op == "byteswap":
        return a.byteswap(_fmtarg(t[1]), _opt(t[2]), _opt(t[3]), t[4] == "1"), chk
    if op in ("ishl", "ishr", "imul"):
        f = {"ishl": a.__ilshift__, "ishr": a.__irshift__, "imul": a.__imul__}[op]
        r = f(int(t[1]))
        return (None if r is a else ("not-self", r)), chk
    if op in ("iand", "ior", "ixor"):
        f = {"iand": a.__iand__, "ior": a.__ior__, "ixor": a.__ixor__}[op]
        r = f(opnd(t[1]))
        return (None if r is a else ("not-self", r)), chk
    if op == "clear":
        return a.clear(), chk
    raise ValueError("unknown op " + op)


def execute(line):
    f = line.split(SEP)
    cls, init, ops = f[1], unwire(f[2]), f[3:]
    with options(lsb0=False, bytealigned=False):
        a = mk(cls, init)
        obs, side = [], []
        for k, tok in enumerate(ops):
            t = tok.split(" ")
            chk = []
            try:
                r, chk = _apply(a, t)
                if r is None:
                    ret = "N"
                elif isinstance(r, bool) or not isinstance(r, int):
                    ret = "?" + type(r).__name__
                else:
                    ret = str(r)
            except RecursionError:
                ret = "E"
            except Exception:                          # noqa: BLE001 — the property names no class
                ret = "E"
            obs.append(ret + ":" + wire(a))
            for bits, c in chk:
                now = c()
                if now != bits:
                    side.append(f"step {k}: operand {bits or '-'} reads {now or '-'} after the call")
            if type(a).__name__ != cls:
                side.append(f"step {k}: class became {type(a).__name__}")
    return " ".join(obs), {"side": side}


# ------------------------------------------------------------------------------------------------ ORACLE
class _Err(Exception):
    pass


def _vrange(n, s, e):
    s = 0 if s is None else (s + n if s < 0 else s)
    e = n if e is None else (e + n if e < 0 else e)
    if not 0 <= s <= e <= n:
        raise _Err
    return s, e


def _ipos(n, pos):
    p = pos + n if pos < 0 else pos
    if not 0 <= p <= n:
        raise _Err
    return p


def _idx(n, i):
    j = i + n if i < 0 else i
    if not 0 <= j < n:
        raise _Err
    return j


_CODE = "bBhHlLiIqQefd"
_FMT_RE = re.compile(r"^[<>@=]?((?:[0-9]*[%s])+)$" % _CODE)


def _sizes(fmt, a, z):
    if fmt is None or (isinstance(fmt, int) and fmt == 0):
        return [(z - a) // 8]
    if isinstance(fmt, int):
        if fmt < 0:
            raise _Err
        return [fmt]
    if isinstance(fmt, str):
        m = _FMT_RE.match(fmt)
        if not m or fmt.endswith("\n"):
            raise _Err
        out = []
        for cnt, code in re.findall(r"([0-9]*)([%s])" % _CODE, m.group(1)):
            out += [struct.calcsize(">" + code)] * (int(cnt) if cnt else 1)     # standard sizes, independent of utils.py
        return out
    if any(k < 0 for k in fmt):
        raise _Err
    return list(fmt)


def ref_step(l, t):
    """The documented operation on a Python list of 0/1.  -> (ret, new list) ; raises _Err for 'raises'.
    For set/invert over an iterable of positions an error carries the partial result: _Err(args=(list,))."""
    n, op = len(l), t[0]
    X = lambda tok: l[:] if _strip_kind(tok) == "@" else [int(c) for c in unwire(_strip_kind(tok))]
    if op == "append":
        return "N", l + X(t[1])
    if op == "prepend":
        return "N", X(t[1]) + l
    if op == "insert":
        x, p = X(t[1]), _ipos(n, int(t[2]))
        return "N", l[:p] + x + l[p:]
    if op == "overwrite":
        x, p = X(t[1]), _ipos(n, int(t[2]))
        return "N", l[:p] + x + l[p + len(x):]
    if op == "delitem":
        j = _idx(n, int(t[1]))
        return "N", l[:j] + l[j + 1:]
    if op == "delslice":
        a, b, c = _opt(t[1]), _opt(t[2]), _opt(t[3])
        if c == 0:
            raise _Err
        m = l[:]
        del m[a:b:c]
        return "N", m
    if op == "setitem":
        i = int(t[1])
        tag, rest = t[2].split(":", 1)
        if tag == "i":
            v = int(rest)
            if v not in (0, 1, -1):
                raise _Err
            j = _idx(n, i)
            return "N", l[:j] + [1 if v else 0] + l[j + 1:]
        j = _idx(n, i)
        return "N", l[:j] + X(rest) + l[j + 1:]
    if op == "setslice":
        a, b, c = _opt(t[1]), _opt(t[2]), _opt(t[3])
        if c == 0:
            raise _Err
        tag, rest = t[4].split(":", 1)
        m = l[:]
        if tag == "b":
            try:
                m[a:b:c] = X(rest)
            except ValueError:
                raise _Err
            return "N", m
        v = int(rest)
        sel = range(*slice(a, b, c).indices(n))
        k = len(sel)
        if c in (None, 1, -1):
            if k == 0:
                raise _Err                                           # no integer has zero bits
            if v >= 0:
                if v >= 1 << k:
                    raise _Err
                bits = [int(ch) for ch in format(v, "0%db" % k)]
            else:
                if v < -(1 << (k - 1)):
                    raise _Err
                bits = [int(ch) for ch in format(v + (1 << k), "0%db" % k)]
            m[a:b:c] = bits
            return "N", m
        if v not in (0, 1):
            raise _Err
        for i in sel:
            m[i] = v
        return "N", m
    if op == "replace":
        old, new = X(t[1]), X(t[2])
        s, e, count = _opt(t[3]), _opt(t[4]), _opt(t[5])
        # the explicit bytealigned argument when it is not None, the module option otherwise
        al = (len(t) == 8 and t[7] == "1") if t[6] == "N" else t[6] == "1"
        if not old:
            raise _Err
        a, z = _vrange(n, s, e)
        limit = None if count is None or count < 0 else count
        out, i, done, m = [], 0, 0, len(old)
        while i < n:
            if (a <= i and i + m <= z and (not al or i % 8 == 0) and l[i:i + m] == old
                    and (limit is None or done < limit)):
                out += new
                i += m
                done += 1
            else:
                out.append(l[i])
                i += 1
        return done, out
    if op == "reverse":
        a, z = _vrange(n, _opt(t[1]), _opt(t[2]))
        return "N", l[:a] + l[a:z][::-1] + l[z:]
    if op in ("rol", "ror"):
        k = int(t[1])
        if n == 0 or k < 0:
            raise _Err
        a, z = _vrange(n, _opt(t[2]), _opt(t[3]))
        mid = l[a:z]
        if mid:
            r = k % len(mid)
            if op == "ror":
                r = (len(mid) - r) % len(mid)
            mid = mid[r:] + mid[:r]
        return "N", l[:a] + mid + l[z:]
    if op in ("set", "invert"):
        ptok = t[2] if op == "set" else t[1]
        v = 1 if (op == "set" and t[1] == "1") else 0
        if ptok == "None":
            return "N", ([v] * n if op == "set" else [1 - x for x in l])
        p = _posarg(ptok)
        ps = [p] if isinstance(p, int) else list(p)
        m = l[:]
        for q in ps:
            j = q + n if q < 0 else q
            if not 0 <= j < n:
                raise _Err(m)                                        # the valid positions before it were applied
            m[j] = v if op == "set" else 1 - m[j]
        return "N", m
    if op == "byteswap":
        a, z = _vrange(n, _opt(t[2]), _opt(t[3]))
        sizes = _sizes(_fmtarg(t[1]), a, z)
        total = 8 * sum(sizes)
        if total == 0:
            return 0, l[:]
        k = (z - a) // total if t[4] == "1" else (1 if a + total <= z else 0)
        m = l[:]
        for j in range(k):
            base = a + j * total
            for sz in sizes:
                grp = m[base:base + 8 * sz]
                by = [grp[8 * q:8 * q + 8] for q in range(sz)][::-1]
                m[base:base + 8 * sz] = [bit for byte in by for bit in byte]
                base += 8 * sz
        return k, m
    if op in ("ishl", "ishr"):
        k = int(t[1])
        if k < 0 or n == 0:
            raise _Err
        k = min(k, n)
        return "N", (l[k:] + [0] * k if op == "ishl" else [0] * k + l[:n - k])
    if op == "imul":
        k = int(t[1])
        if k < 0:
            raise _Err
        return "N", l * k
    if op in ("iand", "ior", "ixor"):
        x = X(t[1])
        if len(x) != n:
            raise _Err
        f = {"iand": lambda p, q: p & q, "ior": lambda p, q: p | q, "ixor": lambda p, q: p ^ q}[op]
        return "N", [f(p, q) for p, q in zip(l, x)]
    if op == "clear":
        return "N", []
    raise ValueError("unknown op " + op)


def _expected(prev_bits: str, tok: str) -> str:
    l = [int(c) for c in prev_bits]
    tok = _canon_op(tok)
    try:
        ret, m = ref_step(l, tok.split(" "))
    except _Err as e:
        m = e.args[0] if e.args else l
        ret = "E"
    return f"{ret}:{wire(''.join(map(str, m)))}"


def _steps(line, out):
    """[(state before as '01' string, op token, observed 'ret:bits')] following the implementation's own states."""
    f = line.split(SEP)
    prev, res = unwire(f[2]), []
    for tok, ob in zip(f[3:], out.split(" ")):
        res.append((prev, tok, ob))
        prev = unwire(ob.split(":", 1)[1])
    return res


def oracle(line, out, extra):
    f = line.split(SEP)
    ops = f[3:]
    obs = out.split(" ") if out else []
    if len(obs) != len(ops):
        return f"{len(ops)} operations but {len(obs)} observations"
    for k, (prev, tok, ob) in enumerate(_steps(line, out)):
        exp = _expected(prev, tok)
        if ob != exp:
            return f"step {k} `{tok}` on {prev or '-'}: expected {exp} (list semantics), got {ob}"
    if extra.get("side"):
        return extra["side"][0]
    return None


def nontrivial(line):
    f = line.split(SEP)
    return len(f) > 3


# ------------------------------------------------------------------------------------------------ GENERATORS
_BASE = "1101000101100111010011100010111101"


def _pat(n):
    return (_BASE * (n // len(_BASE) + 1))[:n]


def _line(cls, init, ops):
    return SEP.join(["C03", cls, wire(init)] + list(ops))


def _kinded(rng, bits):
    """An operand token for `bits` with a presentation chosen at random."""
    k = rng.random()
    tok = wire(bits)
    if k < 0.45:
        return tok
    if k < 0.70:
        return tok + "~s"
    if k < 0.85:
        return tok + "~A"
    if k < 0.93:
        return tok + "~S"
    return tok + "~l"


def _rand_operand(rng, cur, allow_self=True):
    r = rng.random()
    if allow_self and r < 0.12:
        return "@"
    if r < 0.22:
        return _kinded(rng, "")
    n = rng.choice([1, 1, 2, 3, 4, 5, 8, 9, 16, len(cur), max(0, len(cur) - 1), len(cur) + 1])
    return _kinded(rng, rand_bits(rng, min(n, 70)))


def _pos_class(rng, n):
    """A position: in range, at both ends, one beyond, negative."""
    return rng.choice([0, 1, n - 1, n, n + 1, -1, -n, -n - 1, -n + 1, n // 2, rng.randint(-n - 2, n + 2), rng.randint(0, max(0, n))])


def _range_class(rng, n):
    r = rng.random()
    if r < 0.15:
        return None, None
    if r < 0.75 and n > 0:
        a = rng.randint(0, n)
        b = rng.randint(a, n)
        if rng.random() < 0.3:
            a = a - n if a < n else a
        if rng.random() < 0.3:
            b = b - n if b < n else b
        return (None if rng.random() < 0.1 else a), (None if rng.random() < 0.1 else b)
    return rng.choice([None, 0, n, n + 1, -n - 1, -1, rng.randint(-n - 2, n + 2)]), rng.choice([None, 0, n, n + 1, -n - 1, -1, rng.randint(-n - 2, n + 2)])


def _int_values(k):
    """Integers at the limits of a k-bit slice."""
    if k <= 0:
        return [0, 1, -1]
    return [0, 1, -1, (1 << k) - 1, 1 << k, -(1 << (k - 1)), -(1 << (k - 1)) - 1, (1 << (k - 1)) - 1, (1 << (k - 1))]


def _rand_op(rng, cur):
    """One random operation token for a content `cur` ('01' string)."""
    n = len(cur)
    kind = rng.choice(["append", "prepend", "insert", "insert", "overwrite", "overwrite", "delitem", "delslice", "delslice",
                       "setitem", "setitem", "setslice", "setslice", "setslice", "replace", "replace", "replace", "reverse", "reverse",
                       "rol", "rol", "ror", "ror", "set", "set", "set", "invert", "invert", "byteswap", "byteswap", "byteswap",
                       "ishl", "ishr", "imul", "iand", "ior", "ixor", "clear"])
    if n > 160 and rng.random() < 0.7:
        kind = rng.choice(["delslice", "clear", "ishl", "reverse", "set", "invert", "rol"])
    if kind in ("append", "prepend"):
        if kind == "append" and rng.random() < 0.4:
            kind = "iadd"
        return f"{kind} {_rand_operand(rng, cur)}"
    if kind in ("insert", "overwrite"):
        return f"{kind} {_rand_operand(rng, cur)} {_pos_class(rng, n)}"
    if kind == "delitem":
        return f"delitem {_pos_class(rng, n)}"
    if kind in ("delslice", "setslice"):
        a = rng.choice([None, _pos_class(rng, n)])
        b = rng.choice([None, _pos_class(rng, n)])
        c = rng.choice([None, None, 1, 1, -1, -1, 2, -2, 3, -3, n + 1, -(n + 1), 0, 7, 8])
        if kind == "delslice":
            return f"delslice {_sv(a)} {_sv(b)} {_sv(c)}"
        k = len(range(*slice(a, b, c).indices(n))) if c != 0 else 0
        r = rng.random()
        if r < 0.30:
            v = "i:" + str(rng.choice(_int_values(k)))
        elif r < 0.35:
            v = "t:" + rng.choice("01")
        elif r < 0.45:
            v = "i:" + str(rng.randint(-(1 << max(k, 1)), 1 << max(k, 1)))
        elif r < 0.75:
            v = "b:" + _kinded(rng, rand_bits(rng, k))            # the right size for an extended slice
        else:
            v = "b:" + _rand_operand(rng, cur)
        return f"setslice {_sv(a)} {_sv(b)} {_sv(c)} {v}"
    if kind == "setitem":
        r = rng.random()
        if r < 0.4:
            v = "i:" + str(rng.choice([0, 1, -1, 2, -2]))
        elif r < 0.5:
            v = "t:" + rng.choice("01")
        else:
            v = "b:" + _rand_operand(rng, cur)
        return f"setitem {_pos_class(rng, n)} {v}"
    if kind == "replace":
        if n and rng.random() < 0.7:
            p = rng.randint(0, n - 1)
            old = cur[p:p + rng.choice([1, 1, 2, 2, 3, 4, 8])]   # planted: occurs at least once
        else:
            old = rand_bits(rng, rng.choice([0, 1, 2, 3, 8]))
        old = "@" if rng.random() < 0.04 else _kinded(rng, old)
        new = _rand_operand(rng, cur)
        s, e = _range_class(rng, n)
        count = rng.choice([None, None, None, 0, 1, 2, 2, 3, -1, 100])
        r = rng.random()
        if r < 0.5:
            return f"replace {old} {new} {_sv(s)} {_sv(e)} {_sv(count)} {rng.choice('0001')}"
        return f"replace {old} {new} {_sv(s)} {_sv(e)} {_sv(count)} {rng.choice('N01')} {rng.choice('01')}"
    if kind == "reverse":
        s, e = _range_class(rng, n)
        return f"reverse {_sv(s)} {_sv(e)}"
    if kind in ("rol", "ror"):
        s, e = _range_class(rng, n)
        k = rng.choice([0, 1, 2, 3, n - 1, n, n + 1, 2 * n + 1, 3 * n + 2, -1, rng.randint(0, 3 * n + 3), 10 ** 12 + 7])
        return f"{kind} {k} {_sv(s)} {_sv(e)}"
    if kind in ("set", "invert"):
        r = rng.random()
        if r < 0.12:
            p = "None"
        elif r < 0.32:
            p = "i:" + str(_pos_class(rng, n))
        elif r < 0.65:
            cnt = rng.choice([0, 1, 2, 3, 5, 8])
            ps = [rng.randint(-n, n - 1) if n else 0 for _ in range(cnt)]
            if ps and rng.random() < 0.3:
                ps[rng.randrange(len(ps))] = rng.choice([n, -n - 1, n + 3])     # a bad position somewhere
            if ps and rng.random() < 0.3:
                ps.append(ps[0])                                                # a duplicate
            p = "l:" + ",".join(map(str, ps))
        else:
            if rng.random() < 0.6 and n:
                a = rng.randint(0, n - 1)
                b = rng.randint(a, n)
                c = rng.choice([1, 1, 2, 3])
                if rng.random() < 0.3 and a > 0:
                    a, b, c = b - 1 if b > 0 else 0, a - 1, -c                  # descending, stays >= 0 unless a = 0
                if rng.random() < 0.25:
                    a, b = a - n, (b - n if b < n else b)
            else:
                a, b, c = rng.randint(-n - 2, n + 2), rng.randint(-n - 2, n + 2), rng.choice([1, -1, 2, -2, 3])
            p = f"r:{a},{b},{c}"
        return f"set {rng.choice('01')} {p}" if kind == "set" else f"invert {p}"
    if kind == "byteswap":
        f = rng.choice(["None", "i:0", "i:1", "i:2", "i:3", "i:4", "l:1,2", "l:2,1", "l:2,0,1", "l:1,1,1", "l:", "s:h", "s:2h", "s:bh",
                        "s:<hb", "s:>q", "s:=l2b", "s:e", "s:0h", "s:x", "s:h2", "i:-1", "l:1,-1", "s:", "i:9"])
        s, e = _range_class(rng, n)
        if rng.random() < 0.5:
            s = rng.choice([None, 0, 8, 16, 4, -8, -16, 1])
            e = rng.choice([None, n, n - n % 8, 8, 16, 24, -8, -1, n - 1])
        return f"byteswap {f} {_sv(s)} {_sv(e)} {rng.choice('1110')}"
    if kind in ("ishl", "ishr"):
        return f"{kind} {rng.choice([0, 1, 2, n - 1, n, n + 1, 7, 8, 9, -1, rng.randint(0, n + 2)])}"
    if kind == "imul":
        hi = 17 if n <= 12 else (4 if n <= 60 else 2)
        return f"imul {rng.choice([0, 1, 2, 3, 4, 5, 7, 8, 9, 16, 17, -1, -2]) if n <= 12 else rng.randint(-1, hi)}"
    if kind in ("iand", "ior", "ixor"):
        r = rng.random()
        if r < 0.15:
            x = "@"
        elif r < 0.8:
            x = _kinded(rng, rand_bits(rng, n))
        else:
            x = _kinded(rng, rand_bits(rng, max(0, n + rng.choice([-1, 1, 2]))))
        return f"{kind} {x}"
    return "clear"


def _history(rng, cls, init, nops):
    """A random history; the content is tracked with the reference so that arguments are chosen relative to the
    current length."""
    cur, ops = init, []
    for _ in range(nops):
        tok = _rand_op(rng, cur)
        ops.append(tok)
        cur = unwire(_expected(cur, tok).split(":", 1)[1])
        if len(cur) > 3000:
            ops.append("clear")
            cur = ""
    return _line(cls, init, ops)


def _contents(n, rng=None):
    """All bit strings of length n."""
    return [format(i, "0%db" % n) if n else "" for i in range(1 << n)]


def gen(rng, tier):
    big = tier != "quick"
    classes = ("BitArray", "BitStream")
    pick_cls = lambda: rng.choice(classes)
    L = 6
    # ---- 1. full argument sweep of the position / range operations, one distinguishable content per length
    for n in range(0, (8 if big else 6) + 1):
        cands = [_pat(n)] + ([rand_bits(rng, n)] if n and big else [])
        for cur in cands:
            cls = classes[n % 2]
            poss = list(range(-(n + 2), n + 3))
            for x in ["-", "1", "01~s", "110~A", "@"]:
                for p in poss:
                    yield _line(cls, cur, [f"insert {x} {p}"])
                    yield _line(cls, cur, [f"overwrite {x} {p}"])
            for p in poss:
                yield _line(cls, cur, [f"delitem {p}"])
                for v in ["i:0", "i:1", "i:-1", "i:2", "t:0", "t:1", "b:-", "b:1", "b:011~s", "b:@"]:
                    yield _line(cls, cur, [f"setitem {p} {v}"])
            bounds = [None] + list(range(-(n + 1), n + 2))
            ks = sorted({0, 1, 2, max(0, n - 1), n, n + 1, 2 * n + 1, 3 * n + 2})
            for s in bounds:
                for e in bounds:
                    yield _line(cls, cur, [f"reverse {_sv(s)} {_sv(e)}"])
                    for k in ks:
                        if not big and n >= 5 and rng.random() < 0.5:
                            continue
                        yield _line(cls, cur, [f"rol {k} {_sv(s)} {_sv(e)}"])
                        yield _line(cls, cur, [f"ror {k} {_sv(s)} {_sv(e)}"])
            yield _line(cls, cur, ["rol -1 None None"])
            yield _line(cls, cur, ["ror -1 0 0"])
            # set / invert: single positions, ranges
            for p in poss:
                yield _line(cls, cur, [f"set 1 i:{p}"])
                yield _line(cls, cur, [f"set 0 i:{p}"])
                yield _line(cls, cur, [f"invert i:{p}"])
            for p in ("None", "l:"):
                yield _line(cls, cur, [f"set 1 {p}"])
                yield _line(cls, cur, [f"set 0 {p}"])
                yield _line(cls, cur, [f"invert {p}"])
            rb = list(range(-(n + 1), n + 2))
            for a in rb:
                for b in rb:
                    for c in (1, -1, 2, -2, 3):
                        if not big and n >= 4 and rng.random() < 0.6:
                            continue
                        yield _line(cls, cur, [f"set {rng.choice('01')} r:{a},{b},{c}"])
                        if rng.random() < 0.5:
                            yield _line(cls, cur, [f"invert r:{a},{b},{c}"])
    # ---- 1b. set / invert over ranges whose ends sit at the boundaries (first / last element 0, 1, n-1, n)
    for n in range(1, 13):
        cur = rand_bits(rng, n)
        cls = classes[n % 2]
        for c in (1, 2, 3):
            for stop in (-2, -1, 0, 1, 2):
                for start in (n - 1, n, n - 2):
                    yield _line(cls, cur, [f"set {rng.choice('01')} r:{start},{stop},{-c}"])
            for start in (-1, 0, 1):
                for stop in (n - 1, n, n + 1):
                    yield _line(cls, cur, [f"set {rng.choice('01')} r:{start},{stop},{c}"])
            yield _line(cls, cur, [f"invert r:{n - 1},-1,{-c}"])
            yield _line(cls, cur, [f"set 1 r:{-n},0,{c}", f"set 0 r:-1,{-n - 1},{-c}"])
            yield _line(cls, cur, [f"setslice None None {-c} i:1", f"setslice None None {c} i:0", f"setslice {n - 1} 0 {-c} i:1"])
    # ---- 2. slice assignment / deletion: all (start, stop, step) on small lengths
    for n in range(0, (6 if big else 4) + 1):
        cur = _pat(n)
        cls = classes[(n + 1) % 2]
        vals = [None] + list(range(-(n + 2), n + 3))
        steps = [None, 1, -1, 2, -2, 3, -3, n + 1, -(n + 1), 0]
        for a in vals:
            for b in vals:
                for c in steps:
                    key = f"{_sv(a)} {_sv(b)} {_sv(c)}"
                    yield _line(cls, cur, [f"delslice {key}"])
                    k = len(range(*slice(a, b, c).indices(n))) if c != 0 else 0
                    yield _line(cls, cur, [f"setslice {key} b:{_kinded(rng, rand_bits(rng, k))}"])
                    yield _line(cls, cur, [f"setslice {key} b:{rng.choice(['-', '1', '10', '@', wire(rand_bits(rng, k + 1))])}"])
                    yield _line(cls, cur, [f"setslice {key} i:{rng.choice(_int_values(k))}"])
                    if rng.random() < 0.3:
                        yield _line(cls, cur, [f"setslice {key} i:{rng.choice([0, 1])}"])
    # ---- 3. every content of length <= L (thorough: <= 8): in-range arguments of each position / range operation
    for n in range(0, (8 if big else L) + 1):
        for cur in _contents(n):
            if n > 6 and rng.random() < 0.75:
                continue
            cls = pick_cls()
            ops = []
            a = rng.randint(0, n)
            z = rng.randint(a, n)
            ops.append(f"reverse {a} {z}")
            ops.append(f"rol {rng.randint(0, 2 * n + 1)} {a} {z}")
            ops.append(f"ror {rng.randint(0, 2 * n + 1)} {a} {z}")
            ops.append(f"insert {wire(rand_bits(rng, rng.randint(1, 3)))} {rng.randint(-n, n)}")
            ops.append(f"overwrite {wire(rand_bits(rng, rng.randint(1, 3)))} {rng.randint(-n, n)}")
            ops.append(f"insert @ {rng.randint(0, n)}")
            if n:
                ops.append(f"delitem {rng.randint(-n, n - 1)}")
                ops.append(f"setitem {rng.randint(-n, n - 1)} b:{wire(rand_bits(rng, rng.randint(0, 3)))}")
                ops.append(f"set {rng.choice('01')} l:{','.join(str(rng.randint(-n, n - 1)) for _ in range(rng.randint(1, 4)))}")
                ops.append(f"invert l:{','.join(str(rng.randint(-n, n)) for _ in range(rng.randint(1, 4)))}")
                ops.append(f"ishl {rng.randint(0, n + 1)}")
                ops.append(f"ishr {rng.randint(0, n + 1)}")
            ops.append(f"delslice {a} {z} None")
            ops.append(f"setslice {a} {z} None i:{rng.choice(_int_values(z - a))}")
            ops.append(f"imul {rng.randint(0, 9)}")
            for o in ops:
                yield _line(cls, cur, [o])
            # replace: small patterns, overlapping occurrences, counts
            for old in ("1", "11", "01", "101", "0", "00"):
                if len(old) > n and rng.random() < 0.8:
                    continue
                for count in (None, 1, 2):
                    new = rng.choice(["-", "0", "1", "10", "111", "@", "0~s"])
                    s, e = (None, None) if rng.random() < 0.5 else (a, z)
                    yield _line(cls, cur, [f"replace {old} {new} {_sv(s)} {_sv(e)} {_sv(count)} 0"])
    # ---- 3b. replace: explicit bytealigned argument {None, False, True} x module option {False, True}, on data where
    #          `old` occurs at aligned and at unaligned positions
    for n in ([9, 16, 17, 24, 33] + ([40, 64, 65] if big else [])):
        for rep_i in range(6 if big else 3):
            old = rng.choice(["1", "11", "01", "101", "0110", "11110000", "10101010", "1"])
            base = list(rand_bits(rng, n))
            for p in {0, 8 if n > 8 + len(old) else 0, rng.randint(1, 7), rng.randint(9, max(9, n - len(old)))}:
                if p + len(old) <= n:
                    base[p:p + len(old)] = list(old)           # planted: aligned and unaligned occurrences
            cur = "".join(base)
            for cls in classes:
                for ba in "N01":
                    for opt in "01":
                        for count in (None, 1, 2):
                            if count is not None and rng.random() < 0.5:
                                continue
                            new = rng.choice(["-", "0", "1", "00", "111", "@", "0~s"])
                            s_, e_ = rng.choice([(None, None), (None, None), (1, None), (None, -1), (8, None), (3, n - 2)])
                            yield _line(cls, cur, [f"replace {_kinded(rng, old)} {new} {_sv(s_)} {_sv(e_)} {_sv(count)} {ba} {opt}"])
                # the option must not leak into the next call of a history
                yield _line(cls, cur, [f"replace {old} 0 None None None N 1", f"replace 1 11 None None 2 N 0", "replace 0 - None None 1 0 1"])
    # ---- 4. byteswap
    blens = [0, 7, 8, 9, 16, 17, 20, 24, 25, 32, 40, 47, 48, 64] + ([56, 72, 80, 128] if big else [])
    fmts = ["None", "i:0", "i:1", "i:2", "i:3", "l:1,2", "l:2,0,1", "l:", "l:0", "s:h", "s:2h", "s:bh", "s:<hb", "s:>q", "s:=l", "s:e", "s:2b1h",
            "s:0h", "s:x", "s:h2", "s:<", "i:-1", "l:1,-1", "i:6", "s:i", "s:Q", "s:d", "s:f"]
    for n in blens:
        cur = rand_bits(rng, n) if n else ""
        if n:
            cur = format(rng.getrandbits(n), "0%db" % n)
        cls = pick_cls()
        rngs = [(None, None), (0, n), (8, None), (None, n - n % 8), (4, None), (1, n - 1), (8, 24), (0, 8), (-16, None), (None, -8), (16, 8), (0, n + 1), (3, 35), (n, n)]
        for f in fmts:
            for (s, e) in rngs:
                for rep in "10":
                    if rep == "0" and rng.random() < 0.5:
                        continue
                    yield _line(cls, cur, [f"byteswap {f} {_sv(s)} {_sv(e)} {rep}"])
    # ---- 5. whole-object operators on boundary lengths
    for n in [0, 1, 2, 7, 8, 9, 63, 64, 65] + ([1023, 1024, 1025] if big else [1024]):
        cur = rand_bits(rng, n)
        cls = pick_cls()
        for k in [-1, 0, 1, 2, 7, 8, 9, n - 1, n, n + 1, 63, 64, 65]:
            yield _line(cls, cur, [f"ishl {k}"])
            yield _line(cls, cur, [f"ishr {k}"])
        for k in ([-2, -1] + list(range(0, 18)) + [31, 32, 33]) if n <= 65 else [0, 1, 2, 3, 5]:
            yield _line(cls, cur, [f"imul {k}"])
        for o in ("iand", "ior", "ixor"):
            yield _line(cls, cur, [f"{o} @"])
            yield _line(cls, cur, [f"{o} {_kinded(rng, rand_bits(rng, n))}"])
            yield _line(cls, cur, [f"{o} {_kinded(rng, rand_bits(rng, n + 1))}"])
            if n:
                yield _line(cls, cur, [f"{o} {_kinded(rng, rand_bits(rng, n - 1))}"])
        for x in ("-", "1", "@", wire(rand_bits(rng, 9)) + "~s"):
            yield _line(cls, cur, [f"append {x}"])
            yield _line(cls, cur, [f"iadd {x}"])
            yield _line(cls, cur, [f"prepend {x}"])
        yield _line(cls, cur, ["clear"])
        yield _line(cls, cur, ["clear", "append 1", "clear", "clear"])
    # ---- 6. histories
    nh = 150000 if big else 4500
    for i in range(nh):
        r = rng.random()
        if r < 0.85:
            n = rng.randint(0, 40)
        elif r < 0.95:
            n = rng.choice([63, 64, 65])
        else:
            n = rng.choice([1023, 1024, 1025]) if big else 1024
        init = rand_bits(rng, n)
        nops = rng.randint(1, 12) if n <= 65 else rng.randint(1, 5)
        yield _history(rng, pick_cls(), init, nops)
    # ---- 7. single random operations with the full argument classes (every argument class)
    for i in range(200000 if big else 6000):
        n = rng.choice([0, 1, 2, 3, 5, 8, 9, 13, 16, 17, 24, 31, 32, 33, 40])
        init = rand_bits(rng, n)
        yield _line(pick_cls(), init, [_rand_op(rng, init)])
