"""C06 — stream reads consume exactly what they return; the position is always valid.

line:   C06 hist <cls> <bits> <pos> <route> <op> <op> ...          (TAB separated; an op is `name arg arg`)
output: ok <res> <pos> <bin|=>|<res> <pos> <bin|=>|...[|!]          one observation per executed step:
        what the call returned / raised, s.pos, s.bin (`=` = unchanged by this step); `!` = the position left
        0..len, observation stops there.
results: ints decimal, `s:<str>`, `b:<bits>@<pos of the returned stream>`, True/False, None, `x:<hex of bytes>`,
        `[v,v]` for lists, `(p)` / `()` for find, `new@<pos>` / `self` for a returned stream object,
        `ReadError` where the property names it, `err` for every other documented exception.
"""
from harness.common import *
import copy as _copy
import itertools

FUNCTIONAL = False
LEVEL_TEXT = ("Lean theorems about step : Stream -> Op -> Stream x Result transcribed from bitstream.py/bits.py/dtypes.py/bitarray_.py: "
              "0 <= pos <= len is preserved by every modelled operation and by every history (induction); a successful read/readlist/readto returns the interpretation of exactly bits[pos, pos+k) and advances by k; a "
              "failed read leaves the state unchanged and a short fixed-length read or truncated code is ReadError; peek/peeklist = "
              "read/readlist with pos restored; readlist = the successive single reads (with one stretchy token: read as max(remaining - later fixed bits, 0) bits, whole stream consumed; two stretchy tokens / a variable token after one: Error); append/+= end, prepend/clear 0, length-changing "
              "del/setitem/replace 0, insert/overwrite just after the written bits, find/rfind/readto at the match; every new stream "
              "object starts at 0; ==/hash key/len/in/count/uint do not depend on pos. Correspondence: histories of 1-25 operations "
              "on both stream classes from every (content, pos) family, exhaustive small bit strings x positions x token kinds.")
LEVEL_NOTE = ("Trusted: Lean kernel (+propext, Classical.choice, Quot.sound); searching is modelled by the list of occurrences (C07 proves the "
              "algorithms), contents of non-length-changing mutators by list functions (C03/C16); value decoding restricted to "
              "uint/int/bin/hex/bits/bytes/bool/pad/ue/se/uie/sie and integer counts; the transcription is tied to the code by the "
              "differential run only. Four genuine deviations found while building the check were fixed in /repo (known_findings.d/C06.json, status fixed).")
TECHNIQUE = "Lean 4 proof (invariant by induction over operation histories, case analysis per operation) + history correspondence"
NOT_YET_PROVED = []

STREAMS = ("ConstBitStream", "BitStream")
VAR = ("ue", "se", "uie", "sie")
KINDS = ("uint", "int", "bin", "hex", "bits", "bytes", "pad")


# =====================================================================================================================
# reference machine (plain Python on '01' strings; written from the property text, never calls bitstring or the model)
# =====================================================================================================================
def _dec_var(code, bits, pos):
    """(value, newpos) or None when the code is truncated."""
    n = len(bits)
    if code in ("ue", "se"):
        p = pos
        while p < n and bits[p] == "0":
            p += 1
        k = p - pos
        if p >= n or p + k + 1 > n:
            return None
        u = int(bits[p:p + k + 1], 2) - 1
        newpos = p + k + 1
        if code == "ue":
            return u, newpos
        return ((u + 1) // 2 if u % 2 else -(u // 2)), newpos
    p, c = pos, 1
    while True:
        if p >= n:
            return None
        if bits[p] == "1":
            p += 1
            break
        if p + 1 >= n:
            return None
        c = 2 * c + int(bits[p + 1])
        p += 2
    u = c - 1
    if code == "uie":
        return u, p
    if u == 0:
        return 0, p
    if p >= n:
        return None
    return (-u if bits[p] == "1" else u), p + 1


def _interp(kind, b):
    """Interpretation of exactly the bits b, as the observation string; None = not interpretable (plain error)."""
    if kind == "uint":
        return None if not b else str(int(b, 2))
    if kind == "int":
        return None if not b else str(int(b, 2) - ((1 << len(b)) if b[0] == "1" else 0))
    if kind == "bin":
        return "s:" + b
    if kind == "hex":
        return None if len(b) % 4 else "s:" + "".join("%x" % int(b[i:i + 4], 2) for i in range(0, len(b), 4))
    if kind == "bits":
        return "b:" + wire(b) + "@0"
    if kind == "bytes":
        return None if len(b) % 8 else "x:" + "".join("%x" % int(b[i:i + 4], 2) for i in range(0, len(b), 4))
    if kind == "pad":
        return "None"
    if kind == "bool":
        return None if len(b) != 1 else ("True" if b == "1" else "False")
    raise ValueError(kind)


def _parse_tok(t):
    """('count', n) | ('fixed', kind, n) | ('open', kind) | ('var', code)"""
    try:
        return ("count", int(t))
    except ValueError:
        pass
    if t in VAR:
        return ("var", t)
    if t == "bool":
        return ("fixed", "bool", 1)
    if ":" in t:
        k, n = t.split(":")
        return ("fixed", k, int(n))
    return ("open", t)


def _creation_ok(tok):
    if tok[0] == "fixed":
        if tok[1] == "hex" and tok[2] % 4:
            return False
        if tok[1] == "bool" and tok[2] != 1:
            return False
    return True


def _need(tok):
    return tok[2] * (8 if tok[1] == "bytes" else 1)


def ref_read_one(bits, pos, tok, avail=None):
    """One item at pos: ('ok', value, newpos) | ('ReadError',) | ('err',).  avail = bits granted to an open token."""
    rem = len(bits) - pos
    if tok[0] == "count":
        if tok[1] < 0:
            return ("err",)
        if tok[1] > rem:
            return ("ReadError",)
        return ("ok", "b:" + wire(bits[pos:pos + tok[1]]) + "@0", pos + tok[1])
    if tok[0] == "var":
        r = _dec_var(tok[1], bits, pos)
        return ("ReadError",) if r is None else ("ok", str(r[0]), r[1])
    if tok[0] == "open":
        k = rem if avail is None else avail
        if tok[1] == "bytes" and k % 8:
            return ("err",)
        if tok[1] == "hex" and k % 4:
            return ("err",)
    else:
        k = _need(tok)
    if k > rem:
        return ("ReadError",)
    v = _interp(tok[1], bits[pos:pos + k])
    return ("err",) if v is None else ("ok", v, pos + k)


def ref_read(bits, pos, t):
    tok = _parse_tok(t)
    if not _creation_ok(tok):
        return ("err",)
    return ref_read_one(bits, pos, tok)


def ref_readlist(bits, pos, ts):
    toks = [_parse_tok(t) for t in ts]
    if not all(_creation_ok(t) for t in toks):
        return ("err",)
    opens = [i for i, t in enumerate(toks) if t[0] == "open"]
    if len(opens) > 1:
        return ("err",)
    after = 0
    if opens:
        for t in toks[opens[0] + 1:]:
            if t[0] == "var":
                return ("err",)
            after += t[1] if t[0] == "count" else _need(t)
    if any(t[0] == "count" and t[1] < 0 for t in toks):
        return ("err",)                                           # a negative count is never a valid read
    vals, p = [], pos
    for t in toks:
        r = ref_read_one(bits, p, t, max(len(bits) - p - after, 0))
        if r[0] != "ok":
            return r
        if not (t[0] in ("fixed", "open") and t[1] == "pad"):
            vals.append(r[1])
        p = r[2]
    return ("ok", "[" + ",".join(vals) + "]", p)


def _kw_pairs(kws):
    """'w=4,r=8s' -> [('w', 4), ('r', '8')] in the order given (a trailing s = passed as a str)."""
    out = []
    for item in ([] if kws == "-" else kws.split(",")):
        k, v = item.split("=")
        out.append((k, v[:-1] if v.endswith("s") else int(v)))
    return out


def _resolve_kw(toks, kws):
    """The token list with every keyword length replaced by the value actually passed."""
    vals = {k: int(v) for k, v in _kw_pairs(kws)}
    out = []
    for t in ([] if toks == "-" else toks.split(",")):
        if ":" in t and t.split(":")[1] in vals:
            t = t.split(":")[0] + ":" + str(vals[t.split(":")[1]])
        out.append(t)
    return out


def _occ(data, pat, start, end, aligned):
    m = len(pat)
    return [p for p in range(start, end - m + 1) if data[p:p + m] == pat and (not aligned or p % 8 == 0)]


def _vslice(n, a, b):
    a = 0 if a is None else (a + n if a < 0 else a)
    b = n if b is None else (b + n if b < 0 else b)
    return (a, b) if 0 <= a <= b <= n else None


def _oi(x):
    return None if x == "None" else int(x)


def _eff_ba(arg, opt):
    """The alignment that applies: the explicit argument when given and not None ('0' / '1'), otherwise ('N' = None
    passed, 'O' = argument omitted) the module-wide option."""
    return arg == "1" if arg in "01" else opt


def _advance(st, opf):
    """Reference state after opf: (bits, pos, mutable, options.bytealigned)."""
    nbits, allowed = ref_step(st, opf)
    opt = st[3] if len(st) > 3 else False
    if opf.startswith("optba "):
        opt = opf.split(" ")[1] == "1"
    return (nbits, allowed[0][1], st[2], opt)


def ref_step(st, opf):
    """st = (bits, pos, mutable).  Returns (newbits, [(result, newpos), ...]): every (result, pos) the property allows."""
    bits, pos, mut = st[:3]
    opt = st[3] if len(st) > 3 else False                         # bitstring.options.bytealigned at this point
    n = len(bits)
    f = opf.split(" ")
    op = f[0]
    same = lambda res: (bits, [(res, pos)])
    if op in ("readD", "peekD"):
        op = op[:-1]
        if _parse_tok(f[1])[0] == "open":                         # length-less Dtype object: see the generator's note
            r = ref_step(st, op + " " + f[1])
            return (r[0], r[1] + [("err", pos)])
    if op in ("readlistD", "readlistM", "peeklistD", "peeklistM"):
        op = op[:-1]
    if op == "optba":
        return same("[]")
    if op in ("read", "peek"):
        r = ref_read(bits, pos, f[1])
        if r[0] != "ok":
            return same(r[0])
        return (bits, [(r[1], r[2] if op == "read" else pos)])
    if op in ("readlist", "readlistS", "peeklist", "peeklistS"):
        r = ref_readlist(bits, pos, [] if f[1] == "-" else f[1].split(","))
        if r[0] != "ok":
            return same(r[0])
        return (bits, [(r[1], r[2] if op.startswith("read") else pos)])
    if op in ("readlistK", "peeklistK"):
        # lengths come from keywords: consumption is computed from the values passed in THIS call
        r = ref_readlist(bits, pos, _resolve_kw(f[1], f[2]))
        if r[0] != "ok":
            return same(r[0])
        return (bits, [(r[1], r[2] if op.startswith("read") else pos)])
    if op == "otherK":
        return same("[]")                                         # acts on another stream (checked through extra)
    if op == "readtoint":
        return same("err")
    if op == "readto":
        pat = unwire(f[1])
        if not pat:
            return same("err")
        o = _occ(bits, pat, pos, n, _eff_ba(f[2], opt))
        if not o:
            return same("ReadError")
        e = o[0] + len(pat)
        return (bits, [("b:" + wire(bits[pos:e]) + "@0", e)])
    if op == "bytealign":
        k = (8 - pos % 8) % 8
        return same("err") if pos + k > n else (bits, [(str(k), pos + k)])
    if op in ("pos", "bitpos"):
        p = int(f[1])
        return (bits, [("None", p)]) if 0 <= p <= n else same("err")
    if op == "bytepos":
        return same("err") if pos % 8 else same(str(pos // 8))
    if op == "setbytepos":
        p = int(f[1]) * 8
        return (bits, [("None", p)]) if 0 <= p <= n else same("err")
    if op in ("find", "rfind"):
        pat = unwire(f[1])
        v = _vslice(n, _oi(f[2]), _oi(f[3]))
        if not pat or v is None:
            return same("err")
        o = _occ(bits, pat, v[0], v[1], _eff_ba(f[4], opt))
        if not o:
            return same("()")
        p = o[0] if op == "find" else o[-1]
        return (bits, [("(%d)" % p, p)])
    # ---- mutators (BitStream)
    if op in ("append", "iadd", "appendself", "iaddself"):
        nb = bits + (bits if op.endswith("self") else unwire(f[1]))
        return (nb, [("None", len(nb))])
    if op in ("prepend", "prependself"):
        nb = (bits if op.endswith("self") else unwire(f[1])) + bits
        return (nb, [("None", 0)])
    if op in ("insert", "insertself", "overwrite", "overwriteself"):
        b = bits if op.endswith("self") else unwire(f[1])
        p = _oi(f[-1])
        p = pos if p is None else (p + n if p < 0 else p)
        if not b:
            # nothing written: nothing moves; whether a bad position is still rejected is not this property's business
            return same("None") if 0 <= p <= n else (bits, [("err", pos), ("None", pos)])
        if not 0 <= p <= n:
            return same("err")
        nb = bits[:p] + b + (bits[p:] if op.startswith("insert") else bits[p + len(b):])
        return (nb, [("None", p + len(b))])
    if op in ("setslice", "setidx", "setidxint", "delslice", "delidx"):
        l = list(bits)
        try:
            if op == "setslice":
                l[slice(_oi(f[1]), _oi(f[2]))] = list(unwire(f[3]))
            elif op == "setidx":
                i = int(f[1])
                i = i + n if i < 0 else i
                if not 0 <= i < n:
                    raise IndexError
                l[i:i + 1] = list(unwire(f[2]))
            elif op == "setidxint":
                if int(f[2]) not in (0, 1, -1):
                    raise ValueError
                l[int(f[1])] = "0" if int(f[2]) == 0 else "1"
            elif op == "delslice":
                del l[slice(_oi(f[1]), _oi(f[2]), _oi(f[3]))]
            else:
                del l[int(f[1])]
        except (IndexError, ValueError):
            return same("err")
        nb = "".join(l)
        return (nb, [("None", pos if len(nb) == n else 0)])
    if op in ("replace", "replaceself"):
        if op == "replace":
            old, new, a, b, c, al = unwire(f[1]), unwire(f[2]), _oi(f[3]), _oi(f[4]), _oi(f[5]), _eff_ba(f[6], opt)
        else:
            old, new, a, b, c, al = unwire(f[1]), bits, _oi(f[2]), _oi(f[3]), _oi(f[4]), _eff_ba(f[5], opt)
        v = _vslice(n, a, b)
        if c == 0:
            # nothing to do; whether bad arguments are still rejected is not this property's business
            return same("0") if old and v is not None else (bits, [("err", pos), ("0", pos)])
        if not old or v is None:
            return same("err")
        pts = []
        for p in _occ(bits, old, v[0], v[1], al):
            if not pts or p >= pts[-1] + len(old):
                pts.append(p)
            if c is not None and c > 0 and len(pts) == c:
                break
        out, cur = [], 0
        for p in pts:
            out += [bits[cur:p], new]
            cur = p + len(old)
        nb = "".join(out) + bits[cur:]
        return (nb, [(str(len(pts)), pos if len(nb) == n else 0)])
    if op == "clear":
        return ("", [("None", 0)])
    if op == "setprop":
        if f[3] == "ERR":
            return same("err")
        nb = unwire(f[3])
        if len(nb) == n:
            return (nb, [("None", pos)])
        # not among the documented moves: the position must stay valid; staying put or going to 0 are both accepted
        return (nb, [("None", p) for p in sorted({0, pos}, reverse=True) if p <= len(nb)])
    if op == "setuint":
        v = int(f[1])
        if n == 0 or not 0 <= v < (1 << n):
            return same("err")
        return (format(v, "0%db" % n), [("None", pos)])
    if op in MUTS:
        r = MUTS[op](bits, f)
        if op == "setall" and not bits:
            return (bits, [("None", pos), ("err", pos)])          # set(v) on an empty stream: nothing to set
        if r is None:
            return same("err")
        nb, res = r
        assert len(nb) == n
        return (nb, [(res, pos)])
    if op == "imul":
        k = int(f[1])
        if k < 0:
            return same("err")
        return (bits * k, [("None", pos if k else 0)])
    # ---- returned stream objects: a new object starts at 0, the receiver does not move
    if op == "copy":
        return same("new@0") if mut else (bits, [("self", pos), ("new@0", pos)])
    if op in ("copymod", "add", "radd", "addself", "xorself"):
        return same("new@0")
    if op == "slice":
        return same("err") if f[3] == "0" else same("new@0")
    if op in ("mul", "rmul"):
        return same("err") if int(f[1]) < 0 else same("new@0")
    if op == "inv":
        return same("err") if n == 0 else same("new@0")
    if op in ("lshift", "rshift"):
        return same("err") if int(f[1]) < 0 or n == 0 else same("new@0")
    if op in ("and", "or", "xor"):
        return same("err") if len(unwire(f[1])) != n else same("new@0")
    if op in ("andself", "orself"):
        return same("new@0") if mut else (bits, [("self", pos), ("new@0", pos)])
    if op == "q":
        if f[1] == "eq":
            return same("True" if bits == unwire(f[2]) else "False")
        if f[1] == "hash":
            return same("err") if mut else same("x:" + _interp("bytes", bits + "0" * (-n % 8))[2:])
        if f[1] == "len":
            return same(str(n))
        if f[1] == "contains":
            return same("err") if not unwire(f[2]) else same("True" if unwire(f[2]) in bits else "False")
        if f[1] == "count":
            return same(str(bits.count("1")))
        if f[1] == "uint":
            return same("err") if not n else same(str(int(bits, 2)))
    raise ValueError("unknown op " + opf)


def _idx(n, i):
    i = i + n if i < 0 else i
    return i if 0 <= i < n else None


def _m_reverse(b, f):
    v = _vslice(len(b), _oi(f[1]), _oi(f[2]))
    return None if v is None else (b[:v[0]] + b[v[0]:v[1]][::-1] + b[v[1]:], "None")


def _flip(b):
    return "".join("1" if c == "0" else "0" for c in b)


def _m_at(b, i, fn):
    j = _idx(len(b), i)
    return None if j is None else (b[:j] + fn(b[j]) + b[j + 1:], "None")


def _m_rot(b, k, left):
    if not b or k < 0:
        return None
    k %= len(b)
    if not left:
        k = (len(b) - k) % len(b)
    return (b[k:] + b[:k], "None")


def _m_byteswap(b, f):
    k = len(b) // 8
    if k == 0:
        return (b, "0")
    return ("".join(b[8 * i:8 * i + 8] for i in reversed(range(k))) + b[8 * k:], "1")


def _m_shift(b, k, left):
    if k < 0 or not b:
        return None
    k = min(k, len(b))
    return ((b[k:] + "0" * k) if left else ("0" * k + b[:len(b) - k]), "None")


def _m_logic(b, o, fn):
    if len(o) != len(b):
        return None
    return ("".join("1" if fn(x == "1", y == "1") else "0" for x, y in zip(b, o)), "None")


MUTS = {
    "reverse": _m_reverse,
    "invertall": lambda b, f: (_flip(b), "None"),
    "invertat": lambda b, f: _m_at(b, int(f[1]), _flip),
    "setall": lambda b, f: (f[1] * len(b), "None"),
    "setat": lambda b, f: _m_at(b, int(f[2]), lambda c: f[1]),
    "ror": lambda b, f: _m_rot(b, int(f[1]), False),
    "rol": lambda b, f: _m_rot(b, int(f[1]), True),
    "byteswap": _m_byteswap,
    "ilshift": lambda b, f: _m_shift(b, int(f[1]), True),
    "irshift": lambda b, f: _m_shift(b, int(f[1]), False),
    "iand": lambda b, f: _m_logic(b, unwire(f[1]), lambda x, y: x and y),
    "ior": lambda b, f: _m_logic(b, unwire(f[1]), lambda x, y: x or y),
    "ixor": lambda b, f: _m_logic(b, unwire(f[1]), lambda x, y: x != y),
}


# =====================================================================================================================
# implementation side
# =====================================================================================================================
def _fmt(v, s=None):
    if v is None:
        return "None"
    if v is True:
        return "True"
    if v is False:
        return "False"
    if isinstance(v, int):
        return str(v)
    if isinstance(v, str):
        return "s:" + v
    if isinstance(v, (bytes, bytearray)):
        return "x:" + bytes(v).hex()
    if isinstance(v, Bits):
        try:
            p = v.pos
        except AttributeError:
            p = "missing"
        return "b:" + wire(v) + "@" + str(p)
    if isinstance(v, list):
        return "[" + ",".join(_fmt(x) for x in v) + "]"
    if isinstance(v, tuple):
        return "(" + ",".join(str(x) for x in v) + ")"
    return "?" + type(v).__name__


def _ret(r, s):
    if r is s:
        return "self"
    if not isinstance(r, type(s)):
        return "?class:" + type(r).__name__
    try:
        return "new@" + str(r.pos)
    except AttributeError:
        return "new@missing"


def _tok_arg(t):
    try:
        return int(t)
    except ValueError:
        return t


def _dtype_obj(t):
    """The token as a Dtype object (an integer count is Dtype('bits', n))."""
    try:
        return bitstring.Dtype("bits", int(t))
    except ValueError:
        return bitstring.Dtype(t)


def _ba_kw(arg):
    """'O' = keyword omitted, 'N' = None passed, '0' / '1' = False / True passed."""
    return {} if arg == "O" else {"bytealigned": {"N": None, "0": False, "1": True}[arg]}


def _toklist(ts, route_string):
    items = [] if ts == "-" else ts.split(",")
    if route_string:
        # one format string; runs of equal tokens are written with the multiplicative form
        out = []
        for k, g in itertools.groupby(items):
            c = len(list(g))
            out.append(k if c == 1 else f"{c}*{k}")
        return ", ".join(out)
    return [_tok_arg(t) for t in items]


_PROP_VALUE = {"bool": lambda v: v == "True", "bytes": lambda v: bytes.fromhex(v)}


def _propval(name, v):
    if name in _PROP_VALUE:
        return _PROP_VALUE[name](v)
    if name in ("hex", "bin", "oct"):
        return v
    return int(v)


def _do(s, opf, extra, operands):
    """Run one op on the real object; returns the canonical result string."""
    f = opf.split(" ")
    op = f[0]

    def B(x):
        """The operand: a Bits, or (chosen by the op text) a stream with a position of its own, which must not move."""
        b = unwire(x)
        k = (len(opf) + sum(map(ord, opf))) % 4
        if k == 1:
            o = ConstBitStream(bin=b, pos=len(b) // 2) if b else ConstBitStream()
        elif k == 2:
            o = BitStream(bin=b, pos=len(b)) if b else BitStream()
        else:
            return Bits(bin=b) if b else Bits()
        operands.append((o, o.pos))
        return o
    if op == "optba":
        bitstring.options.bytealigned = (f[1] == "1")
        return "[]"
    if op in ("readD", "peekD"):
        return _fmt(getattr(s, op[:-1])(_dtype_obj(f[1])))
    if op in ("readlistD", "readlistM", "peeklistD", "peeklistM"):
        items = [] if f[1] == "-" else f[1].split(",")
        if op.endswith("D"):
            fmt = [_dtype_obj(t) for t in items]                  # a list made up only of Dtype objects
        else:
            fmt = [_dtype_obj(t) if (i + len(opf)) % 2 == 0 else _tok_arg(t) for i, t in enumerate(items)]
        return _fmt(getattr(s, op[:-1])(fmt))
    if op == "read":
        return _fmt(s.read(_tok_arg(f[1])))
    if op == "peek":
        return _fmt(s.peek(_tok_arg(f[1])))
    if op in ("readlist", "readlistS"):
        return _fmt(s.readlist(_toklist(f[1], op.endswith("S"))))
    if op in ("peeklist", "peeklistS"):
        return _fmt(s.peeklist(_toklist(f[1], op.endswith("S"))))
    if op in ("readlistK", "peeklistK", "otherK"):
        items = [] if f[1] == "-" else f[1].split(",")
        kw = dict(_kw_pairs(f[2]))
        fmt = _toklist(f[1], True) if f[3] in "Sspu" else [_tok_arg(t) for t in items]
        if f[3] == "s":
            fmt = ",".join(items)                                 # the plain comma form, no multiplicative factors
        if op == "readlistK":
            return _fmt(s.readlist(fmt, **kw))
        if op == "peeklistK":
            return _fmt(s.peeklist(fmt, **kw))
        # otherK: the same format and keywords on a different object with the same contents
        b = s.bin
        t = (BitStream if len(opf) % 2 else ConstBitStream)(bin=b) if b else ConstBitStream()
        if f[3] == "u":
            t = Bits(bin=b) if b else Bits()
        try:
            got = _fmt(t.unpack(fmt, **kw) if f[3] == "u" else (t.peeklist(fmt, **kw) if f[3] == "p" else t.readlist(fmt, **kw)))
        except Exception as e:                                   # noqa: BLE001
            got = _err(e)
        extra.setdefault("other", []).append((opf, b, got, getattr(t, "pos", 0)))
        return "[]"
    if op == "readto":
        return _fmt(s.readto(B(f[1]), **_ba_kw(f[2])))
    if op == "readtoint":
        return _fmt(s.readto(3))
    if op == "bytealign":
        return _fmt(s.bytealign())
    if op == "pos":
        s.pos = int(f[1]); return "None"
    if op == "bitpos":
        s.bitpos = int(f[1]); return "None"
    if op == "bytepos":
        return _fmt(s.bytepos)
    if op == "setbytepos":
        s.bytepos = int(f[1]); return "None"
    if op in ("find", "rfind"):
        kw = {}
        if f[2] != "None":
            kw["start"] = int(f[2])
        if f[3] != "None":
            kw["end"] = int(f[3])
        kw.update(_ba_kw(f[4]))
        return _fmt(getattr(s, op)(B(f[1]), **kw))
    if op == "append":
        return _fmt(s.append(B(f[1])))
    if op == "iadd":
        s0 = s
        s += B(f[1])
        return "None" if s is s0 else "?rebound"
    if op == "appendself":
        return _fmt(s.append(s))
    if op == "iaddself":
        s0 = s
        s += s
        return "None" if s is s0 else "?rebound"
    if op == "prepend":
        return _fmt(s.prepend(B(f[1])))
    if op == "prependself":
        return _fmt(s.prepend(s))
    if op in ("insert", "overwrite"):
        a = () if f[2] == "None" else (int(f[2]),)
        return _fmt(getattr(s, op)(B(f[1]), *a))
    if op in ("insertself", "overwriteself"):
        a = () if f[1] == "None" else (int(f[1]),)
        return _fmt(getattr(s, op[:-4])(s, *a))
    if op == "setslice":
        s[_oi(f[1]):_oi(f[2])] = B(f[3]); return "None"
    if op == "setidx":
        s[int(f[1])] = B(f[2]); return "None"
    if op == "setidxint":
        s[int(f[1])] = int(f[2]); return "None"
    if op == "delslice":
        del s[_oi(f[1]):_oi(f[2]):_oi(f[3])]; return "None"
    if op == "delidx":
        del s[int(f[1])]; return "None"
    if op == "replace":
        return _fmt(s.replace(B(f[1]), B(f[2]), _oi(f[3]), _oi(f[4]), _oi(f[5]), **_ba_kw(f[6])))
    if op == "replaceself":
        return _fmt(s.replace(B(f[1]), s, _oi(f[2]), _oi(f[3]), _oi(f[4]), **_ba_kw(f[5])))
    if op == "clear":
        return _fmt(s.clear())
    if op == "setprop":
        setattr(s, f[1], _propval(f[1].rstrip("0123456789"), f[2])); return "None"
    if op == "setuint":
        s.uint = int(f[1]); return "None"
    if op == "reverse":
        return _fmt(s.reverse(_oi(f[1]), _oi(f[2])))
    if op == "invertall":
        return _fmt(s.invert())
    if op == "invertat":
        return _fmt(s.invert(int(f[1])))
    if op == "setall":
        return _fmt(s.set(int(f[1])))
    if op == "setat":
        return _fmt(s.set(int(f[1]), int(f[2])))
    if op in ("ror", "rol"):
        return _fmt(getattr(s, op)(int(f[1])))
    if op == "byteswap":
        return _fmt(s.byteswap())
    if op in ("ilshift", "irshift", "imul", "iand", "ior", "ixor"):
        s0 = s
        if op == "ilshift":
            s <<= int(f[1])
        elif op == "irshift":
            s >>= int(f[1])
        elif op == "imul":
            s *= int(f[1])
        elif op == "iand":
            s &= B(f[1])
        elif op == "ior":
            s |= B(f[1])
        else:
            s ^= B(f[1])
        return "None" if s is s0 else "?rebound"
    if op == "copy":
        return _ret(s.copy(), s)
    if op == "copymod":
        return _ret(_copy.copy(s), s)
    if op == "slice":
        return _ret(s[_oi(f[1]):_oi(f[2]):_oi(f[3])], s)
    if op == "add":
        return _ret(s + B(f[1]), s)
    if op == "radd":
        return _ret(("0b" + unwire(f[1]) if unwire(f[1]) else "") + s, s)
    if op == "addself":
        return _ret(s + s, s)
    if op == "mul":
        return _ret(s * int(f[1]), s)
    if op == "rmul":
        return _ret(int(f[1]) * s, s)
    if op == "inv":
        return _ret(~s, s)
    if op == "lshift":
        return _ret(s << int(f[1]), s)
    if op == "rshift":
        return _ret(s >> int(f[1]), s)
    if op == "and":
        return _ret(s & B(f[1]), s)
    if op == "or":
        return _ret(s | B(f[1]), s)
    if op == "xor":
        return _ret(s ^ B(f[1]), s)
    if op == "andself":
        return _ret(s & s, s)
    if op == "orself":
        return _ret(s | s, s)
    if op == "xorself":
        return _ret(s ^ s, s)
    if op == "q":
        return _query(s, f, extra)
    raise ValueError("unknown op " + opf)


def _q(s, f):
    if f[1] == "eq":
        o = Bits(bin=unwire(f[2])) if unwire(f[2]) else Bits()
        return s == o and not (s != o)
    if f[1] == "hash":
        return (hash(s), s.tobytes())
    if f[1] == "len":
        return len(s)
    if f[1] == "contains":
        return (Bits(bin=unwire(f[2])) if unwire(f[2]) else Bits()) in s
    if f[1] == "count":
        return s.count(1)
    if f[1] == "uint":
        return s.uint
    raise ValueError(f)


def _query(s, f, extra):
    """The query on s, and the same query on twins with other positions and on a pos-less Bits: all must agree."""
    def g(o):
        try:
            return ("ok", _q(o, f))
        except Exception as e:                                   # noqa: BLE001
            return ("err", err_name(e))
    mine = g(s)
    n = len(s)
    for p in {0, n, n // 2} - {s.pos}:
        t = type(s)(bin=s.bin, pos=p) if n else type(s)()
        other = g(t)
        if other != mine:
            extra.setdefault("twin", []).append(f"{' '.join(f)}: pos={s.pos} gives {mine}, pos={p} gives {other}")
    if not (f[1] == "hash" and isinstance(s, BitArray)):
        plain = g(Bits(bin=s.bin) if n else Bits())
        if plain != mine:
            extra.setdefault("twin", []).append(f"{' '.join(f)}: stream gives {mine}, Bits gives {plain}")
    if mine[0] == "err":
        raise {"TypeError": TypeError, "ValueError": ValueError}.get(mine[1], RuntimeError)(mine[1])
    v = mine[1]
    if f[1] == "hash":
        return "x:" + v[1].hex()
    return _fmt(v)


def _err(e):
    n = err_name(e)
    if n == "ReadError":
        return n
    return "err" if n in DOCUMENTED else n


def _collect_global_state():
    """Every lru_cache and every module-level dict / list / set of the bitstring package, found by scanning (no names
    assumed), with a snapshot of the containers' contents at import time."""
    import types
    caches, containers, seen = [], [], set()
    for name, mod in list(sys.modules.items()):
        if not (name == "bitstring" or name.startswith("bitstring.")) or mod is None:
            continue
        for attr, obj in list(vars(mod).items()):
            if isinstance(obj, (dict, list, set)) and not attr.startswith("__") and id(obj) not in seen:
                seen.add(id(obj))
                containers.append((obj, type(obj)(obj)))
            members = [obj]
            if isinstance(obj, type) and getattr(obj, "__module__", "").startswith("bitstring"):
                members += [getattr(obj, a, None) for a in list(vars(obj))]
            for m in members:
                if callable(getattr(m, "cache_clear", None)) and id(m) not in seen:
                    seen.add(id(m))
                    caches.append(m)
    return caches, containers


_GLOBAL_STATE = _collect_global_state()


def _reset_global_state():
    """Each case starts from the package's import-time state, so that a reported case fails on its own."""
    caches, containers = _GLOBAL_STATE
    for c in caches:
        c.cache_clear()
    for obj, snap in containers:
        if obj != snap:
            obj.clear()
            (obj.extend if isinstance(obj, list) else obj.update)(snap)


def execute(line):
    _reset_global_state()
    f = line.split(SEP)
    if f[1] == "init":
        cls, bits, pos = CLASSES[f[2]], unwire(f[3]), int(f[4])
        try:
            s = cls(bin=bits, pos=pos) if bits else cls(pos=pos)
        except Exception as e:                                   # noqa: BLE001
            return ("err" if err_name(e) in DOCUMENTED else err_name(e)), {}
        return f"ok {s.pos}", {"len": len(s), "bin": s.bin}
    assert f[1] == "hist", line
    cls, bits, pos, route, ops = CLASSES[f[2]], unwire(f[3]), int(f[4]), f[5], f[6:]
    extra = {}
    if route == "ctor":
        s = cls(bin=bits, pos=pos) if bits else cls(pos=pos)
    elif route == "neg":                                          # a negative initial pos counts from the end
        s = cls(bin=bits, pos=pos - len(bits)) if pos < len(bits) else cls(bin=bits, pos=pos) if bits else cls(pos=pos)
    elif route == "auto":
        s = cls("0b" + bits if bits else "", pos=pos)
    else:
        s = cls(bin=bits) if bits else cls()
        s.pos = pos
    obs, before = [], bits
    saved_ba = bitstring.options.bytealigned
    bitstring.options.bytealigned = False
    try:
        for opf in ops:
            operands = []
            try:
                res = _do(s, opf, extra, operands)
            except RecursionError:
                res = "Internal:RecursionError"
            except Exception as e:                               # noqa: BLE001 — the exception class is the observable
                res = _err(e)
            for o, p in operands:
                if o is not s and o.pos != p:
                    extra.setdefault("operand", []).append(f"{opf}: the operand's own pos moved {p} -> {o.pos}")
            now = s.bin
            obs.append(f"{res} {s.pos} {'=' if now == before else wire(now)}")
            before = now
            if not 0 <= s.pos <= len(s):
                obs.append("!")
                break
    finally:
        bitstring.options.bytealigned = saved_ba
    return "ok " + "|".join(obs), extra


# =====================================================================================================================
# oracle: the reference machine decides, step by step
# =====================================================================================================================
def _parse_obs(o):
    res, pos, b = o.rsplit(" ", 2)
    return res, int(pos), b


def first_failure(line, out):
    """(step index, message) of the first step on which the implementation leaves what the property allows."""
    f = line.split(SEP)
    bits, pos, mut, ops = unwire(f[3]), int(f[4]), f[2] == "BitStream", f[6:]
    if not out.startswith("ok "):
        return (0, "no observation: " + out)
    obs = out[3:].split("|")
    opt = False
    for i, opf in enumerate(ops):
        if i >= len(obs) or obs[i] == "!":
            return (i, f"observation ends before step {i} ({opf})")
        res, ipos, ibin = _parse_obs(obs[i])
        nbits, allowed = ref_step((bits, pos, mut, opt), opf)
        if opf.startswith("optba "):
            opt = opf.split(" ")[1] == "1"
        ibits = bits if ibin == "=" else unwire(ibin)
        if not 0 <= ipos <= len(ibits):
            return (i, f"step {i} ({opf}) from (bits={wire(bits)}, pos={pos}): pos={ipos} is outside 0..{len(ibits)}")
        if ibits != nbits:
            return (i, f"step {i} ({opf}) from (bits={wire(bits)}, pos={pos}): contents {wire(ibits)}, expected {wire(nbits)}")
        if (res, ipos) not in allowed:
            exp = " or ".join(f"{r} with pos={p}" for r, p in allowed)
            where = f"(bits={wire(bits)}, pos={pos}" + (", options.bytealigned=True" if opt and not opf.startswith("optba") else "") + ")"
            return (i, f"step {i} ({opf}) from {where}: got {res} with pos={ipos}, expected {exp}")
        bits, pos = nbits, ipos
    if len(obs) > len(ops):
        return (len(ops), "stray observation " + obs[len(ops)])
    return None


def _strip_pos(v):
    """Values of an unpack on a plain Bits carry no position; compare `b:<bits>@…` items by their bits."""
    import re
    return re.sub(r"@(0|missing)", "", v)


def model_line(line):
    """The model has no keywords: it gets the token list with the keyword values of each call filled in."""
    f = line.split(SEP)
    if f[1] != "hist":
        return line
    out = f[:6]
    opt = False
    for opf in f[6:]:
        g = opf.split(" ")
        if g[0] == "optba":                                       # the model has no option: it gets the alignment in force
            opt = g[1] == "1"
            opf = "peeklistS -"
        elif g[0] in ("find", "rfind", "readto", "replace", "replaceself"):
            g[-1] = "1" if _eff_ba(g[-1], opt) else "0"
            opf = " ".join(g)
        elif g[0] in ("readD", "peekD", "readlistD", "readlistM", "peeklistD", "peeklistM"):
            opf = " ".join([g[0][:-1]] + g[1:])                   # Dtype objects are just another way to write the tokens
        if g[0] in ("readlistK", "peeklistK"):
            toks = _resolve_kw(g[1], g[2])
            opf = ("readlistS " if g[0] == "readlistK" else "peeklistS ") + (",".join(toks) if toks else "-")
        elif g[0] == "otherK":
            opf = "peeklistS -"
        out.append(opf)
    return SEP.join(out)


def oracle(line, out, extra):
    f = line.split(SEP)
    if f[1] == "init":
        n, p = len(unwire(f[3])), int(f[4])
        q = p + n if p < 0 else p
        exp = f"ok {q}" if 0 <= q <= n else "err"
        if out != exp:
            return f"{f[2]}(bin={f[3]}, pos={p}): expected {exp}, got {out}"
        if out.startswith("ok") and extra["bin"] != unwire(f[3]):
            return f"constructor changed the contents: {extra['bin']}"
        return None
    r = first_failure(line, out)
    if r:
        return r[1]
    for opf, b, got, tpos in extra.get("other", []):
        g = opf.split(" ")
        r = ref_readlist(b, 0, _resolve_kw(g[1], g[2]))
        exp = r[1] if r[0] == "ok" else r[0]
        if g[3] == "u":
            exp = exp.replace("@0", "@0")                         # unpack on Bits: returned Bits have no pos of their own
        epos = r[2] if (r[0] == "ok" and g[3] not in "pu") else 0
        if _strip_pos(got) != _strip_pos(exp) or (g[3] != "u" and tpos != epos):
            return (f"{opf} on a fresh object with contents {wire(b)}: got {got} and pos {tpos}, "
                    f"expected {exp} and pos {epos}")
    if extra.get("twin"):
        return "a non-stream result depends on pos: " + extra["twin"][0]
    if extra.get("operand"):
        return "an operation moved the position of its operand: " + extra["operand"][0]
    return None


# All four deviations found while building this check (readlist_negative_count, single_length_short_read,
# property_assignment_shrinks, const_and_or_self) were fixed in /repo; no region is exempt any more.
REGIONS = {}


def nontrivial(line):
    f = line.split(SEP)
    return len(f) > 6 and f[3] != "-"


# =====================================================================================================================
# generators
# =====================================================================================================================
def _enc(code, i):
    if code == "ue":
        b = bin(i + 1)[2:]
        return "0" * (len(b) - 1) + b
    if code == "se":
        return _enc("ue", 2 * i - 1 if i > 0 else -2 * i)
    if code == "uie":
        return "".join("0" + d for d in bin(i + 1)[3:]) + "1"
    return "1" if i == 0 else _enc("uie", abs(i)) + ("1" if i < 0 else "0")


def _case(cls, bits, pos, route, ops):
    return SEP.join(["C06", "hist", cls, wire(bits), str(pos), route] + ops)


def _rand_content(rng):
    r = rng.random()
    if r < 0.25:                                                  # a run of self-delimiting codes, perhaps cut short
        parts = []
        for _ in range(rng.randint(1, 6)):
            c = rng.choice(VAR)
            v = rng.choice([0, 1, 2, 3, 6, 7, 8, 20, rng.getrandbits(rng.randint(1, 12))])
            parts.append(_enc(c, -v if c in ("se", "sie") and rng.random() < 0.5 else v))
        b = "".join(parts) + rand_bits(rng, rng.choice([0, 0, 1, 3]))
        if rng.random() < 0.4 and b:
            b = b[:len(b) - rng.randint(1, min(3, len(b)))]
        return b
    n = rng.choice([0, 1, 2, 3, 5, 7, 8, 9, 12, 15, 16, 17, 20, 23, 24, 25, 31, 32, 33, 40, 47, 48, 63, 64, 65, 100, 129])
    if r < 0.35:
        n = rng.randint(0, 40)
    return rand_bits(rng, n)


def _rand_tok(rng, rem):
    r = rng.random()
    if r < 0.12:
        return str(rng.choice([0, 1, rem, rem + 1, -1, -rng.randint(1, 9), rng.randint(0, max(rem, 1)), rng.randint(0, rem + 3)]))
    if r < 0.30:
        return rng.choice(VAR)
    if r < 0.36:
        return "bool" if rem >= 1 or rng.random() < 0.1 else "bin:1"
    k = rng.choice(KINDS)
    if r < 0.50:
        return k                                                  # no length: everything that is left
    unit = 8 if k == "bytes" else 1
    cap = rem // unit
    n = rng.choice([0, 1, cap, cap + 1, rng.randint(0, max(cap, 1)), rng.randint(0, max(cap, 1)), rng.randint(0, cap + 2)])
    if k == "hex" and rng.random() < 0.85:
        n -= n % 4
    return f"{k}:{n}"


def _tok_need(t, rem):
    tok = _parse_tok(t)
    if tok[0] == "count":
        return max(tok[1], 0)
    if tok[0] == "fixed":
        return _need(tok)
    return 0


def _rand_toklist(rng, rem):
    k = rng.choice([0, 1, 1, 2, 2, 3, 3, 4, 5])
    out = []
    left = rem
    for _ in range(k):
        t = _rand_tok(rng, max(left, 0) if rng.random() < 0.8 else rem)
        if t in KINDS and any(x in KINDS for x in out) and rng.random() < 0.9:
            t = "pad:1"
        if t.startswith("-") and rng.random() < 0.7:
            t = "1"
        out.append(t)
        left -= _tok_need(t, left)
    return ",".join(out) if out else "-"


KW_TEMPLATES = ["uint:w,hex:r", "uint:width,hex:rest", "bits:a,bin:b", "int:n,int:n,bin:m", "pad:a,uint:b,bits", "bytes:k,bin:w",
                "bin:w", "hex:r,uint:w,3", "uint:w,ue,bin:r", "bits:a,bits:b,bits:a", "bin,uint:w", "2,bin:m,uint:n"]


def _rand_kw_op(rng, rem, tpl=None, order=None):
    """readlist / peeklist / a second object, with lengths given by keywords.  Templates and keyword names come from a
    small fixed vocabulary, so the same format string recurs (in one history and across histories) with other values."""
    tpl = tpl or rng.choice(KW_TEMPLATES)
    names = []
    for t in tpl.split(","):
        if ":" in t and not t.split(":")[1].isdigit() and t.split(":")[1] not in names:
            names.append(t.split(":")[1])
    left = max(rem, 0)
    vals = {}
    for nm in names:
        kind = next(t.split(":")[0] for t in tpl.split(",") if ":" in t and t.split(":")[1] == nm)
        cap = max(left, 0) // (8 if kind == "bytes" else 1)
        v = rng.choice([0, 1, 2, 3, 4, 5, 7, 8, 12, cap, cap // 2, rng.randint(0, max(cap, 1)), rng.randint(0, cap + 2)])
        if kind == "hex" and rng.random() < 0.9:
            v -= v % 4
        uses = sum(1 for t in tpl.split(",") if ":" in t and t.split(":")[1] == nm)
        left -= v * uses * (8 if kind == "bytes" else 1)
        vals[nm] = v
    if order is None:
        order = rng.random() < 0.3
    if order:
        names = names[::-1]
    kws = ",".join(f"{nm}={vals[nm]}{'s' if rng.random() < 0.08 else ''}" for nm in names) or "-"
    r = rng.random()
    if r < 0.5:
        return f"readlistK {tpl} {kws} {rng.choice('SSsL')}"
    if r < 0.8:
        return f"peeklistK {tpl} {kws} {rng.choice('SSsL')}"
    return f"otherK {tpl} {kws} {rng.choice('Spu')}"


def _kw_history(rng):
    """One or two format strings used again and again with other keyword values, other keyword orders, on this stream and
    on a second object, with other operations in between."""
    cls = rng.choice(STREAMS)
    bits = rand_bits(rng, rng.choice([16, 24, 32, 33, 40, 47, 48, 64, 80]))
    pos = rng.choice([0, 0, 0, 1, 4, 8])
    st = (bits, pos, cls == "BitStream")
    tpls = rng.sample(KW_TEMPLATES, rng.choice([1, 1, 2]))
    ops = []
    for i in range(rng.choice([2, 3, 4, 5, 6, 8, 10])):
        if i and rng.random() < 0.35:
            opf = _rand_op(rng, st) if rng.random() < 0.6 else rng.choice(["pos 0", "pos 0", f"pos {rng.randint(0, len(st[0]))}", "bytealign"])
        else:
            opf = _rand_kw_op(rng, len(st[0]) - st[1], rng.choice(tpls))
        ops.append(opf)
        st = _advance(st, opf)
    return _case(cls, bits, pos, rng.choice(["ctor", "attr"]), ops)


def _pattern(rng, bits, frm=0):
    """A pattern that occurs (about two times in three) in bits[frm:]."""
    n = len(bits)
    if n - frm >= 1 and rng.random() < 0.67:
        m = rng.choice([1, 2, 3, 4, 8, 8, 16]) if rng.random() < 0.8 else rng.randint(1, 12)
        m = min(m, n - frm)
        a = rng.randint(frm, n - m)
        if rng.random() < 0.3:
            a -= a % 8
            a = max(a, 0)
            m = min(m, n - a)
        if m > 0:
            return bits[a:a + m]
    return rand_bits(rng, rng.choice([0, 1, 2, 3, 5, 8, 9]))


def _opt_idx(rng, n, none=0.4):
    if rng.random() < none:
        return "None"
    return str(rng.choice([0, n, n + 1, -1, -n, -n - 1, rng.randint(0, n), rng.randint(-n - 1, n + 1)]))


def _prop_assign(rng, n):
    """(name, value text, encoded bits or ERR) — the encoding is computed here, independently of bitstring."""
    r = rng.random()
    if r < 0.3:
        L = rng.choice([1, 4, 8, 12, 16, 3, 7])
        v = rng.getrandbits(L)
        if rng.random() < 0.1:
            return (f"uint{L}", str(1 << L), "ERR")
        return (f"uint{L}", str(v), format(v, "0%db" % L))
    if r < 0.4:
        L = rng.choice([2, 8, 5])
        v = rng.randint(-(1 << (L - 1)), (1 << (L - 1)) - 1)
        return (f"int{L}", str(v), format(v & ((1 << L) - 1), "0%db" % L))
    if r < 0.6:
        h = "".join(rng.choice("0123456789abcdef") for _ in range(rng.choice([0, 1, 2, 3, 8])))
        return ("hex", h, wire("".join(format(int(c, 16), "04b") for c in h))) if h else ("hex", "0x", "-")
    if r < 0.8:
        b = rand_bits(rng, rng.choice([0, 1, 2, 5, 8, 13, n, max(n - 1, 0), n + 1]))
        return ("bin", b if b else "0b", wire(b))
    if r < 0.9:
        v = rng.choice([0, 1, 2, 5, 30])
        return ("ue", str(v), _enc("ue", v))
    v = rng.random() < 0.5
    return ("bool", str(v), "1" if v else "0")


def _rand_op(rng, st):
    bits, pos, mut = st[:3]
    n, rem = len(bits), len(bits) - pos
    fam = rng.random()
    if fam < 0.30:
        r = rng.random()
        if r < 0.55:
            # read(Dtype object) only with a length or a self-delimiting code: read(Dtype('hex')) without a length is an
            # internal TypeError in the library (readlist accepts it) - outside what this property fixes, not generated
            t = _rand_tok(rng, rem)
            name = "read" if r < 0.40 else "peek"
            return (name + "D " if rng.random() < 0.25 and _parse_tok(t)[0] != "open" else name + " ") + t
        if r < 0.78:
            return rng.choice(["readlist", "readlistS", "readlistD", "readlistM"]) + " " + _rand_toklist(rng, rem)
        if r < 0.90:
            return rng.choice(["peeklist", "peeklistS", "peeklistD", "peeklistM"]) + " " + _rand_toklist(rng, rem)
        return _rand_kw_op(rng, rem)
    if fam < 0.42:
        r = rng.random()
        if r < 0.3:
            return "bytealign"
        if r < 0.7:
            return rng.choice(["pos", "pos", "bitpos"]) + " " + str(rng.choice([0, n, n + 1, -1, n - 1, rng.randint(0, n), rng.randint(0, n),
                                                                               8 * (n // 8), max(8 * (n // 8) + rng.randint(-1, 1), 0)]))
        if r < 0.78:
            return "bytepos"
        if r < 0.86:
            return "optba " + rng.choice("01")
        return "setbytepos " + str(rng.choice([0, n // 8, n // 8 + 1, -1, rng.randint(0, n // 8 + 1)]))
    if fam < 0.52:
        r = rng.random()
        al = rng.choice("0001ONNOO1")
        if r < 0.4:
            return f"readto {wire(_pattern(rng, bits, pos))} {al}" if rng.random() < 0.97 else "readtoint"
        return f"{rng.choice(['find', 'rfind'])} {wire(_pattern(rng, bits))} {_opt_idx(rng, n, 0.6)} {_opt_idx(rng, n, 0.6)} {al}"
    if fam < 0.64:
        r = rng.random()
        o = rand_bits(rng, n if rng.random() < 0.8 else rng.randint(0, n + 1))
        return rng.choice(["copy", "copy", "copymod", "copymod", f"slice {_opt_idx(rng, n)} {_opt_idx(rng, n)} {rng.choice(['None', 'None', '1', '2', '-1', '0'])}",
                           f"add {wire(rand_bits(rng, rng.randint(0, 9)))}", f"radd {wire(rand_bits(rng, rng.randint(0, 9)))}", "addself",
                           f"mul {rng.randint(-1, 3)}", f"rmul {rng.randint(-1, 3)}", "inv", f"lshift {rng.randint(-1, n + 1)}",
                           f"rshift {rng.randint(-1, n + 1)}", f"and {wire(o)}", f"or {wire(o)}", f"xor {wire(o)}",
                           "andself" if mut or pos == 0 or rng.random() < 0.25 else "xorself",
                           "orself" if mut or pos == 0 or rng.random() < 0.25 else "xorself", "xorself"])
    if fam < 0.70 or not mut:
        return "q " + rng.choice([f"eq {wire(bits if rng.random() < 0.6 else rand_bits(rng, n))}", "hash", "len",
                                  f"contains {wire(_pattern(rng, bits))}", "count", "uint"])
    # ---- BitStream mutators
    b = rand_bits(rng, rng.choice([0, 1, 1, 2, 3, 5, 8, 9, 16]))
    r = rng.random()
    if r < 0.16:
        return rng.choice([f"append {wire(b)}", f"iadd {wire(b)}", "appendself", "iaddself"] if n <= 70 else [f"append {wire(b)}", f"iadd {wire(b)}"])
    if r < 0.24:
        return rng.choice([f"prepend {wire(b)}", f"prepend {wire(b)}", "prependself"] if n <= 70 else [f"prepend {wire(b)}"])
    if r < 0.36:
        p = _opt_idx(rng, n, 0.5)
        return rng.choice([f"insert {wire(b)} {p}", f"insert {wire(b)} {p}", f"insertself {p}"] if n <= 70 else [f"insert {wire(b)} {p}"])
    if r < 0.46:
        if rng.random() < 0.12 and n <= 70:
            return f"overwriteself {_opt_idx(rng, n, 0.4)}"
        return f"overwrite {wire(b)} {_opt_idx(rng, n, 0.5)}"
    if r < 0.56:
        x = rng.random()
        if x < 0.5:
            a = rng.randint(0, n)
            w = rng.choice([0, 1, len(b), len(b), rng.randint(0, 5)])
            if rng.random() < 0.7:
                return f"setslice {a} {a + w} {wire(b)}"
            return f"setslice {_opt_idx(rng, n)} {_opt_idx(rng, n)} {wire(b)}"
        if x < 0.75:
            return f"setidx {rng.choice([0, -1, n - 1, n, -n - 1, rng.randint(-n - 1, n)])} {wire(rand_bits(rng, rng.choice([0, 1, 1, 2, 3])))}"
        return f"setidxint {rng.choice([0, -1, n - 1, n, rng.randint(-n - 1, n)])} {rng.choice([0, 1, -1, 1, 0, 2])}"
    if r < 0.66:
        if rng.random() < 0.35:
            return f"delidx {rng.choice([0, -1, n - 1, n, -n - 1, rng.randint(-n - 1, n)])}"
        a = rng.randint(0, n)
        if rng.random() < 0.6:
            return f"delslice {a} {a + rng.choice([0, 0, 1, 2, 8])} None"
        return f"delslice {_opt_idx(rng, n)} {_opt_idx(rng, n)} {rng.choice(['None', 'None', '1', '2', '-1', '3', '0'])}"
    if r < 0.74:
        old = _pattern(rng, bits)
        x = rng.random()
        new = old if x < 0.15 else (rand_bits(rng, len(old)) if x < 0.45 else b)
        c = rng.choice(["None", "None", "None", "1", "2", "0", "-1"])
        al = rng.choice("00001ONO")
        if rng.random() < 0.08 and n <= 40:
            return f"replaceself {wire(old)} {_opt_idx(rng, n, 0.7)} {_opt_idx(rng, n, 0.7)} {c} {al}"
        return f"replace {wire(old)} {wire(new)} {_opt_idx(rng, n, 0.7)} {_opt_idx(rng, n, 0.7)} {c} {al}"
    if r < 0.77:
        return "clear"
    if r < 0.85:
        if rng.random() < 0.25:
            return "setuint " + str(rng.choice([0, 1, (1 << n) - 1 if n else 0, 1 << n, -1, rng.getrandbits(max(n, 1))]))
        name, v, enc = _prop_assign(rng, n)
        for _ in range(4):
            if enc == "ERR" or len(unwire(enc)) >= pos or rng.random() < 0.15:
                break
            name, v, enc = _prop_assign(rng, n)
        return f"setprop {name} {v} {enc}"
    if r < 0.88:
        return f"imul {rng.choice([-1, 0, 1, 2, 3]) if n <= 40 else rng.choice([0, 1, 2])}"
    o = rand_bits(rng, n if rng.random() < 0.85 else n + 1)
    return rng.choice([f"reverse {_opt_idx(rng, n, 0.5)} {_opt_idx(rng, n, 0.5)}", "invertall", f"invertat {rng.randint(-n - 1, n)}",
                       f"setall {rng.randint(0, 1)}", f"setat {rng.randint(0, 1)} {rng.randint(-n - 1, n)}",
                       f"ror {rng.randint(-1, n + 2)}", f"rol {rng.randint(-1, n + 2)}", "byteswap",
                       f"ilshift {rng.randint(-1, n + 1)}", f"irshift {rng.randint(-1, n + 1)}",
                       f"iand {wire(o)}", f"ior {wire(o)}", f"ixor {wire(o)}"])


def _history(rng, maxlen=25):
    cls = rng.choice(STREAMS)
    bits = _rand_content(rng)
    n = len(bits)
    pos = rng.choice([0, 0, n, rng.randint(0, n), rng.randint(0, n), max(n - 1, 0), min(1, n), 8 * (n // 8)])
    st = (bits, pos, cls == "BitStream")
    k = rng.choice([1, 1, 2, 3, 4, 6, 8, 10, 12, 16, 20, 25])
    ops = []
    for _ in range(min(k, maxlen)):
        opf = _rand_op(rng, st)
        ops.append(opf)
        st = _advance(st, opf)
    return _case(cls, bits, pos, rng.choice(["ctor", "ctor", "attr", "auto", "neg"]), ops)


def gen(rng, tier):
    big = tier != "quick"
    # 1. every short bit string x every position: every self-delimiting / fixed token through read, peek, readlist, peeklist
    L = 8 if big else 6
    for n in range(0, L + 1):
        for t in itertools.product("01", repeat=n):
            b = "".join(t)
            for pos in range(0, n + 1):
                cls = STREAMS[(n + pos + int(b or "0", 2)) % 2]
                probes = []
                for tok in VAR + ("uint", "hex", "bytes", "bits", "pad", "bin:1", f"uint:{n - pos}", f"int:{n - pos + 1}", str(n - pos), str(n - pos + 1), "bool"):
                    probes += [f"peek {tok}", f"peeklist {tok}"]
                yield _case(cls, b, pos, "ctor", probes)
                for tok in VAR:
                    yield _case(cls, b, pos, "attr", [f"readlist {tok}", f"read {tok}"])
                    yield _case(cls, b, pos, "ctor", [f"read {tok}", f"readlistS {tok},{tok}"])
    # 1b. the constructor's pos argument, in and out of range, negative = from the end
    for n in range(0, (17 if big else 10)):
        b = rand_bits(rng, n)
        for p in range(-n - 3, n + 4):
            for cls in STREAMS:
                yield SEP.join(["C06", "init", cls, wire(b), str(p)])
    # 2. seeking: every length x every position
    for n in range(0, (41 if big else 26)):
        b = rand_bits(rng, n)
        for pos in range(0, n + 1):
            cls = STREAMS[(n + pos) % 2]
            yield _case(cls, b, pos, "ctor", ["bytealign", "bytepos", f"pos {n + 1}", "pos -1", f"setbytepos {n // 8 + 1}", f"setbytepos {n // 8}", "bytealign"])
            yield _case(cls, b, pos, "attr", [f"read {rng.randint(0, 3)}", "bytealign", "bytealign", f"pos {pos}", "q len"])
    # 3. every mutator / returning operation once from a positioned stream of each boundary length
    for n in (0, 1, 7, 8, 9, 16, 17):
        for pos in sorted({0, n // 2, n}):
            b = rand_bits(rng, n)
            for opf in ["append 101", "iadd 1", "appendself", "iaddself", "prepend 01", "prependself", "insert 11 None", "insert 11 0", f"insert 1 {n}",
                        "insertself None", "overwriteself None", "overwriteself 0", "overwrite 101 None", "overwrite 1 0", f"overwrite 11 {n}", "setslice 0 1 -", "setslice 0 1 1", "setslice 0 0 10",
                        "setidx 0 11", "setidx 0 1", "setidxint 0 1", "delslice 0 1 None", "delslice 0 0 None", "delidx 0", "delidx -1",
                        f"replace {wire(b[:2])} 111 None None None 0", f"replace {wire(b[:2])} {wire(b[:2])} None None None 0", "clear",
                        "setprop hex f 1111", "setprop bin 0b -", "setprop uint8 3 00000011", f"setprop bin {b or '0b'} {wire(b)}", "setuint 0",
                        "imul 0", "imul 2", "reverse None None", "invertall", "ror 1", "rol 1", "byteswap", "ilshift 1", "irshift 1",
                        "copy", "copymod", "slice None None None", "add 1", "radd 1", "addself", "mul 2", "rmul 0", "inv", "lshift 1", "rshift 1",
                        f"and {wire(b)}", f"or {wire(b)}", f"xor {wire(b)}", "andself", "orself", "xorself",
                        "q hash", f"q eq {wire(b)}", "q contains 1", "q count", "q uint", "q len"]:
                for cls in STREAMS:
                    if cls == "ConstBitStream" and opf.split(" ")[0] not in ("copy", "copymod", "slice", "add", "radd", "addself", "mul", "rmul", "inv", "lshift",
                                                                            "rshift", "and", "or", "xor", "andself", "orself", "xorself", "q"):
                        continue
                    yield _case(cls, b, pos, "ctor", [opf, "q len", "peek bin"])
    # 4. random histories
    for _ in range(200000 if big else 24000):
        yield _history(rng)
    # 4b. lengths from keywords: the same format string again and again with other values / orders / objects
    for tpl in KW_TEMPLATES:
        for cls in STREAMS:
            b = rand_bits(rng, 48)
            ops = []
            for j in range(4):
                ops.append(_rand_kw_op(rng, 48 - 0, tpl, order=(j == 3)))
                ops.append("pos 0")
            yield _case(cls, b, 0, "ctor", ops)
    for _ in range(20000 if big else 2500):
        yield _kw_history(rng)
    # 4c. the module-wide bytealigned option x the bytealigned argument (omitted / None / False / True), on data whose
    #     first (last) occurrence is not byte aligned while a later (earlier) one is
    for pat in ("1011", "11", "10000001", "110100111"):
        for (u, a) in ((3, 16), (1, 8), (5, 24), (9, 32)):
            for rev in (False, True):
                n = a + len(pat) + 7
                lay = ["0"] * n
                first, second = (a, a + 8 + u % 8 if False else u) if rev else (u, a)
                for p0 in (u, a):
                    lay[p0:p0 + len(pat)] = list(pat)
                b = "".join(lay)
                for opt in "01":
                    for al in "ON01":
                        for cls in STREAMS:
                            yield _case(cls, b, 0, "ctor", [f"optba {opt}", f"readto {pat} {al}", "pos 0", f"find {pat} None None {al}",
                                                            "pos 0", f"rfind {pat} None None {al}", f"pos {min(u + 1, n)}", f"readto {pat} {al}",
                                                            f"optba {'1' if opt == '0' else '0'}", "pos 0", f"readto {pat} {al}", f"rfind {pat} 0 {a} {al}"])
                        yield _case("BitStream", b, 0, "attr", [f"optba {opt}", f"replace {pat} 0 None None None {al}", "q len", f"readto {pat} {al}"])
    # 4d. formats given as Dtype objects (alone, and mixed with strings and ints): a later item runs past the end
    for n in (range(4, 41) if big else (4, 5, 8, 9, 12, 16, 17, 24, 31, 33)):
        for _ in range(6 if big else 8):
            b = rand_bits(rng, n)
            pos = rng.choice([0, 0, 1, n // 2, max(n - 3, 0)])
            rem = n - pos
            k = rng.choice([2, 2, 3, 4])
            cuts = sorted(rng.randint(0, rem) for _ in range(k - 1))
            sizes = [y - x for x, y in zip([0] + cuts, cuts + [rem])]
            sizes[-1] += rng.choice([1, 1, 2, 9])                 # the last item needs more than is left
            toks = []
            for z in sizes:
                kind = rng.choice(["uint", "int", "bin", "bits", "pad", "count", "hex", "ue"])
                if kind == "count":
                    toks.append(str(z))
                elif kind == "hex":
                    toks.append(f"hex:{z - z % 4 + (4 if z % 4 else 0)}")
                elif kind == "ue" and len(toks) < len(sizes) - 1:
                    toks.append("ue")
                else:
                    toks.append(f"{kind if kind not in ('count', 'hex', 'ue') else 'bin'}:{max(z, 1) if kind in ('uint', 'int') else z}")
            tl = ",".join(toks)
            cls = rng.choice(STREAMS)
            for route in ("readlistD", "peeklistD", "readlistM", "peeklistM", "readlist", "readlistS"):
                yield _case(cls, b, pos, "ctor", [f"{route} {tl}", "q len", f"{route} {','.join(toks[:-1]) or '-'}", f"readD {toks[0]}"])
    # 5. codes cut short by one to three bits, read through every route
    for _ in range(6000 if big else 500):
        c = rng.choice(VAR)
        v = rng.choice([1, 2, 3, 4, 6, 7, 14, 15, 20, 30, 100, rng.getrandbits(rng.randint(1, 20))])
        e = _enc(c, -v if c in ("se", "sie") and rng.random() < 0.5 else v)
        pre = rand_bits(rng, rng.randint(0, 12))
        body = e[:len(e) - rng.choice([0, 1, 1, 1, 2, 3])] if len(e) > 1 else e
        route = rng.choice(["read", "peek", "readlist", "peeklist", "readlistS", "peeklistS"])
        yield _case(rng.choice(STREAMS), pre + body, len(pre), rng.choice(["ctor", "attr"]), [f"{route} {c}", f"read {c}", "q len"])
