"""C19 — printable forms faithfully describe the value.

lines (TAB separated; bits as 0/1, '-' = empty; booleans 0/1):
  C19 str   <cls> <bits> <lsb0>                      -> ok [<text of str(s)>]
  C19 repr  <cls> <bits> <pos> <lsb0>                -> ok [<text of repr(s)>]
  C19 reprf <cls> <file content bits, whole bytes> <mutation> <pos>
                                                     -> ok [<repr of cls(filename=F) after the mutation, path shown as 'F'>]
        (Bits/ConstBitStream: the file-name form; BitArray/BitStream: the literal form of the current bits)
  C19 parse [<initialiser string, %XX escapes>]      -> ok <bits> | err          (Bits(<string>), literal sub-language)
  C19 pp    <cls> <bits> <tok1> <tok2|-> <width> <sep code> <show_offset> <lsb0> <no_color>
                                                     -> ok T=<trailing text|-> E=<0|1|-> <len>:<g,g,..>[/<g,g,..>] ...  | err
        one item per printed line: its visible length, the digit groups of the first column and of the second;
        E = escape sequences present (reported only when no_color is set, '-' otherwise)
  C19 app   <dtype> <bits> <tok1|-> <tok2|-> <width> <show_offset> <lsb0> <no_color>
                                                     -> as pp: Array(dtype, data=bits).pp(fmt) with bin/oct/hex tokens ('-' = fmt None)
  C19 appx  <dtype> <bits> <width> <show_offset> <lsb0> <no_color>
                                                     -> ok roundtrip               (Array.pp() of an int/uint dtype: values read back)
  every str / repr / reprf / pp / app / appx / arr / arrx case runs under a setting of all four options
  (no_color, lsb0, bytealigned, mxfp_overflow; those the line does not fix are derived from its hash) and records them
  before and after the call: a call must not change bitstring.options
  C19 arr   <kind> <n> <bits>                        -> ok [<text of repr(Array(kind+n))>]    (uint int bin oct hex bool)
  C19 arrx  <dtype> <bits>                           -> ok roundtrip               (other unscaled dtypes: implementation + oracle only)
"""
from harness.common import *
import io, re, math, itertools, tempfile, shutil, sys

# ---------------------------------------------------------------------------------------------- GENERATED layer
# MAX_CHARS, the *_bits2chars graphs and the default pp group sizes are re-read from the working tree on every run
# and written (write-if-changed) to lean/BitstringModel/Gen/PrintConsts.lean *before* run.py builds the Lean side.
from harness import extract_C19 as _ext
try:
    GEN_DATA = _ext.extract(REPO)
    GEN_CHANGED = _ext.write(_ext.GEN_DIR, GEN_DATA)
except Exception as _e:                                    # the extractor failing is a broken tie, reported by the build
    GEN_DATA, GEN_CHANGED = {"error": repr(_e)}, []

FUNCTIONAL = False
LEVEL_TEXT = ("47 Lean theorems about the transcription of Bits.__str__/_repr/pp (all proved, none partial): parseAuto (strForm l) = l for "
              "every bit list of at most 4*MAX_CHARS bits (hex / bin / mixed form, every residue mod 4) under msb0 and lsb0, longer values "
              "end in '...' after the hex of the leading 1000 bits, eval of the repr text gives back class, bits and pos and a truncated "
              "repr ends with the true length; the pp layout (groups per line from width, offset column, trailing bits, the ungrouped "
              "24-bit arithmetic, msb0 and lsb0) lists exactly the digit groups of the data in order (so no group is split, digits "
              "complete in both columns), all lines have one length which is within width unless the line holds one group (one "
              "character / one 24-bit unit when ungrouped), no escape character is emitted when colour is off, pp fails only with "
              "ValueError and succeeds on every representable value. MAX_CHARS, the *_bits2chars graphs (0..512) and the default group "
              "sizes are re-extracted from the source each run and tied to the model by generated obligations. Correspondence: str/repr "
              "for lengths 0..70, 990..1010 and beyond x 4 classes x pos x msb0/lsb0 (+ every value of the 1-3 tail bits), file-backed "
              "repr, literal parser, pp over format pairs x group sizes x widths 0..200 x separators x show_offset x lsb0 x no_color, "
              "Array.__repr__ (incl. more than 1000 trailing bits), Array.pp with bin/oct/hex formats whose unit is smaller than, equal to or larger than the item size (theorem arrayPP_eq_pp reduces it to Bits.pp) and of int/uint dtypes; every call is followed by a check that bitstring.options (no_color, lsb0, bytealigned, mxfp_overflow) are unchanged. Three defects found by this check were fixed in /repo (55378c7, 059409d, 19a4a37); no known finding remains.")
LEVEL_NOTE = ("Trusted: Lean kernel (+propext, Classical.choice, Quot.sound); harness/extract_C19.py; the correspondence harness and its "
              "parser of pp output; bitarray's ba2hex/ba2base/to01 are modelled as digit strings; eval of a repr text is modelled by a "
              "hand-written parser (parseRepr / evalFileRepr). Array.__repr__ is modelled for int/uint/bin/oct/hex/bool items only; "
              "float-like, bytes and bits dtypes are checked by eval on the implementation. 'Smallest displayable unit' of two "
              "ungrouped formats is read as the code's 24-bit quantum.")
TECHNIQUE = "Lean 4 proof (round trip of the printed form, layout arithmetic) + differential correspondence on parsed pp output"
NOT_YET_PROVED = []

BPC = {"bin": 1, "oct": 3, "hex": 4}
SEPS = {"e": "", "s": " ", "u": "_", "c": ", ", "d": "--", "t": " | ", "x": "xyzw"}
ESC_RE = re.compile(r"\x1b\[[0-9;]*m")
NS = None


def _ns():
    global NS
    if NS is None:
        NS = {k: getattr(bitstring, k) for k in dir(bitstring) if not k.startswith("_")}
        NS.update(nan=float("nan"), inf=float("inf"))
    return NS


def _enc(s: str) -> str:
    return "[" + "".join(c if (c.isprintable() and c not in "%\t") or c == " " else "%%%02x" % ord(c) for c in s) + "]"


def _dec(w: str) -> str:
    return re.sub(r"%([0-9a-f]{2})", lambda m: chr(int(m.group(1), 16)), w[1:-1])


def _mk(cls, bits, pos=0):
    k = CLASSES[cls]
    if cls in ("ConstBitStream", "BitStream"):
        return k(bin=bits, pos=pos) if bits else k()
    return k(bin=bits) if bits else k()


def _alt(cls, bits):
    """The same value reached by another route (a slice of a longer store, so with a bit offset)."""
    k = CLASSES[cls]
    return k(bin="1" + bits + "0")[1:len(bits) + 1]


def _optvals(line, lsb0=None, nc=None, plain=False):
    """A full setting of bitstring.options for a case: what the line fixes, the rest from its hash."""
    h = int(case_hash(line), 16)
    return dict(lsb0=bool(h & 8) if lsb0 is None else lsb0, no_color=bool(h & 1) if nc is None else nc,
                bytealigned=False if plain else bool(h & 2), mxfp_overflow="saturate" if plain or not h & 4 else "overflow")


def _snap():
    o = bitstring.options
    return (bool(o.no_color), bool(o.lsb0), bool(o.bytealigned), o.mxfp_overflow)


def _opts_msg(extra):
    if "opts" in extra and extra["opts"][0] != extra["opts"][1]:
        return "the call changed bitstring.options (no_color, lsb0, bytealigned, mxfp_overflow): %s -> %s" % extra["opts"]
    return None


def _array(dt, bits):
    a = bitstring.Array(dt)
    a.data = BitArray(bin=bits) if bits else BitArray()
    return a


def _dtype_size(dt):
    m = re.match(r"^(uint|int|hex|bin|oct)(\d+)$", dt)
    return m.group(1), int(m.group(2))


# ---------------------------------------------------------------------------------------------- independent references
def ref_digits(fmt, bits):
    k = BPC[fmt]
    assert len(bits) % k == 0
    return "".join("0123456789abcdef"[int(bits[i:i + k], 2)] for i in range(0, len(bits), k))


def ref_parse_literals(text):
    """Bits described by a string of 0x / 0b / 0o literals separated by ', ' (plain Python, not the library)."""
    out = ""
    if text == "":
        return out
    for tok in text.split(", "):
        if tok.startswith("0x") and len(tok) > 2 and all(c in "0123456789abcdef" for c in tok[2:]):
            out += "".join(format(int(c, 16), "04b") for c in tok[2:])
        elif tok.startswith("0b") and len(tok) > 2 and all(c in "01" for c in tok[2:]):
            out += tok[2:]
        elif tok.startswith("0o") and len(tok) > 2 and all(c in "01234567" for c in tok[2:]):
            out += "".join(format(int(c, 8), "03b") for c in tok[2:])
        else:
            return None
    return out


def ref_chunks(bits, n, lsb0):
    """Groups of n bits in the order pp lists them: from the left in msb0, from the right in lsb0."""
    if not lsb0:
        return [bits[i:i + n] for i in range(0, len(bits), n)]
    out, e = [], len(bits)
    while e > 0:
        out.append(bits[max(e - n, 0):e])
        e -= n
    return out


def parse_tok(t):
    m = re.match(r"^(bin|oct|hex):?(\d*)$", t)
    return m.group(1), (int(m.group(2)) if m.group(2) != "" else None)


# ---------------------------------------------------------------------------------------------- pp output parser
def _split_groups(col, c, sep, lsb0):
    """The groups printed in one column of one line: fixed fields of c characters joined by sep, blanks around."""
    if lsb0:
        gs = _split_groups(col[::-1], c, sep[::-1], False)
        return None if gs is None else [g[::-1] for g in gs][::-1]
    if c <= 0:
        return None
    groups, pos = [], 0
    while True:
        field = col[pos:pos + c]
        g = field.strip(" ")                                # alignment inside the field is not part of the property
        if g == "" or " " in g:
            return None
        groups.append(g)
        pos += c
        rest = col[pos:]
        if rest.strip(" ") == "":
            return groups
        if not rest.startswith(sep):
            return None
        pos += len(sep)


def parse_pp(raw, two, lsb0, show_offset, sep, cpgs, grouped, array=False):
    """-> (header_cls, header_len, trailing_text|None, [(vislen, [groups1], [groups2]|None)]) or a str saying what is wrong."""
    vis = ESC_RE.sub("", raw)
    if "\x1b" in vis:
        return "stray escape character"
    if not vis.endswith("\n"):
        return "no final newline"
    lines = vis[:-1].split("\n")
    if len(lines) < 2:
        return "too few lines"
    if array:
        m = re.match(r"^<(\w+) (?:fmt|dtype)='([^']*)', length=(\d+), itemsize=\d+ bits, total data size=\d+ bytes> \[$", lines[0])
    else:
        m = re.match(r"^<(\w+), fmt='([^']*)', length=(\d+) bits> \[$", lines[0])
    if not m:
        return "bad header %r" % lines[0]
    foot = lines[-1]
    if foot == "]":
        trailing = None
    elif foot.startswith("] + trailing_bits = "):
        trailing = foot[len("] + trailing_bits = "):]
    else:
        return "bad footer %r" % foot
    out = []
    for ln in lines[1:-1]:
        body = ln
        if show_offset:
            # (Array.pp passes lsb0=False for the offset separator, so under lsb0 its offset column reads ': n' on the right)
            mm = (re.match(r"^(.*): (\d+) *$" if array else r"^(.*) :(\d+) *$", ln, re.S) if lsb0
                  else re.match(r"^( *\d+): (.*)$", ln, re.S))
            if not mm:
                return "no offset in %r" % ln
            body = mm.group(1) if lsb0 else mm.group(2)
        cols = body.split(" : ")
        if len(cols) != (2 if two else 1):
            return "expected %d columns in %r" % (2 if two else 1, ln)
        gl = []
        for col, c in zip(cols, cpgs):
            if grouped:
                gs = _split_groups(col, c, sep, lsb0)
            else:
                g = col.strip(" ")
                gs = [g] if g and " " not in g else None
            if gs is None or any(not re.fullmatch(r"[0-9a-f]+", g) for g in gs):
                return "cannot split %r into groups" % col
            gl.append(gs)
        out.append((len(ln), gl[0], gl[1] if two else None))
    return m.group(1), int(m.group(3)), trailing, out


def _pp_shape(f):
    """Reference reading of the format arguments: (fmt1, n1, fmt2|None, n2, explicit group size|None, token_error)."""
    (a, n1) = parse_tok(f[4])
    b, n2 = (None, None) if f[5] == "-" else parse_tok(f[5])
    tok_err = (n1 is not None and n1 % BPC[a] != 0) or (b is not None and n2 is not None and n2 % BPC[b] != 0) or \
              (n1 is not None and n2 is not None and n1 != n2)
    n = n1 if n1 is not None else n2
    return a, n1, b, n2, n, tok_err


DEFAULT_SINGLE = {"bin": 8, "hex": 8, "oct": 12}            # documented in the docstring of Bits.pp


def default_pair(a, b):
    """Group size of two formats given without a length (needed to cut a separator-less column into groups):
    twice the product of the bits per character, halved when that reaches 24."""
    g = 2 * BPC[a] * BPC[b]
    return g // 2 if g >= 24 else g


def _app_shape(f):
    """Reference reading of Array.pp's format: (fmt1, n1, fmt2|None, n2, group size, token_error).
    fmt None ('-') is the Array's own dtype; the group size is the first given length, else the dtype's item size."""
    kind, size = _dtype_size(f[2])
    if f[4] == "-":
        a, n1, b, n2 = kind, size, None, None
    else:
        a, n1 = parse_tok(f[4])
        b, n2 = (None, None) if f[5] == "-" else parse_tok(f[5])
    n = n1 if n1 is not None else (n2 if n2 is not None else size)
    tok_err = (n1 is not None and n1 % BPC[a] != 0) or (b is not None and n2 is not None and n2 % BPC[b] != 0) or \
              (n1 is not None and n2 is not None and n1 != n2) or n == 0
    return a, n1, b, n2, n, tok_err


def _pp_result(raw, exc, extra, a, b, n, lsb0, so, sep, nc, array):
    """Canonical output of a pp / Array.pp call from what it wrote (raw) or raised (exc)."""
    extra["raw_len"] = len(raw)
    if exc is not None:
        extra["exc"] = exc
        return "err" if exc in DOCUMENTED else "err " + exc
    extra["esc"] = "\x1b" in raw
    # the group size is needed to cut a separator-less column into groups: explicit, the documented default
    # of a single format, or the rule for two formats without a length
    grouped = n != 0
    g = n if n else (DEFAULT_SINGLE[a] if b is None else default_pair(a, b))
    if not grouped:
        g = 0
    cp = [g // BPC[a]] + ([g // BPC[b]] if b else [])
    res = parse_pp(raw, b is not None, lsb0, so, sep, cp, grouped, array)
    if not isinstance(res, str) and grouped and res[3]:
        allg = [x for (_l, g1, _g2) in res[3] for x in g1]
        if not all(len(x) == cp[0] for x in allg[:-1]):     # every group but the last listed is full
            res = "no consistent group size"
    if isinstance(res, str):
        extra["raw"] = raw[:400]
        return "unparsable " + res
    extra["group_bits"] = g
    hcls, hlen, trailing, lines = res
    extra["header"] = (hcls, hlen)
    extra["lines"] = lines
    extra["trailing"] = trailing
    items = ["T=" + (trailing if trailing is not None else "-"),
             "E=" + (("1" if extra["esc"] else "0") if nc else "-")]
    for (ln, g1, g2) in lines:
        items.append("%d:%s%s" % (ln, ",".join(g1), "" if g2 is None else "/" + ",".join(g2)))
    return "ok " + " ".join(items)


FILE_NAMES = {"n": "data.bin", "q": "it's.bin", "d": 'say "x".bin', "b": "back\\slash.bin", "s": "two words.bin",
              "m": "a 'b' \"c\" \\d.bin"}


def _reprf_fields(f):
    """(name code, length|None, offset) of a reprf line; the short form is the whole file under a plain name."""
    code = f[6] if len(f) > 6 else "n"
    length = None if len(f) <= 7 or f[7] == "-" else int(f[7])
    offset = int(f[8]) if len(f) > 8 else 0
    return code, length, offset


def _reprf_window(f):
    bits = unwire(f[3])
    _c, length, offset = _reprf_fields(f)
    return bits[offset:] if length is None else bits[offset:offset + length]


def model_line(line):
    """The model driver reads Array.pp cases with the dtype resolved (item size; fmt None = the dtype's token);
    the value-printing Array.pp cases have no model (constant answer)."""
    f = line.split(SEP)
    if f[1] == "app":
        kind, size = _dtype_size(f[2])
        t1 = "%s:%d" % (kind, size) if f[4] == "-" else f[4]
        return SEP.join(["C19", "app", str(size), f[3], t1, f[5]] + f[6:])
    if f[1] == "appx":
        return SEP.join(["C19", "arrx", f[2], f[3]])
    if f[1] == "reprf" and len(f) > 6:
        # the model sees the bits the object holds; with an offset the library reads into memory (no file name kept)
        _c, _l, offset = _reprf_fields(f)
        w = wire(_reprf_window(f))
        if offset:
            return SEP.join(["C19", "repr", f[2], w, f[5], "0"])
        return SEP.join(["C19", "reprf", f[2], w, f[4], f[5]])
    return line


# ---------------------------------------------------------------------------------------------- execute
def execute(line):
    f = line.split(SEP)
    op, extra = f[1], {}
    if op == "str":
        cls, bits, lsb0 = f[2], unwire(f[3]), f[4] == "1"
        s = _mk(cls, bits)
        with options(**_optvals(line, lsb0=lsb0)):
            before = _snap()
            out = guarded(lambda: str(s), _enc)
            extra["opts"] = (before, _snap())
            extra["again"] = guarded(lambda: str(s), _enc)
            extra["alt"] = guarded(lambda: str(_alt(cls, bits)), _enc)
            extra["reparsed"] = guarded(lambda: Bits(str(s)), wire) if len(bits) <= 1000 else None
            extra["eq"] = guarded(lambda: Bits(str(s)) == s) if len(bits) <= 1000 else None
        extra["after"] = wire(s)
    elif op == "repr":
        cls, bits, pos, lsb0 = f[2], unwire(f[3]), int(f[4]), f[5] == "1"
        s = _mk(cls, bits, pos)
        with options(**_optvals(line, lsb0=lsb0)):
            before = _snap()
            out = guarded(lambda: repr(s), _enc)
            extra["opts"] = (before, _snap())

            def ev():
                o = eval(repr(s), dict(_ns()))
                return "%s %s %s %s" % (type(o).__name__, wire(o), getattr(o, "pos", "-"), o == s)
            extra["eval"] = guarded(ev)
        extra["after"] = wire(s)
        extra["pos_after"] = getattr(s, "pos", None)
    elif op == "reprf":
        cls, bits, mut, pos = f[2], unwire(f[3]), f[4], int(f[5])
        d = tempfile.mkdtemp(prefix="verif-C19-")
        try:
            code, length, offset = _reprf_fields(f)
            path = os.path.join(d, FILE_NAMES[code])
            with open(path, "wb") as fh:
                fh.write(int(bits, 2).to_bytes(len(bits) // 8, "big") if bits else b"")
            kw = {}
            if length is not None:
                kw["length"] = length
            if offset:
                kw["offset"] = offset
            s = CLASSES[cls](filename=path, **kw)
            if mut == "invert0":
                s.invert(0)
            elif mut == "append1":
                s.append("0b1")
            elif mut == "del8":
                del s[:8]
            elif mut == "overwrite8":
                s.overwrite("0xff", 0)
            if cls in ("ConstBitStream", "BitStream"):
                s.pos = pos
            cur = s.bin
            with options(**_optvals(line, lsb0=False)):
                before = _snap()
                out = guarded(lambda: repr(s).replace(repr(path), "'F'"), _enc)
                extra["opts"] = (before, _snap())

            def ev():
                o = eval(repr(s), dict(_ns()))
                return "%s %s %s %s" % (type(o).__name__, wire(o), getattr(o, "pos", "-"), o == s)
            extra["eval"] = guarded(ev)
            extra["cur"] = wire(cur)
            extra["after"] = wire(s)
            extra["pos_after"] = getattr(s, "pos", None)
            del s
        finally:
            shutil.rmtree(d, ignore_errors=True)
    elif op == "parse":
        text = _dec(f[2])
        clear_caches()
        try:
            out = "ok " + wire(Bits(text))
        except RecursionError:
            out = "err Internal:RecursionError"
        except Exception as e:                              # noqa: BLE001
            out = "err" if err_name(e) in DOCUMENTED else "err " + err_name(e)
    elif op == "pp":
        cls, bits = f[2], unwire(f[3])
        width, sep, so, lsb0, nc = int(f[6]), SEPS[f[7]], f[8] == "1", f[9] == "1", f[10] == "1"
        fmt = f[4] if f[5] == "-" else f[4] + ", " + f[5]
        a, n1, b, n2, n, _ = _pp_shape(f)
        pos = (len(bits) // 2) if cls in ("ConstBitStream", "BitStream") else 0
        s = _mk(cls, bits, pos)
        st = io.StringIO()
        with options(**_optvals(line, lsb0=lsb0, nc=nc)):
            before = _snap()
            try:
                s.pp(fmt, width=width, sep=sep, show_offset=so, stream=st)
                raw, exc = st.getvalue(), None
            except RecursionError:
                raw, exc = st.getvalue(), "Internal:RecursionError"
            except Exception as e:                          # noqa: BLE001
                raw, exc = st.getvalue(), err_name(e)
            extra["opts"] = (before, _snap())
        extra["after"], extra["pos_after"], extra["pos"] = wire(s), getattr(s, "pos", None), pos
        out = _pp_result(raw, exc, extra, a, b, n, lsb0, so, sep, nc, False)
    elif op == "app":
        dt, bits, t1, t2 = f[2], unwire(f[3]), f[4], f[5]
        width, so, lsb0, nc = int(f[6]), f[7] == "1", f[8] == "1", f[9] == "1"
        fmt = None if t1 == "-" else (t1 if t2 == "-" else t1 + ", " + t2)
        a, n1, b, n2, n, _ = _app_shape(f)
        arr = _array(dt, bits)
        st, st2 = io.StringIO(), io.StringIO()
        with options(**_optvals(line, lsb0=lsb0, nc=nc)):
            before = _snap()
            try:
                arr.pp(fmt, width=width, show_offset=so, stream=st)
                raw, exc = st.getvalue(), None
            except RecursionError:
                raw, exc = st.getvalue(), "Internal:RecursionError"
            except Exception as e:                          # noqa: BLE001
                raw, exc = st.getvalue(), err_name(e)
            extra["opts"] = (before, _snap())
            # a Bits.pp right after the Array.pp must still honour no_color
            guarded(lambda: Bits(bin=bits or "0").pp("bin", stream=st2))
            extra["esc_after"] = "\x1b" in st2.getvalue()
            extra["opts2"] = _snap()
        extra["after"], extra["pos_after"], extra["pos"] = wire(arr.data), None, None
        out = _pp_result(raw, exc, extra, a, b, n, lsb0, so, " ", nc, True)
    elif op == "appx":
        dt, bits = f[2], unwire(f[3])
        width, so, lsb0, nc = int(f[4]), f[5] == "1", f[6] == "1", f[7] == "1"
        arr = _array(dt, bits)
        st, st2 = io.StringIO(), io.StringIO()
        with options(**_optvals(line, lsb0=lsb0, nc=nc)):
            before = _snap()
            res = guarded(lambda: arr.pp(width=width, show_offset=so, stream=st), lambda _v: "")
            extra["opts"] = (before, _snap())
            guarded(lambda: Bits(bin=bits or "0").pp("bin", stream=st2))
            extra["esc_after"] = "\x1b" in st2.getvalue()
            extra["opts2"] = _snap()
        raw = st.getvalue()
        extra["esc"] = "\x1b" in raw
        extra["after"] = wire(arr.data)
        vis = ESC_RE.sub("", raw)
        body = vis.split("\n")[1:-2] if vis.endswith("\n") else None
        vals, foot = [], (vis.split("\n")[-2] if vis.endswith("\n") else "")
        if body is None or not res.startswith("ok"):
            out = res if not res.startswith("ok") else "unparsable no final newline"
        else:
            okp = True
            for ln in body:
                if so:
                    mm = re.match(r"^(.*): (\d+) *$", ln) if lsb0 else re.match(r"^( *\d+): (.*)$", ln)
                    if not mm:
                        okp = False
                        break
                    ln = mm.group(1) if lsb0 else mm.group(2)
                vals.append(ln.split())
            extra["values"] = vals
            extra["foot"] = foot
            out = "ok roundtrip" if okp else "unparsable offset"
    elif op == "arr":
        kind, n, bits = f[2], int(f[3]), unwire(f[4])
        dt = kind if kind == "bool" else "%s%d" % (kind, n)
        a = _array(dt, bits)
        with options(**_optvals(line, lsb0=False, plain=True)):
            before = _snap()
            out = guarded(lambda: repr(a), _enc)
            extra["opts"] = (before, _snap())

        def ev():
            o = eval(repr(a), dict(_ns()))
            return "%s %s %s %s" % (type(o).__name__, str(o.dtype), wire(o.data), a.equals(o))
        extra["eval"] = guarded(ev)
        extra["dtype"] = str(a.dtype)
        extra["after"] = wire(a.data)
    elif op == "arrx":
        dt, bits = f[2], unwire(f[3])
        a = bitstring.Array(dt)
        a.data = BitArray(bin=bits) if bits else BitArray()
        vals = a.tolist()
        extra["finite"] = all((not isinstance(v, float)) or math.isfinite(v) for v in vals)
        with options(**_optvals(line, lsb0=False, plain=True)):
            before = _snap()
            guarded(lambda: repr(a))
            extra["opts"] = (before, _snap())

        def ev():
            o = eval(repr(a), dict(_ns()))
            return "%s %s %s %s" % (type(o).__name__, str(o.dtype), wire(o.data), a.equals(o))
        extra["eval"] = guarded(ev)
        extra["dtype"] = str(a.dtype)
        out = "ok roundtrip" if extra["eval"].startswith("ok ") or not extra["finite"] else extra["eval"]
    else:
        raise ValueError(line)
    return out, extra


# ---------------------------------------------------------------------------------------------- oracle
def _truncated_ok(text, bits):
    """A truncated form must end in '...' and the digits shown must be a (non-empty) prefix of the value."""
    if not text.endswith("..."):
        return "a value of %d bits is not marked with '...'" % len(bits)
    shown = ref_parse_literals(text[:-3])
    if shown is None or shown == "" or not bits.startswith(shown):
        return "the digits before '...' are not the leading bits of the value"
    return None


def oracle(line, out, extra):
    f = line.split(SEP)
    op = f[1]
    msg = _opts_msg(extra)
    if msg:
        return msg
    if op == "app":
        return _oracle_pp(f, out, extra, array=True)
    if op == "appx":
        return _oracle_appx(f, out, extra)
    if op == "str":
        bits = unwire(f[3])
        if not out.startswith("ok ["):
            return "str() did not succeed: " + out
        text = _dec(out[3:])
        if extra["after"] != f[3]:
            return "str() changed the value"
        if extra["again"] != out or extra["alt"] != out:
            return "str() of the same value differs between evaluations/routes: %s / %s / %s" % (out, extra["again"], extra["alt"])
        if len(bits) <= 1000:
            got = ref_parse_literals(text)
            if got != bits:
                return "str(s) = %r does not describe the %d-bit value" % (text[:60], len(bits))
            if extra["reparsed"] != "ok " + wire(bits) or extra["eq"] != "ok True":
                return "Bits(str(s)) == s fails: %s / %s" % (extra["reparsed"], extra["eq"])
            return None
        return _truncated_ok(text, bits)
    if op == "repr":
        cls, bits, pos = f[2], unwire(f[3]), int(f[4])
        if not out.startswith("ok ["):
            return "repr() did not succeed: " + out
        text = _dec(out[3:])
        if extra["after"] != f[3] or (extra["pos_after"] is not None and extra["pos_after"] != pos):
            return "repr() changed the object"
        if len(bits) <= 1000:
            want = "ok %s %s %s True" % (cls, wire(bits), pos if cls in ("ConstBitStream", "BitStream") else "-")
            if extra["eval"] != want:
                return "eval(repr(s)) gives %s, expected %s" % (extra["eval"], want)
            return None
        m = re.match(r"^(\w+)\('([^']*)'(?:, pos=(\d+))?\)  # length=(\d+)$", text)
        if not m:
            return "truncated repr has not the form Class('…...')  # length=N: %r" % text[-60:]
        if m.group(1) != cls or int(m.group(4)) != len(bits) or int(m.group(3) or 0) != (pos if cls in ("ConstBitStream", "BitStream") else 0):
            return "truncated repr names class/length/pos wrongly: %r" % text[-60:]
        return _truncated_ok(m.group(2), bits)
    if op == "reprf":
        cls, bits, mut, pos = f[2], unwire(f[3]), f[4], int(f[5])
        if not out.startswith("ok ["):
            return "repr() did not succeed: " + out
        bits = _reprf_window(f)
        cur = {"none": bits, "invert0": ("1" if bits[:1] == "0" else "0") + bits[1:] if bits else "",
               "append1": bits + "1", "del8": bits[8:], "overwrite8": "1" * min(8, len(bits)) + bits[8:]}[mut]
        if extra["cur"] != wire(cur):
            return "harness: unexpected value after the mutation"
        if extra["after"] != wire(cur) or (extra["pos_after"] is not None and extra["pos_after"] != pos):
            return "repr() changed the object"
        want = "ok %s %s %s True" % (cls, wire(cur), pos if cls in ("ConstBitStream", "BitStream") else "-")
        if len(cur) > 1000 and "..." in out:
            return None if ("length=%d" % len(cur)) in out else "truncated repr without the true length"
        if extra["eval"] != want:
            return "eval(repr(s)) gives %s, expected %s" % (extra["eval"][:100], want[:100])
        return None
    if op == "parse":
        text = _dec(f[2])
        # reference meaning of the sub-language the generator produces (see gen): whitespace anywhere, ',' separators,
        # literals 0x/0o/0b (any case), '_' inside the digits
        t = "".join(text.split())
        bits, bad = "", False
        for tok in t.split(","):
            if tok == "":
                continue
            m = re.match(r"^0([xXoObB])(.+)$", tok)
            if not m:
                bad = True
                break
            base = m.group(1).lower()
            v = m.group(2).lower().replace("_", "").replace("0" + base, "")
            k, alpha = {"x": (4, "0123456789abcdef"), "o": (3, "01234567"), "b": (1, "01")}[base]
            if any(c not in alpha for c in v):
                bad = True
                break
            bits += "".join(format(alpha.index(c), "0%db" % k) for c in v)
        exp = "err" if bad else "ok " + wire(bits)
        return None if out == exp else "Bits(%r): expected %s, got %s" % (text, exp, out)
    if op == "pp":
        return _oracle_pp(f, out, extra)
    if op in ("arr", "arrx"):
        if op == "arrx" and not extra.get("finite", True):
            return None
        bits = unwire(f[4] if op == "arr" else f[3])
        want = "ok Array %s %s True" % (extra["dtype"], wire(bits))
        if extra["eval"] != want:
            return "eval(repr(a)) gives %s, expected %s" % (extra["eval"][:120], want[:120])
        if op == "arr" and extra["after"] != f[4]:
            return "repr() changed the Array"
        return None
    return "unknown op"


def _oracle_appx(f, out, extra):
    dt, bits = f[2], unwire(f[3])
    width, so, lsb0, nc = int(f[4]), f[5] == "1", f[6] == "1", f[7] == "1"
    kind, size = _dtype_size(dt)
    if extra["after"] != f[3]:
        return "Array.pp() changed the Array"
    if out != "ok roundtrip":
        return "Array.pp() of a %s Array failed or cannot be read back: %s" % (dt, out)
    if nc and (extra["esc"] or extra["esc_after"]):
        return "escape sequence in the output of %s although options.no_color is set" % ("Array.pp" if extra["esc"] else "the Bits.pp after Array.pp")
    if extra["opts2"] != extra["opts"][0]:
        return "bitstring.options changed after Array.pp + Bits.pp: %s -> %s" % (extra["opts"][0], extra["opts2"])
    t = len(bits) % size
    # (an Array's data is a BitArray: under lsb0 its slices count from the right, so the trailing bits are the leading ones)
    data, trail = (bits[t:], bits[:t]) if lsb0 else (bits[:len(bits) - t], bits[len(bits) - t:])
    want = []
    for c in ref_chunks(data, size, lsb0):
        v = int(c, 2)
        want.append(str(v - (1 << size) if kind == "int" and c[0] == "1" else v))
    got = [v for ln in extra["values"] for v in ln]
    if got != want:
        return "values printed %s… are not the items of the data %s…" % (got[:6], want[:6])
    foot = extra["foot"]
    if t:
        if not foot.startswith("] + trailing_bits = ") or ref_parse_literals(foot[len("] + trailing_bits = "):]) != trail:
            return "trailing bits %s not reported faithfully: %r" % (trail, foot)
    elif foot != "]":
        return "trailing bits reported though there are none"
    return None


def _oracle_pp(f, out, extra, array=False):
    bits = unwire(f[3])
    if array:
        width, sep, so, lsb0, nc = int(f[6]), " ", f[7] == "1", f[8] == "1", f[9] == "1"
        a, n1, b, n2, n, tok_err = _app_shape(f)
        if nc and extra.get("esc_after"):
            return "escape sequence in the output of the Bits.pp after Array.pp although options.no_color is set"
        if extra["opts2"] != extra["opts"][0]:
            return "bitstring.options changed after Array.pp + Bits.pp: %s -> %s" % (extra["opts"][0], extra["opts2"])
    else:
        width, sep, so, lsb0, nc = int(f[6]), SEPS[f[7]], f[8] == "1", f[9] == "1", f[10] == "1"
        a, n1, b, n2, n, tok_err = _pp_shape(f)
    fmts = [a] + ([b] if b else [])
    if extra["after"] != f[3] or extra["pos_after"] not in (None, extra["pos"]):
        return "pp() changed the object"
    # ---- the data and the trailing bits
    t = len(bits) % n if n else 0
    if lsb0:
        data, trail = bits[t:], bits[:t]
    else:
        data, trail = bits[:len(bits) - t], bits[len(bits) - t:]
    # ---- may / must pp refuse?
    unrepresentable = any(len(data) % BPC[x] for x in fmts)
    group_unprintable = bool(n) and any(n % BPC[x] for x in fmts)
    if out.startswith("err"):
        if out != "err":
            return "pp raised an undocumented exception: " + out
        if extra["raw_len"] and not array:                  # (Array.pp writes its header line before laying out the data)
            return "pp raised after writing to the stream"
        if tok_err or unrepresentable or group_unprintable:
            return None
        return "pp refused a value its formats can print"
    if out.startswith("unparsable"):
        return "pp output cannot be read back: %s" % out
    if tok_err:
        return "pp accepted an invalid format"
    if (unrepresentable or group_unprintable) and data:
        return "pp printed a value its format cannot represent"
    lines, trailing = extra["lines"], extra["trailing"]
    if nc and extra["esc"]:
        return "escape sequence in the output although options.no_color is set"
    # ---- trailing bits
    if t:
        if trailing is None:
            return "%d trailing bits not reported" % t
        if ref_parse_literals(trailing) != trail:
            return "reported trailing bits %r are not the %s" % (trailing, trail)
    elif trailing is not None:
        return "trailing bits reported though there are none"
    # ---- digits, groups
    cols = [[g for (_l, g1, _g2) in lines for g in g1]] + ([[g for (_l, _g1, g2) in lines for g in g2]] if b else [])
    if any((g2 is not None and len(g1) != len(g2)) for (_l, g1, g2) in lines):
        return "the two columns of a line hold different numbers of groups"
    if any(len(g1) == 0 for (_l, g1, _g2) in lines):
        return "empty line"
    if not data:
        return None if not lines else "lines printed for an empty value"
    if n != 0:
        g = n if n else extra.get("group_bits")
        if not g:
            return "no group size"
        if any(g % BPC[x] for x in fmts):
            return "group size %d is not a whole number of digits" % g
        for x, col in zip(fmts, cols):
            want = [ref_digits(x, c) for c in ref_chunks(data, g, lsb0)]
            if col != want:
                return "%s column: groups printed %s… are not the groups of the data %s…" % (x, col[:6], want[:6])
        for (ln, g1, _g2) in lines:
            if ln > width and len(g1) != 1:
                return "line of %d characters with %d groups exceeds width %d" % (ln, len(g1), width)
    else:
        for x, col in zip(fmts, cols):
            seq = col[::-1] if lsb0 else col
            if "".join(seq) != ref_digits(x, data):
                return "%s column: digits printed are not the digits of the data" % x
        for (ln, g1, g2) in lines:
            nb = len(g1[0]) * BPC[a]
            if g2 is not None and len(g2[0]) * BPC[b] != nb:
                return "the two columns of a line show different numbers of bits"
            unit = BPC[a] if b is None else 24
            if ln > width and nb > unit:
                return "line of %d characters (%d bits) exceeds width %d" % (ln, nb, width)
    return None


# ---------------------------------------------------------------------------------------------- regions / misc
REGIONS = {}                                                # no known finding: every oracle flag is a violation


def nontrivial(line):
    f = line.split(SEP)
    return f[1] == "parse" or (len(f) > 3 and f[3] != "-")


# ---------------------------------------------------------------------------------------------- generators
def _pat(n):
    base = "0001001000110100010101100111100010011010101111001101111011110110"     # 0x123456789abcdef6
    return (base * (n // len(base) + 1))[:n]


def _tok(rng, name, n):
    if n is None:
        return name
    return name + (":" if rng.random() < 0.5 else "") + str(n)


GROUPS = {"bin": [None, 0, 1, 2, 3, 4, 5, 6, 7, 8, 12, 16, 24, 32, 40, 64],
          "oct": [None, 0, 3, 6, 9, 12, 15, 24, 33, 48],
          "hex": [None, 0, 4, 8, 12, 16, 20, 32, 36, 64]}
BAD_GROUPS = {"oct": [1, 4, 8, 16, 32], "hex": [1, 3, 6, 9, 15]}


def _pp_line(rng, cls, bits, t1, t2, width, sep, so, lsb0, nc):
    return SEP.join(["C19", "pp", cls, wire(bits), t1, t2 or "-", str(width), sep, str(int(so)), str(int(lsb0)), str(int(nc))])


def _rand_fmt(rng, n_bits):
    """A format (one or two tokens) that mostly can print a value of n_bits."""
    names = ["bin", "oct", "hex"]
    a = rng.choice(names)
    two = rng.random() < 0.5
    b = rng.choice(names) if two else None
    r = rng.random()
    if r < 0.06:                                            # invalid on purpose
        bad = [x for x in ([a, b] if b else [a]) if x in BAD_GROUPS]
        if bad:
            x = rng.choice(bad)
            n = rng.choice(BAD_GROUPS[x])
            return (_tok(rng, a, n if x == a else None), (_tok(rng, b, n if x == b and x != a else None) if b else None))
    common = [g for g in GROUPS[a] if b is None or g in GROUPS[b] or g is None]
    if b:
        common = [g for g in GROUPS["bin"] + [36, 48, 60, 72, 96] if g is None or (g % BPC[a] == 0 and g % BPC[b] == 0)]
    n = rng.choice(common)
    if b is None:
        return _tok(rng, a, n), None
    mode = rng.random()
    if n is None:
        return a, b
    if mode < 0.6:
        return _tok(rng, a, n), _tok(rng, b, n)
    if mode < 0.8:
        return _tok(rng, a, n), b
    if mode < 0.95:
        return a, _tok(rng, b, n)
    return _tok(rng, a, n), _tok(rng, b, rng.choice([g for g in common if g is not None]))       # maybe differing


def _fit_len(rng, n, t1, t2):
    """Nudge a length so that the formats can print it (most of the time)."""
    if rng.random() < 0.12:
        return n
    ks = [BPC[parse_tok(t)[0]] for t in (t1, t2) if t]
    l = 12 if (3 in ks and 4 in ks) else max(ks)
    g = [parse_tok(t)[1] for t in (t1, t2) if t]
    g = [x for x in g if x]
    if g:                                                   # explicit groups: any length is fine (trailing bits)
        return n
    return n - n % l


def gen(rng, tier):
    big = tier != "quick"
    # ------------------------------------------------------------------ str / repr
    lengths = list(range(0, 71)) + list(range(990, 1011)) + [1011, 1012, 1023, 1024, 1025, 1999, 2000, 2001, 2003, 4096, 4099]
    if big:
        lengths += list(range(71, 200)) + list(range(960, 990)) + list(range(1011, 1060)) + [8191, 8192, 8193, 10007]
    for n in lengths:
        contents = [_pat(n), rand_bits(rng, n)] + ([rand_bits(rng, n) for _ in range(3)] if big and n else [])
        if n == 0:
            contents = [""]
        e = n % 4
        if e and n >= 4:
            # every value of the 1-3 bits that do not fill a hex digit (leading zeros in the tail matter)
            for tail in range(2 ** e):
                bits = rand_bits(rng, n - e) + format(tail, "0%db" % e)
                yield SEP.join(["C19", "str", "Bits", wire(bits), "0"])
                yield SEP.join(["C19", "repr", rng.choice(CLASS_NAMES), wire(bits), "0", str(tail % 2)])
        for ci, bits in enumerate(contents):
            for cls in CLASS_NAMES:
                if ci and cls not in ("Bits", rng.choice(CLASS_NAMES)):
                    continue
                yield SEP.join(["C19", "str", cls, wire(bits), "0"])
                if ci == 0 or rng.random() < 0.3:
                    yield SEP.join(["C19", "str", cls, wire(bits), "1"])
                poss = [0] if cls in ("Bits", "BitArray") else sorted({0, 1 if n else 0, n // 2, n, max(n - 1, 0), min(n, 10), min(n, 1000)})
                for p in poss:
                    yield SEP.join(["C19", "repr", cls, wire(bits), str(p), "0"])
                    if rng.random() < 0.25:
                        yield SEP.join(["C19", "repr", cls, wire(bits), str(p), "1"])
    # ------------------------------------------------------------------ repr of file-backed objects
    for nbytes in [0, 1, 2, 3, 4, 5, 8, 16, 125, 126, 200] + ([1000, 4096] if big else []):
        bits = rand_bits(rng, nbytes * 8)
        for cls in CLASS_NAMES:
            poss = [0] if cls in ("Bits", "BitArray") else sorted({0, min(nbytes * 8, 1), nbytes * 4})
            for p in poss:
                yield SEP.join(["C19", "reprf", cls, wire(bits), "none", str(p)])
            if cls in MUTABLE and nbytes:
                for mut in ("invert0", "append1", "del8", "overwrite8"):
                    yield SEP.join(["C19", "reprf", cls, wire(bits), mut, "0"])
    # file names that need quoting (single quote, double quote, backslash, blank), with and without length / offset
    for code in ("q", "d", "b", "s", "m", "n"):
        for cls in CLASS_NAMES:
            for (nbytes, length, offset) in ((4, None, 0), (4, 20, 0), (6, None, 8), (6, 17, 3), (130, None, 0)):
                bits = rand_bits(rng, nbytes * 8)
                p = 0 if cls in ("Bits", "BitArray") else rng.choice([0, 1, 5])
                yield SEP.join(["C19", "reprf", cls, wire(bits), "none", str(p), code, "-" if length is None else str(length), str(offset)])
    # ------------------------------------------------------------------ literal parser
    hexd, octd, bind = "0123456789abcdefABCDEF", "01234567", "01"

    def lit():
        base = rng.choice("xob")
        alpha = {"x": hexd, "o": octd, "b": bind}[base]
        k = rng.choice([0, 1, 1, 2, 3, 4, 7, 8, 9, 16, 33])
        body = "".join(rng.choice(alpha) for _ in range(k))
        if rng.random() < 0.15 and body:
            i = rng.randrange(len(body) + 1)
            body = body[:i] + "_" + body[i:]
        if rng.random() < 0.05:
            i = rng.randrange(len(body) + 1)
            body = body[:i] + "0" + base + body[i:]
        p = "0" + (base.upper() if rng.random() < 0.15 else base)
        return p + body

    def ws():
        return rng.choice(["", "", "", " ", "  ", "\t", "\n", " \r", "\x0b", "\x0c"])

    for _ in range(6000 if big else 1500):
        k = rng.choice([0, 1, 1, 2, 2, 3, 5])
        toks = [lit() for _ in range(k)]
        if rng.random() < 0.12:                             # malformed token
            toks.insert(rng.randrange(len(toks) + 1), rng.choice(
                ["0x", "0b", "0o", "0xg", "0b2", "0o8", "0b1012", "1x0", "x0", "0", "00", "0z1", "0xx", "0b.1", "0x1.", "0x1...", "0b-1", "ff", "101"]))
        if rng.random() < 0.1:
            toks.insert(rng.randrange(len(toks) + 1), "")
        yield SEP.join(["C19", "parse", _enc((ws() + "," + ws()).join(ws() + t + ws() for t in toks))])
    # ------------------------------------------------------------------ pp
    seps = ["e", "s", "u", "c"]
    more_seps = ["d", "t", "x"]
    # (a) every width 0..200 for fixed shapes whose data fill the widest line
    sweeps = [("bin", None), ("hex", None), ("oct", None), ("bin:8", None), ("hex:8", None), ("oct:12", None),
              ("bin", "hex"), ("hex", "bin"), ("bin", "oct"), ("oct", "hex"), ("hex", "oct"), ("oct", "bin"),
              ("bin:0", None), ("hex:0", None), ("oct:0", None), ("bin:0", "hex:0"), ("oct:0", "hex:0"), ("bin:0", "oct:0"),
              ("hex:0", "oct"), ("bin:12", "oct:12"), ("hex:32", None), ("bin:1", None), ("bin:3", "oct:3"), ("hex:4", "bin:4"),
              ("bin:16", "hex:16"), ("oct:3", None), ("hex:16", "hex"), ("hex", "hex"), ("bin:24", "oct")]
    for i, (t1, t2) in enumerate(sweeps):
        for w in range(0, 201):
            nbits = rng.choice([264, 264, 1008, 96, 600]) if (big or w % 3 == i % 3 or i < 12) else None
            if nbits is None:
                continue
            bits = rand_bits(rng, nbits + (rng.choice([0, 1, 5, 7]) if ":" in t1 and not t1.endswith(":0") else 0))
            yield _pp_line(rng, "Bits", bits, t1, t2, w, rng.choice(seps), rng.random() < 0.6, rng.random() < 0.3, rng.random() < 0.7)
    # (b) every length 0..70 (so every residue mod 12) for every shape
    shapes = []
    for a in ("bin", "oct", "hex"):
        for n in GROUPS[a]:
            shapes.append((a if n is None else "%s:%d" % (a, n), None))
    for a in ("bin", "oct", "hex"):
        for b in ("bin", "oct", "hex"):
            shapes.append((a, b))
            shapes.append((a + ":0", b + ":0"))
            shapes.append((a + "0", b))
            shapes.append((a, b + ":0"))
            for n in (12, 24):
                shapes.append(("%s:%d" % (a, n), "%s%d" % (b, n)))
                shapes.append((a, "%s:%d" % (b, n)))
                shapes.append(("%s:%d" % (a, n), b))
            if a == "bin":
                for n in (1, 2, 5, 7, 8):
                    shapes.append(("bin:%d" % n, b))
                    shapes.append((b, "bin:%d" % n))
    shapes += [("hex:3", None), ("oct:4", None), ("hex:8", "oct:12"), ("bin:8", "hex:4"), ("oct:8", "bin:8"), ("hex:6", "oct:6")]
    for n in list(range(0, 71)) + [72, 96, 99, 100, 101, 119, 120, 121, 128, 999, 1000, 1001, 1008, 1009, 9999, 10000, 10008]:
        for (t1, t2) in shapes:
            if not big and rng.random() < (0.55 if n <= 70 else 0.8):
                continue
            bits = rand_bits(rng, n) if rng.random() < 0.7 else _pat(n)
            w = rng.choice([0, 1, 10, 20, 40, 80, 120, 200, rng.randint(0, 200), rng.randint(0, 60)])
            yield _pp_line(rng, rng.choice(CLASS_NAMES), bits, t1, t2, w, rng.choice(seps + more_seps if rng.random() < 0.2 else seps),
                           rng.random() < 0.5, rng.random() < 0.35, rng.random() < 0.6)
    # (c) random
    for _ in range(250000 if big else 14000):
        n = rng.choice([rng.randint(0, 70), rng.randint(0, 70), rng.randint(71, 300), rng.randint(985, 1015), rng.choice(BOUNDARY_LENGTHS)])
        t1, t2 = _rand_fmt(rng, n)
        n = _fit_len(rng, n, t1, t2)
        bits = rand_bits(rng, n)
        w = rng.choice([rng.randint(0, 200), rng.randint(0, 200), rng.randint(0, 40), 120, 80, rng.randint(201, 400)])
        yield _pp_line(rng, rng.choice(CLASS_NAMES), bits, t1, t2, w, rng.choice(seps + (more_seps if rng.random() < 0.15 else [])),
                       rng.random() < 0.5, rng.random() < 0.35, rng.random() < 0.6)
    # ------------------------------------------------------------------ Array.pp
    # formats whose unit is smaller than / equal to / larger than the item size of the Array's own dtype, one and two
    # formats, fmt None, with and without a length; item counts 0..7 plus trailing bits; all four (lsb0, no_color)
    dtypes = [("uint", 8), ("uint", 16), ("int", 4), ("uint", 12), ("int", 24), ("hex", 8), ("hex", 16), ("bin", 3), ("bin", 8), ("oct", 6), ("oct", 12)]
    sizes = [1, 3, 4, 6, 8, 12, 16, 24, 32, 48]

    def app_fmts(kind, size):
        out = []
        for nm in ("bin", "oct", "hex"):
            out.append((nm, "-"))                                        # unit = the dtype's item size
            for g in sizes:
                if g % BPC[nm] == 0:
                    out.append(("%s%s%d" % (nm, ":" if rng.random() < 0.5 else "", g), "-"))
        for (x, y) in (("bin", "hex"), ("hex", "bin"), ("hex", "oct"), ("oct", "bin"), ("hex", "hex"), ("bin", "bin")):
            out.append((x, y))
            for g in (4, 8, 12, 16, 24, 48):
                if g % BPC[x] == 0 and g % BPC[y] == 0:
                    out += [("%s%d" % (x, g), "%s:%d" % (y, g)), ("%s:%d" % (x, g), y), (x, "%s%d" % (y, g))]
        out += [("hex:3", "-"), ("oct:8", "-"), ("hex:0", "-"), ("bin:0", "hex"), ("bin", "hex:0"), ("hex:8", "bin:16"), ("bin:8", "oct:8")]
        if kind in BPC:
            out += [("-", "-")] * 4
        return out

    for (kind, size) in dtypes:
        dt = "%s%d" % (kind, size)
        for (t1, t2) in app_fmts(kind, size):
            for _ in range(3 if big else 1):
                items = rng.choice([0, 1, 2, 3, 4, 5, 6, 7, 9, 16])
                tr = rng.choice([0, 0, 0, 1, size // 2, size - 1])
                bits = rand_bits(rng, items * size + tr)
                w = rng.choice([0, 10, 20, 40, 60, 80, 120, rng.randint(0, 200)])
                yield SEP.join(["C19", "app", dt, wire(bits), t1, t2, str(w), str(int(rng.random() < 0.6)),
                                str(int(rng.random() < 0.4)), str(int(rng.random() < 0.5))])
    for (t1, t2) in (("hex16", "-"), ("hex:24", "-"), ("bin:16", "hex:16"), ("hex8", "-"), ("hex4", "-"), ("-", "-")):
        for dt in ("uint8", "hex8"):
            if t1 == "-" and dt == "uint8":
                continue
            for nbytes in (6, 7, 9):
                for lsb0 in (0, 1):
                    for nc in (0, 1):
                        yield SEP.join(["C19", "app", dt, wire(rand_bits(rng, nbytes * 8)), t1, t2, "60", "1", str(lsb0), str(nc)])
    for (kind, size) in (("uint", 8), ("int", 8), ("uint", 16), ("int", 4), ("uint", 1), ("int", 13), ("uint", 32), ("int", 64)):
        for items in (0, 1, 2, 5, 9, 30):
            for lsb0 in (0, 1):
                for nc in (0, 1):
                    tr = rng.choice([0, 0, 1, size - 1]) if size > 1 else 0
                    yield SEP.join(["C19", "appx", "%s%d" % (kind, size), wire(rand_bits(rng, items * size + tr)),
                                    str(rng.choice([0, 20, 60, 120])), str(int(rng.random() < 0.6)), str(lsb0), str(nc)])
    # ------------------------------------------------------------------ Array.__repr__
    for kind, ns in (("uint", [1, 2, 3, 7, 8, 13, 16, 32, 64, 100]), ("int", [1, 2, 3, 7, 8, 13, 16, 32, 64, 100]),
                     ("bin", [1, 3, 8]), ("oct", [3, 6, 12]), ("hex", [4, 8, 16]), ("bool", [1])):
        for n in ns:
            for items in ([0, 1, 2, 3, 5] + ([8, 17] if big else [])):
                for t in sorted({0, 1, n // 2, n - 1}):
                    if t >= n:
                        continue
                    bits = rand_bits(rng, items * n + t)
                    yield SEP.join(["C19", "arr", kind, str(n), wire(bits)])
    for kind, n, total in (("uint", 1004, 1001), ("int", 2000, 1500), ("uint", 1004, 1000), ("hex", 1004, 2008 + 1003), ("uint", 1200, 999)):
        yield SEP.join(["C19", "arr", kind, str(n), wire(rand_bits(rng, total))])
    # float-like dtypes: structured items (signed zeros, subnormals, extremes, values that need every significant digit);
    # the round trip is judged on the item encodings (data and dtype equal), not on float equality
    def fbits(pattern, nbits, little=False):
        b = pattern.to_bytes(nbits // 8, "little" if little else "big")
        return "".join(format(x, "08b") for x in b)

    special = {
        16: [0x0000, 0x8000, 0x0001, 0x8001, 0x03ff, 0x0400, 0x8400, 0x7bff, 0xfbff, 0x3c00, 0xbc00, 0x2e66, 0x3555, 0x3c01, 0x7bfe, 0x0200, 0x4248],
        32: [0x00000000, 0x80000000, 0x00000001, 0x80000001, 0x007fffff, 0x00800000, 0x7f7fffff, 0xff7fffff, 0x3f800000, 0x3dcccccd,
             0x3eaaaaab, 0x4b800000, 0x4b800001, 0x4b7fffff, 0x3f800001, 0x33800000, 0x40490fdb, 0x501502f9],
        64: [0x0000000000000000, 0x8000000000000000, 0x0000000000000001, 0x800fffffffffffff, 0x0010000000000000, 0x7fefffffffffffff,
             0xffefffffffffffff, 0x3fb999999999999a, 0x3fd5555555555555, 0x3ff0000000000001, 0x4340000000000000, 0x4340000000000001,
             0x400921fb54442d18, 0x3ff0000000000000],
        "bf": [0x0000, 0x8000, 0x0001, 0x8001, 0x007f, 0x0080, 0x7f7f, 0xff7f, 0x3dcd, 0x3eab, 0x3f80, 0x3f81, 0xbf80, 0x4049],
    }
    native_little = sys.byteorder == "little"
    fdts = [("float16", 16, False), ("float32", 32, False), ("float64", 64, False), ("floatbe16", 16, False), ("floatbe64", 64, False),
            ("floatle16", 16, True), ("floatle32", 32, True), ("floatle64", 64, True), ("floatne32", 32, native_little),
            ("floatne16", 16, native_little), ("bfloat", "bf", False), ("bfloatbe", "bf", False), ("bfloatle", "bf", True),
            ("bfloatne", "bf", native_little)]
    for dt, key, little in fdts:
        nb = 16 if key == "bf" else key
        pats = special[key]
        for pt in pats:                                            # one item each, so that one bad value cannot hide
            yield SEP.join(["C19", "arrx", dt, fbits(pt, nb, little)])
        yield SEP.join(["C19", "arrx", dt, "".join(fbits(pt, nb, little) for pt in pats)])
        yield SEP.join(["C19", "arrx", dt, "".join(fbits(pt, nb, little) for pt in pats[:3]) + "101"])
        for _ in range(40 if big else 6):                          # random finite items (exponent field not all ones)
            k = rng.choice([1, 2, 5])
            items = []
            while len(items) < k:
                v = rng.getrandbits(nb)
                ebits, eshift = {16: (0x1f, 10), 32: (0xff, 23), 64: (0x7ff, 52)}[nb] if key != "bf" else (0xff, 7)
                if (v >> eshift) & ebits != ebits:
                    items.append(v)
            yield SEP.join(["C19", "arrx", dt, "".join(fbits(v, nb, little) for v in items)])
    # every code of the small formats, one item per Array (non-finite codes are skipped by the oracle)
    for dt, nb in (("p3binary", 8), ("p4binary", 8), ("e4m3mxfp", 8), ("e5m2mxfp", 8), ("mxint", 8), ("e8m0mxfp", 8),
                   ("e3m2mxfp", 6), ("e2m3mxfp", 6), ("e2m1mxfp", 4)):
        codes = list(range(2 ** nb))
        if not big and nb == 8:
            codes = sorted(set([0x00, 0x80, 0x01, 0x81, 0x7f, 0xff, 0x7e, 0xfe, 0x7b, 0xfb, 0x08, 0x88, 0x38, 0x3c, 0x40] + rng.sample(codes, 48)))
        for c in codes:
            yield SEP.join(["C19", "arrx", dt, format(c, "0%db" % nb)])
        yield SEP.join(["C19", "arrx", dt, "".join(format(c, "0%db" % nb) for c in rng.sample(range(2 ** nb), 8))])
    for dt, n in (("float16", 16), ("float32", 32), ("float64", 64), ("floatle32", 32), ("floatbe64", 64), ("bfloat", 16), ("bfloatle", 16),
                  ("p3binary", 8), ("p4binary", 8), ("uintle16", 16), ("intbe24", 24), ("uintne32", 32), ("intle64", 64), ("bits5", 5), ("bits8", 8),
                  ("bytes1", 8), ("bytes2", 16), ("bytes3", 24), ("e4m3mxfp", 8), ("e5m2mxfp", 8), ("e2m1mxfp", 4), ("e3m2mxfp", 6), ("mxint", 8)):
        for _ in range(40 if big else 8):
            items = rng.choice([0, 1, 2, 3, 6])
            t = rng.choice([0, 0, 1, n - 1, n // 2])
            yield SEP.join(["C19", "arrx", dt, wire(rand_bits(rng, items * n + t))])
