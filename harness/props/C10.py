"""C10 — exponential-Golomb codes.

lines:
  C10 enc  <code> <int>            -> ok <bits> | err ValueError         (all creation routes must agree)
  C10 read <code> <bits> <pos>     -> ok <value> <newpos> | err ReadError (pos unchanged on error; peek agrees)
  C10 get  <code> <bits>           -> ok <value> | err ValueError         (whole-value property)
  C10 seq  <codes,> <values,>      -> ok <bits>                           (pack; unpack/readlist/read round trip)
"""
from harness.common import *
import itertools

FUNCTIONAL = True
LEVEL_TEXT = ("Lean theorems: the encoders transcribed from ue2bitstore/se2bitstore/uie2bitstore/sie2bitstore emit exactly the "
              "H.264 / Dirac codewords (shift loop = floor(log2)); decoders transcribed from _readue/_readse/_readuie/_readsie "
              "invert them anywhere in a stream with exact position advance, fail with ReadError on every proper prefix, "
              "and whole-value interpretation accepts exactly the codewords - for all integers and all surrounding bits. "
              "Correspondence: all integers in [-300,300] + random to 2^200, every bit string up to 9-12 bits at every position, mixed sequences.")
LEVEL_NOTE = ("Trusted: Lean kernel (+propext, Classical.choice, Quot.sound); bitarray slicing/int2ba/ba2int and Python bin() "
              "modelled by list/nat functions; transcription of the Python tied by the differential run only.")
TECHNIQUE = "Lean 4 proof (induction over codeword structure) + exhaustive small-domain correspondence"

CODES = ("ue", "se", "uie", "sie")


# ---- reference codec written from the standards' tables (independent of bitstring) --------------------
def ref_enc(code, i):
    if code in ("ue", "uie") and i < 0:
        return None
    if code == "ue":
        b = bin(i + 1)[2:]
        return "0" * (len(b) - 1) + b
    if code == "se":
        return ref_enc("ue", 2 * i - 1 if i > 0 else -2 * i)
    if code == "uie":
        b = bin(i + 1)[3:]
        return "".join("0" + d for d in b) + "1"
    if code == "sie":
        return "1" if i == 0 else ref_enc("uie", abs(i)) + ("1" if i < 0 else "0")


def ref_dec(code, bits, pos):
    """(value, newpos) or None when the code is truncated."""
    n = len(bits)
    if code in ("ue", "se"):
        p = pos
        while p < n and bits[p] == "0":
            p += 1
        k = p - pos
        if p >= n or p + k + 1 > n:
            return None
        u = int(bits[p:p + k + 1], 2) - 1
        newpos = p + k + 1
        if code == "ue":
            return u, newpos
        return ((u + 1) // 2 if u % 2 else -(u // 2)), newpos
    p, c = pos, 1
    while True:
        if p >= n:
            return None
        if bits[p] == "1":
            p += 1
            break
        if p + 1 >= n:
            return None
        c = 2 * c + int(bits[p + 1])
        p += 2
    u = c - 1
    if code == "uie":
        return u, p
    if u == 0:
        return 0, p
    if p >= n:
        return None
    return (-u if bits[p] == "1" else u), p + 1


def execute(line: str):
    # an optional trailing field "ba1" runs the case with options.bytealigned = True (decoding must not depend on it)
    if line.endswith(SEP + "ba1"):
        with options(bytealigned=True):
            return _execute(line[: -len(SEP + "ba1")])
    return _execute(line)


def _execute(line: str):
    f = line.split(SEP)
    op, extra = f[1], {}
    if op == "enc":
        code, i = f[2], int(f[3])
        out = guarded(lambda: Bits(**{code: i}), wire)
        routes = {
            "token": lambda: Bits(f"{code}={i}"),
            "pack": lambda: bitstring.pack(code, i),
            "build": lambda: bitstring.Dtype(code).build(i),
            "bitarray": lambda: BitArray(**{code: i}),
            "prop": lambda: _setprop(code, i),
        }
        extra["routes"] = {k: guarded(v, wire) for k, v in routes.items()}
        # encoding must not depend on what was done to earlier results: mutate mutable results, encode again
        def again():
            for mk_ in (lambda: BitArray(**{code: i}), lambda: BitStream(**{code: i}), lambda: _setprop(code, i),
                        lambda: bitstring.pack(code, i)):
                m = mk_()
                m.append("0b1"); m.invert()
            return Bits(**{code: i})
        extra["again"] = guarded(again, wire)
        return out, extra
    if op == "read":
        code, bits, pos = f[2], unwire(f[3]), int(f[4])
        s = ConstBitStream(bin=bits, pos=pos) if bits else ConstBitStream()
        out = guarded(lambda: (s.read(code), s.pos), lambda r: f"{r[0]} {r[1]}")
        extra["pos_after"] = s.pos
        s2 = BitStream(bin=bits, pos=pos) if bits else BitStream()
        extra["peek"] = guarded(lambda: (s2.peek(code), s2.pos), lambda r: f"{r[0]} {r[1]}")
        s3 = ConstBitStream(bin=bits, pos=pos) if bits else ConstBitStream()
        extra["readlist"] = guarded(lambda: (s3.readlist([code])[0], s3.pos), lambda r: f"{r[0]} {r[1]}")
        extra["readlist_pos_after"] = s3.pos
        return out, extra
    if op == "get":
        code, bits = f[2], unwire(f[3])
        b = mk("Bits", bits)
        out = guarded(lambda: getattr(b, code), str)
        extra["parse"] = guarded(lambda: bitstring.Dtype(code).parse(b), str)
        return out, extra
    if op == "seq":
        codes, vals = f[2].split(","), [int(v) for v in f[3].split(",")]
        fmt = ",".join(codes)
        out = guarded(lambda: bitstring.pack(fmt, *vals), wire)
        if out.startswith("ok"):
            s = bitstring.pack(fmt, *vals)
            extra["unpack"] = guarded(lambda: s.unpack(fmt), lambda v: ",".join(map(str, v)))
            s.pos = 0
            extra["readlist"] = guarded(lambda: (s.readlist(fmt), s.pos), lambda r: ",".join(map(str, r[0])) + " " + str(r[1]))
            s.pos = 0
            steps = []
            for c in codes:
                steps.append(guarded(lambda: (s.read(c), s.pos), lambda r: f"{r[0]}@{r[1]}"))
            extra["reads"] = steps
            extra["token"] = guarded(lambda: Bits(",".join(f"{c}={v}" for c, v in zip(codes, vals))), wire)
        return out, extra
    raise ValueError(line)


def _setprop(code, i):
    a = BitArray()
    setattr(a, code, i)
    return a


def oracle(line: str, out: str, extra: dict):
    if line.endswith(SEP + "ba1"):
        line = line[: -len(SEP + "ba1")]
    f = line.split(SEP)
    op = f[1]
    if op == "enc":
        code, i = f[2], int(f[3])
        r = ref_enc(code, i)
        exp = "err ValueError" if r is None else "ok " + r
        if out != exp:
            return f"{code}={i}: expected {exp} (standard table), got {out}"
        for k, v in extra["routes"].items():
            if v != exp:
                return f"{code}={i}: creation route {k} gives {v}, keyword route gives {out}"
        if extra["again"] != exp:
            return f"{code}={i}: after mutating earlier mutable results, encoding gives {extra['again']} instead of {exp}"
        return None
    if op == "read":
        code, bits, pos = f[2], unwire(f[3]), int(f[4])
        r = ref_dec(code, bits, pos)
        exp = "err ReadError" if r is None else f"ok {r[0]} {r[1]}"
        if out != exp:
            return f"read {code} at {pos} of {wire(bits)}: expected {exp}, got {out}"
        if r is None and extra["pos_after"] != pos:
            return f"failed read moved pos from {pos} to {extra['pos_after']}"
        pk = "err ReadError" if r is None else f"ok {r[0]} {pos}"
        if extra["peek"] != pk:
            return f"peek gives {extra['peek']}, expected {pk}"
        if extra["readlist"] != exp:
            return f"readlist gives {extra['readlist']}, read gives {out}"
        return None
    if op == "get":
        code, bits = f[2], unwire(f[3])
        r = ref_dec(code, bits, 0)
        exp = f"ok {r[0]}" if (r is not None and r[1] == len(bits)) else "err ValueError"
        if out != exp:
            return f"{wire(bits)}.{code}: expected {exp}, got {out}"
        if extra["parse"] != exp:
            return f"Dtype.parse gives {extra['parse']}, property gives {out}"
        return None
    if op == "seq":
        codes, vals = f[2].split(","), [int(v) for v in f[3].split(",")]
        encs = [ref_enc(c, v) for c, v in zip(codes, vals)]
        if any(e is None for e in encs):
            return None if out == "err ValueError" else f"negative unsigned value accepted: {out}"
        exp = "ok " + wire("".join(encs))
        if out != exp:
            return f"pack: expected {exp}, got {out}"
        vs = ",".join(map(str, vals))
        if extra["unpack"] != "ok " + vs:
            return f"unpack gives {extra['unpack']}, expected {vs}"
        total = sum(map(len, encs))
        if extra["readlist"] != f"ok {vs} {total}":
            return f"readlist gives {extra['readlist']}, expected {vs} {total}"
        p = 0
        for e, v, got in zip(encs, vals, extra["reads"]):
            p += len(e)
            if got != f"ok {v}@{p}":
                return f"successive read gives {got}, expected {v}@{p}"
        if extra["token"] != exp:
            return f"token string gives {extra['token']}, pack gives {out}"
        return None
    return "unknown op"


def nontrivial(line):
    return True


def gen(rng, tier):
    for l in _gen(rng, tier):
        # the Lean driver ignores trailing fields
        yield l + SEP + "ba1" if (l.split(SEP)[1] in ("read", "get", "seq") and rng.random() < 0.3) else l


def _gen(rng, tier):
    big = tier != "quick"
    W = 600 if big else 300
    for code in CODES:
        for i in range(-W, W + 1):
            yield SEP.join(["C10", "enc", code, str(i)])
        for _ in range(3000 if big else 200):
            k = rng.choice([8, 16, 31, 32, 33, 63, 64, 65, 127, 128, 200])
            i = rng.getrandbits(rng.randint(1, k)) * rng.choice([1, 1, -1])
            yield SEP.join(["C10", "enc", code, str(i)])
            i = (1 << rng.randint(1, k)) + rng.choice([-2, -1, 0, 1])
            yield SEP.join(["C10", "enc", code, str(i * rng.choice([1, -1]))])
    L = 12 if big else 8
    for n in range(0, L + 1):
        for t in itertools.product("01", repeat=n):
            b = "".join(t)
            for code in CODES:
                yield SEP.join(["C10", "get", code, wire(b)])
                for pos in range(0, n + 1):
                    yield SEP.join(["C10", "read", code, wire(b), str(pos)])
    # encoded values embedded in random surroundings, long codes
    for _ in range(6000 if big else 600):
        code = rng.choice(CODES)
        i = rng.getrandbits(rng.randint(1, 70))
        if code in ("se", "sie") and rng.random() < 0.5:
            i = -i
        e = ref_enc(code, i)
        pre = rand_bits(rng, rng.randint(0, 20))
        cut = rng.random()
        body = e if cut < 0.6 else e[:rng.randint(0, len(e))]
        post = rand_bits(rng, rng.randint(0, 10)) if cut < 0.6 else ""
        yield SEP.join(["C10", "read", code, wire(pre + body + post), str(len(pre))])
        yield SEP.join(["C10", "get", code, wire(body + (post if rng.random() < 0.3 else ""))])
    for _ in range(3000 if big else 300):
        k = rng.randint(1, 8)
        codes = [rng.choice(CODES) for _ in range(k)]
        vals = []
        for c in codes:
            v = rng.choice([0, 1, 2, 3, 7, 8, 255, 256, rng.getrandbits(rng.randint(1, 40))])
            if c in ("se", "sie") and rng.random() < 0.5:
                v = -v
            vals.append(v)
        yield SEP.join(["C10", "seq", ",".join(codes), ",".join(map(str, vals))])
