"""C09 — construction and parsing are pure: results never depend on call history.

line: C09 hist <op> <op> ...        one whole history per line (TAB separated ops, `|` separated sub-fields)
  O|<lsb0|bytealigned|mxfp>|<0|1>          bitstring.options.<name> = value      (mxfp: 0 'saturate', 1 'overflow')
  S|<cls>[!f|!p|!a]|<dep>|<string>[|<nested string>…]
        construct from a string: cls(string) / cls.fromstring(string) (!f) / pack('bits', string) (!p) /
        Bits(bin='1') + string (!a): exactly one call of str_to_bitstore(string); on a miss the listed `bits=<literal>`
        values are converted first (nested calls of str_to_bitstore)
  K|<fn>|<dep>|<json [args, kwargs]>       direct call of a memoised helper (tokenparser, preprocess_tokens,
                                           parse_single_token, parse_name_length_token, parse_single_struct_token)
  P|<dep>|<json fmt>|<json values>|<json kwargs>      bitstring.pack(fmt, *values, **kwargs)
  U|<dep>|<json fmt>|<bits>|<mode>|<json kwargs>      unpack / readlist / read / peeklist of a format on given bits; list
                                           items may be strings, integers and {"d": [token, length, scale]} = a Dtype OBJECT
  D|<dep>|<json [token, length, scale, mode]>          Dtype(token, length, scale)  (mode 'array': Array(token).dtype;
                                           mode 'obj' + [scale2, length2]: Dtype(<that Dtype object>[, length2], scale=scale2))
  E|<dep>|<i>|<json argA>|<json argB>      equality / hash / set and dict membership between the Dtype OBJECT made at step i
                                           (a D step with arguments argA; re-created when run cold) and Dtype(argB) made now
  A|<dep>|<name>|<json values>             Array(Dtype(name, scale='auto'), values)   (builds Array._largest_values once)
  N|<dep>|<json [route, cls, name, length, value]>
        construct from a (dtype, value) pair without going through a string: kw cls(name<length>=value), kwl
        cls(name=value, length=length), prop a = cls(); a.name<length> = value, propl a = cls(<length zero bits>);
        a.name = value (property assignment on a mutable object), pack / packkw pack('name:length', value) /
        pack('name:length=v', v=value) (the BitStream pack returns), build Dtype(name, length).build(value)
  B|<cls>|<attr>|<i>|<json params>         a call dispatched through a class attribute that set_lsb0 re-binds, on the
                                           current value of the object made at step i (or a fixed operand)
  M|<i>|<kind>                             mutate the object made at step i (if it is a mutable bitstring)
  <dep>: letters l (has an exp-Golomb token: raises in lsb0 mode), m (has an e4m3mxfp/e5m2mxfp token whose value is
         beyond the largest finite one: saturate/overflow differ), e (malformed: raises always), or `-`
out: ok <one character per step>
  .  no observation (option assignment, mutation)
  =  the warm result equals the result of the same call made on cold caches under the options in force
     (B steps: equals the result of the same call in a fresh process in which the options were set once)
  m / l / b   str_to_bitstore served a stale entry: it equals the cold result under the other mxfp_overflow value /
              the other lsb0 value / both flipped
  x  any other difference
The model (Model/C09.lean) simulates the eight LRU caches (capacities re-read from the code), the option
assignments and the method re-binding, and predicts the same string.
"""
from harness.common import *
import json, math, pickle, functools, re, struct as _struct, atexit, array as _array

FUNCTIONAL = False
LEVEL_TEXT = ("Lean theorems over functools.lru_cache as a list machine (hit: move to front; miss: run the function under the "
              "CURRENT options, store, evict beyond maxsize; exceptions are not stored) and over the eight-cache system with the "
              "Options singleton and the set_lsb0 method tables. For ALL histories of calls, cache_clears and option assignments and "
              "every capacity: never more than maxsize entries, no duplicate keys; every call of a function that reads no option "
              "returns the pure result (seven of the eight caches; for the Dtype caches exactly - typed keys, a generated obligation - and up to "
              "value-equality for == keys, with a decided witness that then the first caller's scale object is served); "
              "for str_to_bitstore, which reads lsb0 and mxfp_overflow, and for the whole system as configured in the working tree "
              "(setters clear the string cache - re-evaluated on every run as a generated obligation; tables and capacities re-extracted): "
              "every observation of every history is pure (head_all_pure), results are a function of (current options, arguments) "
              "(head_option_restore), the two set_lsb0 tables re-bind the same attributes so method dispatch follows the current lsb0 value. "
              "Decided witnesses document that WITHOUT invalidation purity fails (the two deviations repaired by a428504) and a partial "
              "theorem says what holds without it. Correspondence: histories of 300-2000 calls over more than 256 distinct keys per cache "
              "interleaving string construction (four classes, thirteen construction / derivation routes), pack/unpack/readlist formats incl. "
              "lists of items and keyword lengths, Dtype creation with colliding scales, Array auto-scale, direct calls of the memoised "
              "helpers, option assignments, mutation of and method dispatch on earlier results; every call is re-executed on cold caches "
              "in-process and in never-used forked processes (one per option state).")
LEVEL_NOTE = ("Trusted: Lean kernel (+propext, Classical.choice, Quot.sound); functools.lru_cache behaves as the list machine "
              "(while a setter leaves stale entries the model must predict exactly which calls are served stale - capacity, move-to-front, "
              "exceptions not stored - and did so on the tree before a428504; with invalidating setters every prediction is 'pure'); which "
              "option each cached computation reads is transcribed by hand and checked on the generated strings and by re-evaluating the "
              "memoised helpers under all option settings; cached results are values in the model (aliasing is C04, but mutation of objects "
              "derived from cached strings is exercised here too). Everything observed about a Dtype is type-exact (scale, length, results of "
              "build/parse/read/get), in the token form and the explicit (name, length, scale) form.")
TECHNIQUE = "Lean 4 proof (cache invariants by induction over call/option histories) + history correspondence against cold caches and fresh processes"

NOT_YET_PROVED = []

# ---------------------------------------------------------------------------------------------------------------
# Generated layer for this property: re-extract the set_lsb0 tables / cache sizes / setter facts before the build
# ---------------------------------------------------------------------------------------------------------------
from harness import extract_C09 as _ext                                   # noqa: E402

# The fresh-process reference (see `fresh_eval`) is a zygote forked HERE: the package has been imported and nothing
# else has run (the extraction below already parses strings and flips options).  The zygote finishes importing this
# module (it needs the functions below) and then serves requests instead of returning from the import.
_Z = None
_IS_ZYGOTE = False


def _fork_zygote():
    global _Z, _IS_ZYGOTE
    if os.environ.get("VERIF_C09_NOFORK") == "1":
        return
    try:
        p2c_r, p2c_w = os.pipe()
        c2p_r, c2p_w = os.pipe()
        sys.stdout.flush(); sys.stderr.flush()
        pid = os.fork()
    except Exception:
        return
    if pid == 0:
        os.close(p2c_w); os.close(c2p_r)
        _IS_ZYGOTE = True
        _Z = (p2c_r, c2p_w)
        return
    os.close(p2c_r); os.close(c2p_w)
    _Z = (pid, os.fdopen(p2c_w, "wb"), os.fdopen(c2p_r, "rb"))

    def _stop():
        try:
            _Z[1].close()
            os.waitpid(_Z[0], 0)
        except Exception:
            pass
    atexit.register(_stop)


_fork_zygote()
if _IS_ZYGOTE:
    _GEN = {"lsb0_methods": [], "msb0_methods": [], "sizes": []}
    GEN_CHANGED = []
else:
    _GEN = _ext.extract(REPO)
    GEN_CHANGED = _ext.write(os.path.join(VERIF, "lean", "BitstringModel", "Gen"), _GEN)

from bitstring import bitstore_helpers as _bh, utils as _utils, dtypes as _dtypes, Dtype, Array   # noqa: E402

OPT_NAMES = ("lsb0", "bytealigned", "mxfp")
DEFAULT_OPTS = (0, 0, 0)


def _set_opts(t):
    o = bitstring.options
    if bool(o.lsb0) != bool(t[0]):
        o.lsb0 = bool(t[0])
    o.bytealigned = bool(t[1])
    want = "overflow" if t[2] else "saturate"
    if o.mxfp_overflow != want:
        o.mxfp_overflow = want


def _get_opts():
    o = bitstring.options
    return (int(bool(o.lsb0)), int(bool(o.bytealigned)), int(o.mxfp_overflow == "overflow"))


_CACHES = None


def clear_all():
    """Cold state: every memo of the package emptied, lazily built tables dropped."""
    global _CACHES
    if _CACHES is None:
        _CACHES = _ext.discover_caches()
    for c in _CACHES:
        try:
            c.cache_clear()
        except Exception:
            pass
    # (harness.common.clear_caches() re-scans the package on every call — far too slow to run twice per step; the
    #  discovery above is the same scan, done once per process)
    for d in _dict_caches():
        d.clear()
    Array._largest_values = None


_DICTS = None


def _dict_caches():
    """Module- or class-level dicts of the package whose name says they are a cache / memo (hand-made memoisation)."""
    global _DICTS
    if _DICTS is None:
        _DICTS = []
        for mname, mod in list(sys.modules.items()):
            if not (mname == "bitstring" or mname.startswith("bitstring.")) or mod is None:
                continue
            holders = [mod] + [v for v in vars(mod).values() if isinstance(v, type) and getattr(v, "__module__", "").startswith("bitstring")]
            for h in holders:
                for an, av in list(vars(h).items()):
                    if isinstance(av, dict) and any(t in an.lower() for t in ("cache", "memo")) and not an.startswith("__"):
                        if not any(av is d for d in _DICTS):
                            _DICTS.append(av)
    return _DICTS


# ---------------------------------------------------------------------------------------------------------------
# canonical values (compared by VALUE: 6 == 6.0 == True-as-1 is no difference; no reprs, no identities)
# ---------------------------------------------------------------------------------------------------------------
def canon(v):
    if isinstance(v, Bits):
        return "B" + wire(v)
    if isinstance(v, bool):
        return "n%d" % int(v)
    if isinstance(v, int):
        return "n%d" % v
    if isinstance(v, float):
        if math.isnan(v):
            return "nan"
        if math.isinf(v):
            return "inf" if v > 0 else "-inf"
        if v == int(v):
            return "n%d" % int(v)
        return "f" + v.hex()
    if v is None:
        return "None"
    if isinstance(v, str):
        return "s" + json.dumps(v)
    if isinstance(v, (bytes, bytearray)):
        return "y" + bytes(v).hex()
    if isinstance(v, (list, tuple)):
        return "[" + ",".join(canon(x) for x in v) + "]"
    if isinstance(v, Dtype):
        return canon_dtype(v)
    if isinstance(v, Array):
        return "A(" + canon_dtype(v.dtype) + "," + wire(v.data) + ")"
    if isinstance(v, dict):
        return "{" + ",".join(canon(k) + ":" + canon(x) for k, x in sorted(v.items(), key=lambda kv: repr(kv[0]))) + "}"
    return "?" + type(v).__name__


def canon_t(v):
    """Type-exact canonical form (used for everything observed about a Dtype: since e6496ea the Dtype caches are
    typed, so Dtype('uint', 8, scale=2.0) must come back with a float scale and float results whatever was created
    before): `<type name>:<repr>`."""
    if isinstance(v, Bits):
        return type(v).__name__ + ":" + wire(v)
    if isinstance(v, float):
        return "float:" + ("nan" if math.isnan(v) else v.hex())
    if isinstance(v, (list, tuple)):
        return type(v).__name__ + ":[" + ",".join(canon_t(x) for x in v) + "]"
    if isinstance(v, (bytes, bytearray)):
        return type(v).__name__ + ":" + bytes(v).hex()
    if v is None or isinstance(v, (bool, int, str)):
        return type(v).__name__ + ":" + repr(v)
    return canon(v)


def canon_scale(s):
    return canon_t(s)


_SAMPLES = (5, -3, 1.5, 1e6, "1", b"a", True)


def fnsig(f, depth=0):
    """Which functions a Dtype dispatches to (names, bound keyword arguments, wrapped functions) — compared between
    the warm and the cold Dtype only, so internal renames do not matter."""
    if f is None or depth > 4:
        return "None"
    if isinstance(f, functools.partial):
        return "partial(%s;%s)" % (fnsig(f.func, depth + 1), ",".join("%s=%s" % (k, canon_t(v)) for k, v in sorted(f.keywords.items())))
    name = getattr(f, "__qualname__", type(f).__name__)
    inner = []
    for cell in (getattr(f, "__closure__", None) or ()):
        try:
            c = cell.cell_contents
        except ValueError:
            continue
        if callable(c) and not isinstance(c, type):
            inner.append(fnsig(c, depth + 1))
    kd = getattr(f, "__kwdefaults__", None) or {}
    kds = ",".join("%s=%s" % (k, canon_scale(v)) for k, v in sorted(kd.items()))
    return name + ("<" + ";".join(inner) + ">" if inner else "") + ("{" + kds + "}" if kds else "")


def canon_dtype(d, behaviour=False):
    head = "D(%s,%s,%s,%s,%d,%d,%d)" % (d.name, canon_t(d.length), canon_t(d.bitlength), canon_scale(d.scale),
                                        int(bool(d.variable_length)), int(bool(d.is_signed)), d.bits_per_item)
    if behaviour:
        head += "[%s|%s|%s]" % (fnsig(d.set_fn), fnsig(d.get_fn), fnsig(d.read_fn))
    if not behaviour:
        return head
    outs = []
    for sv in _SAMPLES:
        if isinstance(sv, str) and d.name == "bits":
            continue                          # Bits('<str>') would be one more str_to_bitstore call
        try:
            outs.append(wire(d.build(sv)))
        except Exception:
            outs.append("E")
    n = d.bitlength
    pat = "1011001110001111"
    probes = []
    if isinstance(n, int) and not isinstance(n, bool) and 0 < n <= 160:
        probes.append("0" * max(0, n - 16) + pat[:n] if n > 16 else pat[:n])      # small magnitude
        probes.append((pat * 10)[:n])                                             # beyond 2**53 for long dtypes
    else:
        probes.append("0000" + pat)
    probes.append("00100")
    for probe in probes:
        try:
            b = Bits(bin=probe)
            outs.append(canon_t(d.parse(b)))
            r = d.read_fn(b, 0)
            outs.append(canon_t(r))
            outs.append(canon_t(d.get_fn(b)))
        except Exception:
            outs.append("E")
    return head + "/" + ";".join(outs)


def _scale_of(j):
    if j is None:
        return None
    k, v = j
    if k == "i":
        return int(v)
    if k == "f":
        return float.fromhex(v)
    if k == "b":
        return bool(v)
    if k == "s":
        return str(v)
    raise ValueError(j)


# ---------------------------------------------------------------------------------------------------------------
# the operations
# ---------------------------------------------------------------------------------------------------------------
FIXED_OPERAND = "1011001110001111010100110000111101"


def _s_call(cls_field, text):
    cls, _, route = cls_field.partition("!")
    C = CLASSES[cls]
    if route == "":
        return C(text)
    if route == "f":
        return C.fromstring(text)
    if route == "p":
        return C(bitstring.pack("bits", text))
    if route == "a":
        r = Bits(bin="1") + text
        return C(bin=r.bin[1:])
    # the BitStream that pack() returns, itself (single `bits` token: value a str, a keyword str, a Bits, with length)
    if route == "pk":
        return bitstring.pack("bits", text)
    if route == "pkv":
        return bitstring.pack("bits=v", v=text)
    if route == "pkb":
        return bitstring.pack("bits", Bits(text))
    if route == "pkn":
        x = Bits(text)
        return bitstring.pack("bits:%d" % len(x), x)
    if route == "pkl":
        x = BitArray(text)
        return bitstring.pack("bits:n=v", n=len(x), v=x)
    # derived from an EMPTY object of the class (fast paths that could hand out the cached store)
    if route == "eadd":
        return C() + text
    if route == "eradd":
        return text + C()
    if route == "ejoin":
        return C().join([text])
    y = C()
    if route == "eprepend":
        y.prepend(text)
    elif route == "eappend":
        y.append(text)
    elif route == "eiadd":
        y += text
    elif route == "einsert":
        y.insert(text, 0)
    elif route == "esetslice":
        y[:] = text
    elif route == "eoverwrite":
        y.overwrite(text, 0)
    else:
        raise ValueError(cls_field)
    return y


def _k_call(fn, arg):
    args, kwargs = json.loads(arg)
    f = getattr(_utils, fn)
    if fn == "tokenparser" and len(args) > 1:
        args = [args[0], tuple(args[1])]
    return f(*args, **kwargs)


def _p_call(fmt_j, vals_j, kw_j):
    return bitstring.pack(json.loads(fmt_j), *json.loads(vals_j), **json.loads(kw_j))


def _fmt_items(fmt):
    """A list format may hold Dtype objects: {"d": [token, length, scale]}."""
    if not isinstance(fmt, list):
        return fmt
    out = []
    for it in fmt:
        if isinstance(it, dict):
            token, length, scale = it["d"]
            sc = _scale_of(scale)
            out.append(Dtype(token, length, scale=sc) if length is not None else Dtype(token, scale=sc))
        else:
            out.append(it)
    return out


def _u_call(fmt_j, bits, mode, kw_j):
    fmt, kw = _fmt_items(json.loads(fmt_j)), json.loads(kw_j)
    if mode == "unpack":
        return Bits(bin=unwire(bits)).unpack(fmt, **kw)
    s = ConstBitStream(bin=unwire(bits))
    if mode == "readlist":
        return [s.readlist(fmt, **kw), s.pos]
    if mode == "peeklist":
        return [s.peeklist(fmt, **kw), s.pos]
    if mode == "read":
        return [s.read(fmt), s.pos]
    raise ValueError(mode)


def _n_value(v):
    if isinstance(v, dict):
        if "bits" in v:
            return Bits(bin=v["bits"])
        if "bytes" in v:
            return bytes.fromhex(v["bytes"])
        if "f" in v:
            return float.fromhex(v["f"])
    return v


def _n_call(arg):
    route, cls, name, length, value = json.loads(arg)
    C = CLASSES[cls]
    v = _n_value(value)
    attr = name + (str(length) if length is not None else "")
    token = name + (":%d" % length if length is not None else "")
    if route == "kw":
        return C(**{attr: v})
    if route == "kwl":
        return C(**{name: v}) if length is None else C(**{name: v, "length": length})
    if route == "prop":
        a = C()
        setattr(a, attr, v)
        return a
    if route == "propl":
        mult = 8 if name == "bytes" else 1
        a = C() if length is None else C(length * mult)
        setattr(a, name, v)
        return a
    if route == "pack":
        return bitstring.pack(token, v)
    if route == "packkw":
        return bitstring.pack(token + "=v", v=v)
    if route == "build":
        return (Dtype(name, length) if length is not None else Dtype(name)).build(v)
    raise ValueError(route)


def _d_call(arg):
    j = json.loads(arg)
    token, length, scale, mode = j[:4]
    if mode == "obj":
        # Dtype(<Dtype OBJECT obtained from an earlier creation>[, length], scale=…): j[4] = scale of the second call,
        # j[5] = length argument of the second call (or None)
        d = _d_call(json.dumps([token, length, scale, "dtype"]))
        sc2 = _scale_of(j[4])
        d2 = Dtype(d, scale=sc2) if j[5] is None else Dtype(d, j[5], scale=sc2)
        return [d2, d]
    if mode == "array":
        return Array(token).dtype
    sc = _scale_of(scale)
    if length is None and sc is None:
        return Dtype(token)
    if sc is None:
        return Dtype(token, length)
    return Dtype(token, length, scale=sc)


def _a_call(name, vals_j):
    vals = [float.fromhex(v) if isinstance(v, str) else v for v in json.loads(vals_j)]
    a = Array(Dtype(name, scale="auto"), vals)
    return a


def _b_call(cls, attr, operand, params_j):
    n1, n2, p = json.loads(params_j)
    x = Bits(bin=operand)
    pat = Bits(bin=p) if p else Bits()
    key = (cls, attr)
    if key == ("Bits", "_find"):
        return x.find(pat)
    if key == ("Bits", "_rfind"):
        return x.rfind(pat)
    if key == ("Bits", "_findall"):
        return list(x.findall(pat))
    y = BitArray(bin=operand)
    if key == ("BitArray", "_ror"):
        y.ror(n1); return y
    if key == ("BitArray", "_rol"):
        y.rol(n1); return y
    if key == ("BitArray", "_append"):
        y.append(pat); return y
    if key == ("BitArray", "_prepend"):
        y.prepend(pat); return y
    if key == ("BitStore", "__setitem__"):
        if p:
            y[n1:n2] = pat
        else:
            y[n1] = True
        return y
    if key == ("BitStore", "__delitem__"):
        del y[n1:n2]; return y
    if key == ("BitStore", "getindex"):
        return x[n1]
    if key == ("BitStore", "getslice"):
        return x[n1:n2]
    if key == ("BitStore", "getslice_withstep"):
        return x[n1:n2:2]
    if key == ("BitStore", "invert"):
        y.invert(n1); return y
    # an attribute the tables of this tree re-bind that the harness has no dedicated exerciser for: call it with the
    # first argument shape it accepts, and exercise the public search / slice entry points as well
    target = {"Bits": x, "BitArray": y}.get(cls, getattr(y, "_bitstore", y))
    got = "absent"
    fn = getattr(target, attr, None)
    if callable(fn):
        got = "uncallable"
        for args in ((pat,), (getattr(pat, "_bitstore", pat),), (n1,), (n1, n2), ()):
            try:
                r = fn(*args)
                got = [canon(r), canon(target) if isinstance(target, Bits) else ""]
                break
            except TypeError:
                continue
            except Exception:
                got = "err"
                break
    return [got, x.find(pat), x.rfind(pat), list(x.findall(pat)), x[n1:n2], x[n1:n2:2]]


def run_op(f, operand=None):
    """Perform one call-type op on the real library. Returns (canonical string, object or None)."""
    k = f[0]
    try:
        if k == "S":
            r = _s_call(f[1], f[3]); return "ok " + wire(r), r
        if k == "K":
            r = _k_call(f[1], f[3]); return "ok " + canon(r), None
        if k == "P":
            r = _p_call(f[2], f[3], f[4]); return "ok " + wire(r), r
        if k == "U":
            r = _u_call(f[2], f[3], f[4], f[5]); return "ok " + canon_t(r), None
        if k == "N":
            r = _n_call(f[2]); return "ok " + wire(r), r
        if k == "D":
            r = _d_call(f[2])
            if isinstance(r, list):
                return "ok " + "&".join(canon_dtype(x, True) for x in r), r[1]
            return "ok " + canon_dtype(r, True), r
        if k == "E":
            a = operand if isinstance(operand, Dtype) else _d_call(f[3])
            b = _d_call(f[4])
            obs = [a == b, b == a, not (a != b), hash(a) == hash(b), b in {a}, a in {b}, {a: 1}.get(b) == 1, b in [a],
                   [a].count(b), (a, 0) == (b, 0)]
            return "ok " + "".join(str(int(x)) for x in obs), None
        if k == "A":
            r = _a_call(f[2], f[3]); return "ok " + canon(r), None
        if k == "B":
            r = _b_call(f[1], f[2], operand, f[4]); return "ok " + canon(r), None
    except RecursionError:
        return "err!RecursionError", None
    except Exception:                          # noqa: BLE001 — exception class presence is the observable
        return "err", None
    raise ValueError("bad op %r" % (f,))


MUT_KINDS = ("invert", "append1", "clear", "set0", "reverse", "overwrite", "ror", "setitem", "ilshift", "delitem", "byteswap",
             "iadd3", "prepend1", "insert1")
MUT_ON_EMPTY = ("append1", "iadd3", "prepend1", "insert1")      # these change an EMPTY bitstring too


def _mutate(x, kind):
    try:
        if kind == "invert":
            x.invert()
        elif kind == "append1":
            x.append(Bits(bin="1"))
        elif kind == "clear":
            x.clear()
        elif kind == "set0":
            x.set(True, 0)
        elif kind == "reverse":
            x.reverse()
        elif kind == "overwrite":
            x.overwrite(Bits(bin="1"), 0)
        elif kind == "ror":
            x.ror(1)
        elif kind == "setitem":
            x[0] = not x[0]
        elif kind == "ilshift":
            x <<= 1
        elif kind == "delitem":
            del x[0]
        elif kind == "byteswap":
            x.byteswap()
        elif kind == "iadd3":
            x += Bits(bin="101")
        elif kind == "prepend1":
            x.prepend(Bits(bin="1"))
        elif kind == "insert1":
            x.insert(Bits(bin="1"), 0)
    except Exception:
        pass


# ---------------------------------------------------------------------------------------------------------------
# fresh-process reference: a zygote forked when this module is imported (nothing has run yet); for every request it
# forks a child that sets the options ONCE and evaluates the listed calls, each on cleared caches.
# ---------------------------------------------------------------------------------------------------------------
def _child_eval(req):
    """req: list of (opts, items), sorted by opts (lsb0 is the major key, so lsb0 is assigned at most once in this
    process); every call on cleared caches."""
    out = []
    for opts, items in req:
        _set_opts(opts)
        res = []
        for f, operand in items:
            clear_all()
            res.append(run_op(f, operand)[0])
        out.append(res)
    return out


def _zygote_loop(rfd, wfd):
    r, w = os.fdopen(rfd, "rb"), os.fdopen(wfd, "wb")
    while True:
        hdr = r.read(4)
        if len(hdr) < 4:
            os._exit(0)
        req = pickle.loads(r.read(_struct.unpack("<I", hdr)[0]))
        pr, pw = os.pipe()
        pid = os.fork()
        if pid == 0:
            try:
                os.close(pr)
                data = pickle.dumps(_child_eval(req))
            except BaseException as e:       # noqa: BLE001
                data = pickle.dumps([["child-failed " + repr(e)] * len(g[1]) for g in req])
            with os.fdopen(pw, "wb") as cw:
                cw.write(data)
            os._exit(0)
        os.close(pw)
        chunks = []
        while True:
            c = os.read(pr, 1 << 16)
            if not c:
                break
            chunks.append(c)
        os.close(pr)
        os.waitpid(pid, 0)
        data = b"".join(chunks)
        w.write(_struct.pack("<I", len(data)) + data)
        w.flush()


def fresh_eval_groups(groups):
    """groups: list of (opts, items). Results per group, evaluated in ONE never-used process that walks the option
    states in sorted order; None if there is no zygote."""
    if _Z is None:
        return None
    if not groups:
        return []
    b = pickle.dumps(sorted(groups, key=lambda g: g[0]))
    _Z[1].write(_struct.pack("<I", len(b)) + b)
    _Z[1].flush()
    n = _struct.unpack("<I", _Z[2].read(4))[0]
    res = pickle.loads(_Z[2].read(n))
    order = sorted(range(len(groups)), key=lambda i: groups[i][0])
    out = [None] * len(groups)
    for pos, i in enumerate(order):
        out[i] = res[pos]
    return out


def fresh_eval(opts, items):
    """Results of `items` in a never-used interpreter state with the options set once; None if no zygote."""
    if _Z is None:
        return None
    if not items:
        return []
    return fresh_eval_groups([(opts, items)])[0]


# ---------------------------------------------------------------------------------------------------------------
# execute: warm pass, cold pass, fresh pass, classification
# ---------------------------------------------------------------------------------------------------------------
_TOKEN_RE = re.compile(r"[A-Za-z_][A-Za-z0-9_]*(?::[A-Za-z0-9_]+)?")


def _op_tokens(f):
    if f[0] in "UP":
        return set(_TOKEN_RE.findall(f[2]))
    if f[0] == "K":
        return set(_TOKEN_RE.findall(f[3]))
    return set(_TOKEN_RE.findall(f[2]))


def _flip(t, which):
    l, b, m = t
    if which == "m":
        return (l, b, 1 - m)
    if which == "l":
        return (1 - l, b, m)
    return (1 - l, b, 1 - m)


def _cold(opts, f, operand):
    _set_opts(opts)
    clear_all()
    return run_op(f, operand)[0]


def execute(line):
    ops = [w.split("|") for w in line.split(SEP)[2:]]
    saved = _get_opts()
    try:
        # prelude (warm process only): every option is assigned its other value and back.  By the property this
        # changes nothing; it makes each line self-contained (a binding that set_lsb0 fails to restore shows in this
        # line, not only after some earlier line flipped the option).
        o = bitstring.options
        o.lsb0 = True; o.lsb0 = False
        o.bytealigned = True; o.bytealigned = False
        o.mxfp_overflow = "overflow"; o.mxfp_overflow = "saturate"
        _set_opts(DEFAULT_OPTS)
        clear_all()
        # ---- warm pass: the history as written
        objs, warm, optat, operands, mutated = {}, [], [], [], set()
        for i, f in enumerate(ops):
            k = f[0]
            optat.append(_get_opts())
            operand = None
            if k == "O":
                name, v = f[1], f[2] == "1"
                if name == "lsb0":
                    if i % 2:
                        bitstring.lsb0 = v            # the module-level alias (bitstring/__init__.py:101-109)
                    else:
                        bitstring.options.lsb0 = v
                elif name == "bytealigned":
                    if i % 2:
                        bitstring.bytealigned = v
                    else:
                        bitstring.options.bytealigned = v
                elif name == "mxfp":
                    bitstring.options.mxfp_overflow = "overflow" if v else "saturate"
                else:
                    raise ValueError(f)
                warm.append(None)
            elif k == "M":
                x = objs.get(int(f[1]))
                if isinstance(x, (BitArray, BitStream)):
                    _mutate(x, f[2])
                    mutated.add(int(f[1]))
                warm.append(None)
            else:
                if k == "B":
                    x = objs.get(int(f[3])) if f[3] != "-" else None
                    operand = x.bin if isinstance(x, Bits) and len(x) <= 4096 else FIXED_OPERAND
                if k == "E":
                    # warm: the object kept from step i; cold / fresh: both Dtypes are created on the spot
                    c, obj = run_op(f, objs.get(int(f[2])))
                else:
                    c, obj = run_op(f, operand)
                warm.append(c)
                if obj is not None:
                    objs[i] = obj
            operands.append(operand)
        # objects handed out earlier and never mutated by the history still hold the value they were created with
        changed_objects = [i for i, x in objs.items() if i not in mutated and isinstance(x, Bits) and "ok " + wire(x) != warm[i]]
        info = {}
        for name, modname, path in _ext.CACHES:
            try:
                ci = _ext._resolve(modname, path).cache_info()
                info[name] = (ci.misses, ci.currsize, ci.maxsize)
            except Exception:
                pass
        # ---- cold pass (in-process): every call again on cleared caches, under the options that were in force
        cold, chars = [], []
        for i, f in enumerate(ops):
            if warm[i] is None:
                cold.append(None); chars.append("."); continue
            if f[0] == "B":
                cold.append(None); chars.append("?"); continue
            c = _cold(optat[i], f, operands[i])
            cold.append(c)
            if c == warm[i] and f[0] == "K":
                # the memoised helpers read no option (the model's `sem`): their cold result is the same under all settings
                dep = any(_cold(_flip(optat[i], which), f, operands[i]) != c for which in ("m", "l", "b"))
                chars.append("o" if dep else "=")
            elif c == warm[i]:
                chars.append("=")
            elif f[0] == "S":
                ch = "x"
                for which in ("m", "l", "b"):
                    if _cold(_flip(optat[i], which), f, operands[i]) == warm[i]:
                        ch = which
                        break
                chars.append(ch)
            else:
                chars.append("x")
        # ---- fresh pass: a new process per option state, options set once, every call on cleared caches
        fresh = [None] * len(ops)
        groups = {}
        for i, f in enumerate(ops):
            if warm[i] is not None:
                groups.setdefault(optat[i], []).append(i)
        have_fresh = _Z is not None
        if have_fresh and groups:
            glist, gmeta = [], []
            for o, idxs in groups.items():
                uniq, order = {}, []           # identical (op, operand) pairs are asked once
                for i in idxs:
                    key = ("|".join(ops[i]), operands[i])
                    if key not in uniq:
                        uniq[key] = len(order); order.append((ops[i], operands[i]))
                glist.append((o, order)); gmeta.append((idxs, uniq))
            # one never-used process per option state: whatever is captured at first use is captured under that state
            res = []
            for g in glist:
                r = fresh_eval_groups([g])
                if r is None:
                    res = None
                    break
                res.append(r[0])
            if res is None:
                have_fresh = False
            else:
                for (idxs, uniq), r in zip(gmeta, res):
                    for i in idxs:
                        fresh[i] = r[uniq[("|".join(ops[i]), operands[i])]]
        # ---- pristine sample: two call steps evaluated alone in a never-used process (catches state that survives
        #      every cache_clear: hand-made memo tables, values captured at first use)
        pristine = {}
        call_idx = [i for i in range(len(ops)) if warm[i] is not None]
        if have_fresh and call_idx:
            pick = set()
            if len(call_idx) >= 15:          # short histories: the per-option-state processes are nearly pristine already
                pick.add(call_idx[(len(line) * 7919 + len(call_idx)) % len(call_idx)])
            if len(call_idx) > 100:
                pick.add(call_idx[-1])
            # a call that RAISES after an earlier, different call sharing one of its tokens raised: the earlier failure
            # may have been remembered (negative memo) — such a step is evaluated alone as well (at most 10 per history)
            failed, extra_pick = [], []
            for i in call_idx:
                if ops[i][0] in "UPKDNA" and ops[i][0] != "E" and warm[i].startswith("err"):
                    t = _op_tokens(ops[i])
                    if len(extra_pick) < 10 and any(o2 != ops[i] and (t & t2) for o2, t2 in failed):
                        extra_pick.append(i)
                    failed.append((ops[i], t))
            pick.update(extra_pick)
            for i in sorted(pick):
                r = fresh_eval(optat[i], [(ops[i], operands[i])])
                if r:
                    pristine[i] = r[0]
        fresh_mismatch = []
        for i, r in pristine.items():
            if r != (fresh[i] if ops[i][0] == "B" else cold[i]) and i not in fresh_mismatch:
                fresh[i] = r
                if ops[i][0] != "B":
                    fresh_mismatch.append(i)
        for i, f in enumerate(ops):
            if warm[i] is None:
                continue
            if f[0] == "B":
                if fresh[i] is None:
                    chars[i] = "="            # no reference available: nothing observed
                else:
                    chars[i] = "=" if fresh[i] == warm[i] else "x"
            elif fresh[i] is not None and fresh[i] != cold[i]:
                fresh_mismatch.append(i)
        extra = {"warm": warm, "cold": cold, "fresh": fresh, "opts": optat, "cache_info": info,
                 "fresh_mismatch": fresh_mismatch, "have_fresh": have_fresh, "changed_objects": changed_objects}
        return "ok " + "".join(chars), extra
    finally:
        _set_opts(DEFAULT_OPTS)
        clear_all()
        _set_opts(saved)


# ---------------------------------------------------------------------------------------------------------------
# oracle: warm = cold, call by call (and = fresh); regions of the known deviations
# ---------------------------------------------------------------------------------------------------------------
def _opt_str(t):
    return "lsb0=%s bytealigned=%s mxfp_overflow=%s" % (bool(t[0]), bool(t[1]), "overflow" if t[2] else "saturate")


def oracle(line, out, extra):
    ops = line.split(SEP)[2:]
    if not out.startswith("ok ") or len(out) - 3 != len(ops):
        return "malformed observation %r for %d steps" % (out[:40], len(ops))
    chars = out[3:]
    bad = [i for i, c in enumerate(chars) if c not in ".=o"]     # 'o' contradicts the model only (see execute)
    if bad:
        i = bad[0]
        f = ops[i].split("|")
        ref = extra["fresh"][i] if f[0] == "B" else extra["cold"][i]
        msg = ("step %d of %d: %s under %s returned %s but the same call on cold caches returns %s"
               % (i + 1, len(ops), ops[i], _opt_str(extra["opts"][i]), extra["warm"][i], ref))
        if f[0] == "S":
            prev = [j for j in range(i) if ops[j].split("|")[0] == "S" and ops[j].split("|")[3] == f[3]]
            if prev:
                j = prev[-1]
                msg += ("; the string was last constructed at step %d under %s" % (j + 1, _opt_str(extra["opts"][j])))
            msg += {"m": " [served the result parsed under the other mxfp_overflow value]",
                    "l": " [served the result parsed under the other lsb0 value]",
                    "b": " [served the result parsed under other lsb0 and mxfp_overflow values]"}.get(chars[i], "")
        if len(bad) > 1:
            msg += "; %d steps differ in all" % len(bad)
        return msg
    if extra.get("changed_objects"):
        i = extra["changed_objects"][0]
        return ("the object made at step %d (%s, value %s) was never mutated by the history but holds a different value at "
                "its end" % (i + 1, ops[i], extra["warm"][i]))
    if extra.get("fresh_mismatch"):
        i = extra["fresh_mismatch"][0]
        return ("step %d of %d: %s under %s returns %s on cleared caches in this process but %s in a fresh process "
                "(state survives clearing every cache)" % (i + 1, len(ops), ops[i], _opt_str(extra["opts"][i]),
                                                          extra["cold"][i], extra["fresh"][i]))
    return None


def _sem(dep, opts):
    """What str_to_bitstore computes for a string with dependency letters `dep` under `opts` (abstractly)."""
    if "e" in dep:
        return "err"
    if "l" in dep and opts[0]:
        return "err"
    return ("ok", opts[2] if "m" in dep else None)


def _s_trace(line):
    opts, out = [0, 0, 0], []
    for w in line.split(SEP)[2:]:
        f = w.split("|")
        if f[0] == "O":
            opts[OPT_NAMES.index(f[1])] = int(f[2])
        elif f[0] == "S":
            out.append((f[3], f[2], tuple(opts)))
    return out


def reuse_after_lsb0_change(line):
    """Some string with an exp-Golomb token is constructed under both lsb0 values."""
    seen = {}
    for text, dep, o in _s_trace(line):
        if "l" in dep and "e" not in dep:
            seen.setdefault(text, set()).add(o[0])
    return any(len(v) > 1 for v in seen.values())


def reuse_after_mxfp_overflow_change(line):
    """Some string with an overflowing e4m3mxfp/e5m2mxfp token is constructed (successfully) under both
    mxfp_overflow values."""
    seen = {}
    for text, dep, o in _s_trace(line):
        if "m" in dep and _sem(dep, o) != "err":
            seen.setdefault(text, set()).add(o[2])
    return any(len(v) > 1 for v in seen.values())


REGIONS = {"reuse_after_lsb0_change": reuse_after_lsb0_change,
           "reuse_after_mxfp_overflow_change": reuse_after_mxfp_overflow_change}


def nontrivial(line):
    return len(line.split(SEP)) > 3


# ---------------------------------------------------------------------------------------------------------------
# generators
# ---------------------------------------------------------------------------------------------------------------
def J(x):
    return json.dumps(x, separators=(",", ":"))


GOLOMB = ("ue", "se", "uie", "sie")
STRUCT_CODES = "bBhHlLiIqQefd"
INT_NAMES = ("uint", "int", "uintbe", "intbe", "uintle", "intle", "uintne", "intne")


def _ws(rng, s):
    """A whitespace / case / underscore variant that normalises to the same parse but is a different cache key."""
    r = rng.random()
    if r < 0.55:
        return s
    if r < 0.7:
        return " " + s
    if r < 0.8:
        return s + " "
    if r < 0.9:
        return s.replace("=", " = ", 1) if "=" in s else s + "  "
    return s.replace(",", " ,  ")


def gen_literal(rng):
    r = rng.random()
    n = rng.choice([1, 2, 3, 4, 7, 8, 9, 12, 16, 17, 31, 32, 33, 64])
    if r < 0.4:
        h = "%x" % rng.getrandbits(4 * max(1, n // 4))
        p = rng.choice(["0x", "0x", "0X"])
        return p + (h.upper() if rng.random() < 0.2 else h)
    if r < 0.8:
        return rng.choice(["0b", "0b", "0B"]) + rand_bits(rng, n)
    return "0o%o" % rng.getrandbits(3 * max(1, n // 3))


def gen_plain_token(rng):
    """A `name:len=value` token whose result reads no option."""
    r = rng.random()
    if r < 0.35:
        name = rng.choice(INT_NAMES)
        n = rng.choice([8, 16, 24, 32]) if name.endswith(("be", "le", "ne")) else rng.randint(2, 300)
        signed = name.startswith("int")
        lo, hi = (-(1 << (n - 1)), (1 << (n - 1)) - 1) if signed else (0, (1 << n) - 1)
        v = rng.choice([lo, hi, 0, 1, rng.randint(lo, hi)])
        sep = rng.choice([":", ""])
        return "%s%s%d=%d" % (name, sep, n, v)
    if r < 0.45:
        n = rng.choice([16, 32, 64])
        return "%s%s%d=%s" % (rng.choice(["float", "floatbe", "floatle", "floatne"]), rng.choice([":", ""]), n,
                              rng.choice(["1.5", "-0.25", "1e3", "0.0", "3.75", "inf"]))
    if r < 0.55:
        return "hex%s=%x" % (rng.choice([":8", "8", ""]), rng.getrandbits(8) | 0x10)
    if r < 0.62:
        return "bin=" + rand_bits(rng, rng.randint(1, 12))
    if r < 0.68:
        return "oct=%o" % rng.getrandbits(9)
    if r < 0.74:
        return rng.choice(["bool=1", "bool=0", "bool=True", "bool=False", "pad:%d" % rng.randint(1, 40)])
    if r < 0.8:
        return "bfloat=%s" % rng.choice(["1.5", "-2.0", "1e10", "3.140625"])
    if r < 0.9:        # mxfp / fp8 tokens inside the finite range: both overflow modes agree
        return rng.choice(["e4m3mxfp=%s" % rng.choice(["1.0", "-3.5", "400", "0.0", "nan", "17"]),
                           "e5m2mxfp=%s" % rng.choice(["1.0", "-3.5", "50000", "0.0", "nan", "96"]),
                           "e3m2mxfp=%s" % rng.choice(["1.0", "100", "-28"]), "e2m3mxfp=%s" % rng.choice(["1.0", "100", "7.5"]),
                           "e2m1mxfp=%s" % rng.choice(["1.0", "100", "-6"]), "e8m0mxfp=%s" % rng.choice(["4", "0.5", "1"]),
                           "mxint=%s" % rng.choice(["1.5", "100", "-0.015625"]),
                           "p4binary=%s" % rng.choice(["1.0", "1000", "-2.5"]), "p3binary=%s" % rng.choice(["1.0", "1e9", "0.375"])])
    return "bytes:%d=%s" % (1, "x")          # raises TypeError always (a str is not bytes): handled as malformed below


def gen_golomb_token(rng):
    code = rng.choice(GOLOMB)
    v = rng.randint(0, 4000) if code in ("ue", "uie") else rng.randint(-2000, 2000)
    return "%s=%d" % (code, v)


def gen_mxfp_token(rng):
    if rng.random() < 0.5:
        v = rng.choice([500, 1000, 1e4, 12345.5, 1e30, "inf"])
        name = "e4m3mxfp"
    else:
        v = rng.choice([70000, 1e5, 1e9, 123456.5, 1e30, "inf"])
        name = "e5m2mxfp"
    if v != "inf":
        v = rng.choice([v, -v]) if isinstance(v, (int, float)) else v
        v = v + rng.randint(0, 4000) if abs(v) < 1e15 and v > 0 else v
        txt = repr(float(v)) if rng.random() < 0.5 else ("%d" % v if float(v) == int(v) and abs(v) < 1e15 else repr(float(v)))
    else:
        txt = rng.choice(["inf", "-inf"])
    return "%s=%s" % (name, txt)


MALFORMED = ["uint:8=256", "0xg", "foo=1", "uint:8", "2*(0b1", "ue=-1", "uie=-5", "e3m2mxfp=nan", "int:4=8", "0b12", "0o8",
             "hex:7=ab", "float:17=1.0", "uint:0=0", "bytes:1=x", "bool=2", "e8m0mxfp=3", "uint:8=0x", "=5", "3*", "0x",
             "uint:abc=1", "se", "bits:3=0b1", "int:8=-129", "bfloat:8=1.0", "2*(0b1,(0x2)", "uint:8=1=2"]


def gen_string(rng, kinds):
    """(dep, text, nested) for an S op. kinds: allowed dependency classes among '-', 'l', 'm', 'lm', 'e', 'n'."""
    k = rng.choice(kinds)
    if k == "-" and rng.random() < 0.04:
        return "-", rng.choice(TOKENLESS) + " " * rng.choice([0, 0, 1, 2, 3]), []
    if k == "e" and rng.random() < 0.3:
        # a token NAME in the wrong case: raises, but collides with a valid string under a case-folding cache key
        t = gen_plain_token(rng) if rng.random() < 0.6 else gen_golomb_token(rng)
        name, _, rest = t.partition("=")
        return "e", rng.choice([name.upper() + "=" + rest, name.capitalize() + "=" + rest]), []
    if k == "e":
        t = rng.choice(MALFORMED)
        if rng.random() < 0.4:
            t = rng.choice([gen_literal(rng) + ", " + t, t + ", " + gen_literal(rng), " " + t])
        return "e", t, []
    if k == "n":
        lit = gen_literal(rng)
        nbits = None
        t = "bits=" + lit
        nested = [lit]
        if rng.random() < 0.5:
            lit2 = gen_literal(rng)
            t = t + ", " + gen_literal(rng) + ", bits=" + lit2
            nested.append(lit2)
        return "-", t, nested
    toks = []
    if "l" in k:
        toks.append(gen_golomb_token(rng))
    if "m" in k:
        toks.append(gen_mxfp_token(rng))
    n_extra = rng.choice([0, 0, 1, 1, 2, 3]) if k != "-" else rng.choice([1, 1, 1, 2, 3])
    for _ in range(n_extra):
        toks.append(gen_literal(rng) if rng.random() < 0.5 else gen_plain_token(rng))
    rng.shuffle(toks)
    if any(t.startswith("bytes:") for t in toks):
        return "e", ", ".join(toks), []
    r = rng.random()
    if r < 0.1 and len(toks) >= 2:
        t = "%d*(%s)" % (rng.randint(1, 3), ", ".join(toks))
    elif r < 0.2:
        toks[0] = "%d*%s" % (rng.randint(1, 3), toks[0])
        t = ", ".join(toks)
    else:
        t = rng.choice([", ", ",", " , "]).join(toks)
    return (k if k != "-" else "-"), _ws(rng, t), []


def gen_format(rng, stress=False):
    """A format string for pack/unpack/readlist with the values it packs: (fmt, values, total_bits or None)."""
    toks, vals = [], []
    for _ in range(rng.choice([1, 1, 2, 3, 4])):
        r = rng.random()
        if r < 0.3:
            n = rng.randint(1, 300 if stress else 40)
            name = rng.choice(["uint", "int"])
            v = rng.randint(0, (1 << (n - 1)) - 1)
            form = rng.choice(["%s:%d", "%s%d"]) % (name, n)
            if rng.random() < 0.3:
                toks.append("%s=%d" % (form, v))
            else:
                toks.append(form); vals.append(v)
        elif r < 0.4:
            n = rng.choice([16, 32, 64])
            toks.append("float:%d" % n); vals.append(rng.choice([1.5, -0.25, 1024.0]))
        elif r < 0.5:
            n = rng.randint(1, 6)
            toks.append("hex:%d" % (4 * n)); vals.append("%0*x" % (n, rng.getrandbits(4 * n)))
        elif r < 0.58:
            n = rng.randint(1, 12)
            toks.append("bin:%d" % n); vals.append(rand_bits(rng, n))
        elif r < 0.66:
            toks.append(rng.choice(GOLOMB)); vals.append(rng.randint(0, 300))
        elif r < 0.74:
            e = rng.choice("<>=@")
            codes = "".join(rng.choice(["", "2"]) + rng.choice("bBhHlLqQ") for _ in range(rng.randint(1, 3)))
            toks.append(e + codes)
            for c in codes:
                if c.isdigit():
                    continue
            import re as _re
            for m in _re.finditer(r"(\d*)([bBhHlLqQ])", codes):
                for _k in range(int(m.group(1) or 1)):
                    vals.append(rng.randint(0, 100))
        elif r < 0.8:
            toks.append("bool"); vals.append(rng.choice([True, False]))
        elif r < 0.86:
            toks.append("pad:%d" % rng.randint(1, 9))
        elif r < 0.92:
            k = rng.randint(2, 3)
            n = rng.randint(1, 64)
            toks.append("%d*uint:%d" % (k, n)); vals += [rng.randint(0, (1 << n) - 1) for _ in range(k)]
        else:
            n1, n2 = rng.randint(1, 30), rng.randint(1, 30)
            k = rng.randint(1, 3)
            toks.append("%d*(uint:%d, int:%d)" % (k, n1, n2))
            for _ in range(k):
                vals += [rng.randint(0, (1 << n1) - 1), rng.randint(-(1 << (n2 - 1)), (1 << (n2 - 1)) - 1)]
    fmt = rng.choice([", ", ",", " ,"]).join(toks)
    return _ws(rng, fmt), vals


BAD_FORMATS = ["uint:8,", "2*(uint:8", "uint:x", "foo:8", "uint:8=3=4", "<z", "3*", "((uint:8)", "float:17", "hex:3"]

SCALES = [None, None, None, ["i", 2], ["f", "0x1.0000000000000p+1"], ["i", 1], ["b", True], ["f", "0x1.0000000000000p+0"],
          ["f", "0x1.0000000000000p-1"], ["i", 4], ["f", "0x1.0000000000000p+2"], ["i", 6], ["f", "0x1.8000000000000p+2"],
          ["i", -2], ["f", "-0x1.0000000000000p+1"], ["i", 0], ["f", "0x0.0p+0"], ["b", False], ["f", "0x1.8000000000000p+0"],
          ["i", 3], ["f", "0x1.8000000000000p+1"], ["i", 64], ["f", "0x1.0000000000000p+6"]]

DTYPE_NAMES_LEN = ["uint", "int", "hex", "bin", "oct", "bits", "pad", "uintbe", "intle", "bytes"]
DTYPE_FIXED = ["bool", "ue", "se", "uie", "sie", "bfloat", "e4m3mxfp", "e5m2mxfp", "e3m2mxfp", "e2m3mxfp", "e2m1mxfp", "e8m0mxfp",
               "mxint", "p4binary", "p3binary", "float16", "float32", "float64", "floatle32", "u8", "i16", "f32", "h8", "b4", "o6"]


def gen_dtype(rng, stress=False, focus=None):
    """json [token, length, scale, mode] and dep."""
    r = rng.random()
    scale = rng.choice(SCALES)
    dep = "-"
    if focus in ("newtok", "create") and r < 0.85:
        name = rng.choice(["uint", "int", "bits", "bin", "pad"])
        n = rng.randint(1, 420)
        if focus == "create":
            tok, length = name, (float(n) if rng.random() < 0.05 else n)
        else:
            tok, length = rng.choice(["%s:%d", "%s%d"]) % (name, n), None
        if rng.random() < 0.7:
            scale = None
    elif r < 0.35:
        name = rng.choice(DTYPE_NAMES_LEN)
        n = rng.randint(1, 300 if stress else 64)
        if name in ("uintbe", "intle"):
            n = 8 * rng.randint(1, 37 if stress else 8)
        if name == "hex":
            n = 4 * rng.randint(1, 75 if stress else 16)
        if name == "oct":
            n = 3 * rng.randint(1, 100 if stress else 20)
        form = rng.random()
        if form < 0.4:
            tok, length = name, (float(n) if rng.random() < 0.08 else n)
        elif form < 0.7:
            tok, length = "%s:%d" % (name, n), None
        else:
            tok, length = _ws(rng, "%s%d" % (name, n)), None
    elif r < 0.6:
        tok, length = rng.choice(DTYPE_FIXED), None
    elif r < 0.7:
        tok, length = rng.choice(["float", "floatle", "floatbe"]), rng.choice([16, 32, 64])
    elif r < 0.8:
        e = rng.choice("<>=@")
        tok, length, scale = e + rng.choice(STRUCT_CODES), None, None
        return "-", J([tok, None, None, "array"])
    elif r < 0.88:
        tok, length, scale = rng.choice(["uint8", "float32", "int:12", "e4m3mxfp", "hex4", "uintle16", "bool"]), None, None
        return "-", J([tok, None, None, "array"])
    else:
        tok, length = rng.choice(["foo", "uint:x", "float:17", "bool:2", "ue:3", "uint", "9", "", "int:-1", "hex:abc"]), \
            rng.choice([None, None, 8])
        dep = "-"                                  # whether it raises is not predicted: only purity is observed
    if scale is not None and scale[0] in ("i", "f", "b") and ((scale[0] == "f" and float.fromhex(scale[1]) == 0) or
                                                              (scale[0] != "f" and not scale[1])):
        dep = "-"
    if rng.random() < 0.1:
        return dep, J([tok, length, scale if rng.random() < 0.3 else None, "obj", rng.choice(SCALES[3:]),
                       rng.choice([None, None, 8, length])])
    return dep, J([tok, length, scale, "dtype"])


AUTO_NAMES = ["mxint", "e2m1mxfp", "e2m3mxfp", "e3m2mxfp", "e4m3mxfp", "e5m2mxfp", "p4binary", "p3binary", "float16"]


def gen_auto(rng):
    name = rng.choice(AUTO_NAMES + ["uint8", "bfloat"])
    vals = [rng.choice([1.0, 3.5, 100.0, 1000.0, 1e6, 0.001, -7.25, 0.0]) for _ in range(rng.randint(0, 4))]
    return name, J([float(v).hex() for v in vals])


# (dtype name, length or None, value) — every registered dtype name and alias that can be set from a value
def _F(x):
    return {"f": float(x).hex()}


N_SAMPLES = [("uint", 8, 5), ("uint", 13, 300), ("int", 8, -5), ("uintbe", 16, 300), ("uintle", 16, 300), ("uintne", 16, 300),
             ("intbe", 16, -3), ("intle", 16, -3), ("intne", 16, -3), ("hex", 8, "a5"), ("hex", None, "a5c"), ("bin", None, "10110"),
             ("bin", 5, "10110"), ("oct", 6, "17"), ("oct", None, "175"), ("float", 32, _F(1.5)), ("floatle", 32, _F(1.5)),
             ("floatbe", 64, _F(-0.25)), ("floatne", 16, _F(2.0)), ("bfloat", None, _F(1.5)), ("bfloatle", None, _F(2.5)),
             ("bfloatbe", None, _F(-3.0)), ("bfloatne", None, _F(0.5)), ("bits", 4, {"bits": "0101"}), ("bits", None, {"bits": "110"}),
             ("bytes", 2, {"bytes": "6162"}), ("bytes", None, {"bytes": "7a"}), ("bool", None, True), ("bool", None, False),
             ("bool", None, 1), ("bool", None, 0), ("bool", 1, True), ("bool", None, "True"), ("se", None, -3), ("ue", None, 3),
             ("sie", None, -3), ("uie", None, 3), ("p3binary", None, _F(1.5)), ("p4binary", None, _F(1.5)), ("e4m3mxfp", None, _F(1.5)),
             ("e4m3mxfp", None, _F(1000.0)), ("e5m2mxfp", None, _F(1.5)), ("e5m2mxfp", None, _F(1e6)), ("e3m2mxfp", None, _F(1.5)),
             ("e2m3mxfp", None, _F(1.5)), ("e2m1mxfp", None, _F(1.5)), ("e8m0mxfp", None, _F(4.0)), ("mxint", None, _F(1.5)),
             ("i", 8, -5), ("u", 8, 5), ("h", 8, "a5"), ("o", 6, "17"), ("b", 5, "10110"), ("f", 32, _F(1.5))]
N_ROUTES = ("kw", "kwl", "prop", "propl", "pack", "packkw", "build")


def n_op(route, cls, sample):
    name, length, value = sample
    return "N|-|" + J([route, cls, name, length, value])


def n_string(sample):
    """The same (dtype, value) as a token string, where the value has a textual form (else None)."""
    name, length, value = sample
    if isinstance(value, dict):
        if "f" not in value:
            return None
        value = repr(float.fromhex(value["f"]))
    tok = name + (":%d" % length if length is not None else "")
    return "%s=%s" % (tok, value)


TOKENLESS = ["", " ", ",", " , ", ",,", "  ", ", ", " ,"]

BATTERY = [("Bits", "_find"), ("Bits", "_rfind"), ("Bits", "_findall"), ("BitArray", "_ror"), ("BitArray", "_rol"),
           ("BitArray", "_append"), ("BitArray", "_prepend"), ("BitStore", "__setitem__"), ("BitStore", "__delitem__"),
           ("BitStore", "getindex"), ("BitStore", "getslice"), ("BitStore", "getslice_withstep"), ("BitStore", "invert")]


def battery_attrs():
    """The attributes the tables of THIS tree re-bind (so an attribute added to one table is exercised too)."""
    keys = []
    for rows in (_GEN["lsb0_methods"], _GEN["msb0_methods"]):
        for (c, a), _m in rows:
            if (c, a) not in keys:
                keys.append((c, a))
    for k in BATTERY:
        if k not in keys:
            keys.append(k)
    return keys


def gen_battery(rng, obj_steps, attrs=None):
    cls, attr = rng.choice(attrs or battery_attrs())
    i = str(rng.choice(obj_steps)) if obj_steps and rng.random() < 0.6 else "-"
    n1 = rng.randint(-3, 20)
    n2 = n1 + rng.randint(0, 12)
    p = rng.choice(["1", "0", "11", "10", "0011", "1111", "00001111", "1011"])
    if (cls, attr) == ("BitStore", "__setitem__") and rng.random() < 0.4:
        p, n1 = "", rng.randint(0, 8)
    if attr in ("getindex", "invert"):
        n1 = rng.randint(-4, 12)
    return "B|%s|%s|%s|%s" % (cls, attr, i, J([n1, n2, p]))


S_ROUTES = ["", "", "", "!f", "!p", "!a"]
E_ROUTES_ANY = ["!eadd", "!eradd", "!ejoin", "!pk", "!pkv", "!pkb", "!pkn", "!pkl"]
E_ROUTES_MUT = ["!eprepend", "!eappend", "!eiadd", "!einsert", "!esetslice", "!eoverwrite"]


def s_op(rng, dep, text, nested):
    cls = rng.choice(CLASS_NAMES)
    if rng.random() < 0.3:
        route = rng.choice(E_ROUTES_ANY + (E_ROUTES_MUT if cls in MUTABLE else []))
    else:
        route = rng.choice(S_ROUTES)
    return "|".join(["S", cls + route, dep, text] + list(nested))


def history(rng, length, focus, flips, safe):
    """One random history.
    focus: which caches get > 256 distinct keys ('str', 'fmt', 'dtype', 'tok', 'mixed')
    flips: probability of an option assignment per step;  safe: never re-use a sensitive string across a change of
    what it reads (so the history lies outside the regions of the known deviations)."""
    ops, opts = [], [0, 0, 0]
    pool_s, pool_other = [], []          # earlier call ops, for re-use (cache hits)
    sem_seen = {}                        # text -> abstract result first seen (safe mode)
    obj_steps = []
    d_steps = []
    weights = {"str":    dict(S=0.62, K=0.05, P=0.05, U=0.05, D=0.05, A=0.01, B=0.07, M=0.04),
               "fmt":    dict(S=0.12, K=0.2, P=0.27, U=0.25, D=0.03, A=0.01, B=0.07, M=0.03),
               "tok1":   dict(S=0.1, K=0.72, P=0.03, U=0.03, D=0.03, A=0.01, B=0.06, M=0.02),
               "nl":     dict(S=0.1, K=0.72, P=0.03, U=0.03, D=0.03, A=0.01, B=0.06, M=0.02),
               "struct": dict(S=0.1, K=0.72, P=0.03, U=0.03, D=0.03, A=0.01, B=0.06, M=0.02),
               "newtok": dict(S=0.1, K=0.05, P=0.03, U=0.03, D=0.7, A=0.02, B=0.05, M=0.02),
               "create": dict(S=0.1, K=0.05, P=0.03, U=0.03, D=0.7, A=0.02, B=0.05, M=0.02),
               "mixed":  dict(S=0.3, K=0.15, P=0.1, U=0.1, D=0.15, A=0.03, B=0.1, M=0.05)}[focus]
    weights = dict(weights, N=0.06 if focus != "mixed" else 0.12)
    kfocus = {"tok1": "parse_single_token", "nl": "parse_name_length_token", "struct": "parse_single_struct_token"}.get(focus)
    kinds_s = ["-"] * 5 + ["l"] * 3 + ["m"] * 3 + ["lm", "e", "e", "n"]
    names, cum = list(weights), []
    acc = 0.0
    for n in names:
        acc += weights[n]; cum.append(acc)
    stress = True
    while len(ops) < length:
        if rng.random() < flips:
            name = rng.choice(["lsb0", "mxfp", "bytealigned", "lsb0", "mxfp"])
            v = rng.choice([0, 1])
            ops.append("O|%s|%d" % (name, v)); opts[OPT_NAMES.index(name)] = v
            continue
        x = rng.random() * acc
        k = names[[i for i, c in enumerate(cum) if x <= c][0]]
        if k == "S":
            if pool_s and rng.random() < 0.4:
                dep, text, nested = rng.choice(pool_s[-400:] if rng.random() < 0.7 else pool_s)
                if rng.random() < 0.08 and "e" not in dep and not nested and "," not in text and text[:1].isalpha() and text == text.strip():
                    dep, text = "e", text.upper()       # same string, token name in the wrong case: must raise
            else:
                dep, text, nested = gen_string(rng, kinds_s)
            if safe and ("l" in dep or "m" in dep) and "e" not in dep:
                cur = _sem(dep, opts)
                tries = 0
                while sem_seen.get(text, cur) != cur and tries < 50:
                    dep, text, nested = gen_string(rng, [dep])
                    cur = _sem(dep, opts); tries += 1
                if sem_seen.get(text, cur) != cur:
                    continue
                sem_seen[text] = cur
            pool_s.append((dep, text, nested))
            if rng.random() < 0.5:
                obj_steps.append(len(ops))
            ops.append(s_op(rng, dep, text, nested))
        elif k == "K":
            if pool_other and rng.random() < 0.2 and any(o.startswith("K|") for o in pool_other[-50:]):
                ops.append(rng.choice([o for o in pool_other[-50:] if o.startswith("K|")])); continue
            fn = rng.choice(["tokenparser", "preprocess_tokens", "parse_single_token", "parse_name_length_token",
                             "parse_single_struct_token", "parse_name_length_token", "parse_single_struct_token"])
            if kfocus and rng.random() < 0.9:
                fn = kfocus
            dep = "-"
            if fn in ("tokenparser", "preprocess_tokens"):
                if rng.random() < 0.12:
                    fmt, dep = rng.choice(BAD_FORMATS), "-"
                else:
                    fmt, _v = gen_format(rng, stress)
                if fn == "tokenparser" and rng.random() < 0.3:
                    keys = sorted(rng.sample(["a", "b", "n", "width", "val"], rng.randint(1, 3)))
                    fmt = rng.choice(["uint:n=a", "uint:n, int:width", "hex:width=val, b", "a, b", "bits:n"])
                    arg = J([[fmt, keys], {}])
                else:
                    arg = J([[fmt], {}])
            elif fn == "parse_single_token":
                tok = rng.choice([gen_plain_token(rng), gen_golomb_token(rng), "uint:%d" % rng.randint(1, 400),
                                  "%d" % rng.randint(1, 400), "hex:n", "int:%d=%d" % (rng.randint(2, 400), rng.randint(0, 1))])
                arg = J([[tok], {}])
            elif fn == "parse_name_length_token":
                r = rng.random()
                if r < 0.6:
                    tok = "%s%s%d" % (rng.choice(INT_NAMES + ("hex", "bin", "float", "bits")), rng.choice([":", ""]), rng.randint(1, 400))
                    arg = J([[tok], {}])
                elif r < 0.8:
                    arg = J([[rng.choice(["uint:n", "int:width", "hex:n"])], {rng.choice(["n", "width"]): rng.choice([8, 12, "16", 300 + rng.randint(0, 300)])}])
                else:
                    arg = J([[rng.choice(["ue", "bool", "=", "uint:", "9x", "", "a b", "float"])], {}])
            else:
                r = rng.random()
                if r < 0.25:
                    tok = rng.choice("<>=@") + rng.choice(STRUCT_CODES)
                elif r < 0.9:
                    tok = rng.choice(["uint%d" % rng.randint(1, 2000), "<%dh" % rng.randint(2, 999), "x%d" % rng.randint(0, 999),
                                      "%s%d%s" % (rng.choice("<>=@"), rng.randint(2, 999), rng.choice(STRUCT_CODES)),
                                      "%s%s%s" % (rng.choice("<>=@"), rng.choice(STRUCT_CODES), rng.choice(STRUCT_CODES))])
                else:
                    tok = rng.choice([">hh", "h", "<", "", "<z", " <h", "<h "])
                arg = J([[tok], {}])
            op = "K|%s|%s|%s" % (fn, dep, arg)
            pool_other.append(op); ops.append(op)
        elif k == "P":
            if pool_other and rng.random() < 0.3 and any(o.startswith("P|") for o in pool_other[-50:]):
                ops.append(rng.choice([o for o in pool_other[-50:] if o.startswith("P|")])); continue
            r = rng.random()
            if r < 0.1:
                op = "P|-|%s|%s|{}" % (J(rng.choice(BAD_FORMATS)), J([1, 2]))
            elif r < 0.25:                       # list of format items (each item is its own tokenparser key)
                f1, v1 = gen_format(rng, stress)
                f2, v2 = gen_format(rng, stress)
                items = [f1, f2] + ([f1] if rng.random() < 0.5 else [])
                op = "P|-|%s|%s|{}" % (J(items), J(v1 + v2 + (v1 if len(items) == 3 else [])))
            elif r < 0.4:                        # keyword lengths / values
                n = rng.randint(1, 300)
                op = "P|-|%s|%s|%s" % (J(rng.choice(["uint:n=a, int:n", "uint:n, uint:n=a", "hex:n, uint:n=a"])), J([1 if rng.random() < .5 else "f" * 75][:1]),
                                       J({"n": n if rng.random() < 0.7 else 300, "a": rng.randint(0, 1)}))
            elif r < 0.45:                       # values that read options: exp-Golomb and overflowing mxfp
                op = "P|-|%s|%s|{}" % (J(rng.choice(["ue, e4m3mxfp", "e5m2mxfp, se", "e4m3mxfp, e5m2mxfp", "uie, sie"])),
                                       J([rng.randint(0, 50), rng.choice([1000.0, 1e6, 3.0])]))
            elif r < 0.55:                       # … written in the format string, or passed as strings / keyword strings
                v1, v2 = rng.choice(["1000", "1e6", "-70000.5", "inf", "3.0"]), str(rng.randint(0, 40))
                op = rng.choice(["P|-|%s|[]|{}" % J("e4m3mxfp=%s, ue=%s" % (v1, v2)), "P|-|%s|[]|{}" % J("e5m2mxfp=%s" % v1),
                                 "P|-|%s|%s|{}" % (J("e4m3mxfp, e5m2mxfp"), J([v1, v1])), "P|-|%s|%s|{}" % (J("se, uie"), J([v2, v2])),
                                 "P|-|%s|[]|%s" % (J("e4m3mxfp=a, sie=b"), J({"a": v1, "b": v2})), "P|-|%s|[]|{}" % J("sie=%s, 0x1" % v2)])
            else:
                fmt, vals = gen_format(rng, stress)
                op = "P|-|%s|%s|{}" % (J(fmt), J(vals))
            if rng.random() < 0.4:
                obj_steps.append(len(ops))          # the BitStream pack() returns can be mutated later
            pool_other.append(op); ops.append(op)
        elif k == "N":
            sample = rng.choice(N_SAMPLES)
            if rng.random() < 0.3:                   # a value of its own
                nm_, ln_, val_ = sample
                if isinstance(val_, int) and not isinstance(val_, bool) and ln_:
                    sample = (nm_, ln_, rng.randint(0, (1 << (ln_ - 1)) - 1))
            cls = rng.choice(CLASS_NAMES)
            route = rng.choice(N_ROUTES)
            if route in ("prop", "propl") and cls not in MUTABLE:
                cls = rng.choice(MUTABLE)
            if rng.random() < 0.6:
                obj_steps.append(len(ops))
            ops.append(n_op(route, cls, sample))
            st = n_string(sample)
            if st is not None and rng.random() < 0.25 and sample[0] not in GOLOMB and not sample[0].startswith(("e4m3", "e5m2")):
                ops.append(s_op(rng, "-", st, []))
        elif k == "U":
            if pool_other and rng.random() < 0.3 and any(o.startswith("U|") for o in pool_other[-50:]):
                prev = rng.choice([o for o in pool_other[-50:] if o.startswith("U|")])
                f = prev.split("|")
                if rng.random() < 0.5 and f[5] != "{}":       # same format and keyword names, other values
                    kw = json.loads(f[5])
                    f[5] = J({k2: (v + rng.choice([1, 4, 8]) if isinstance(v, int) else v) for k2, v in kw.items()})
                    prev = "|".join(f)
                elif rng.random() < 0.5 and '{"d":' in f[2]:   # same format, Dtype items with another scale
                    fm = json.loads(f[2])
                    for it in fm:
                        if isinstance(it, dict):
                            it["d"][2] = rng.choice(SCALES)
                    f[2] = J(fm)
                    prev = "|".join(f)
                ops.append(prev); continue
            r = rng.random()
            if r < 0.22:
                # a LIST format holding Dtype objects (with / without scale), integers and strings
                bits = rand_bits(rng, rng.choice([32, 64, 100, 200]))
                mode = rng.choice(["unpack", "readlist", "peeklist"])
                items = []
                for _ in range(rng.randint(1, 3)):
                    q = rng.random()
                    if q < 0.6:
                        nm = rng.choice(["uint", "int", "uint", "float", "hex", "bits"])
                        ln = rng.choice([16, 32, 64]) if nm == "float" else (4 * rng.randint(1, 6) if nm == "hex" else rng.randint(1, 24))
                        form = rng.random()
                        d = [nm, ln, rng.choice(SCALES)] if form < 0.5 else ["%s%d" % (nm, ln), None, rng.choice(SCALES)]
                        items.append({"d": d})
                    elif q < 0.8:
                        items.append(rng.randint(1, 9))
                    else:
                        items.append(rng.choice(["uint:5", "bool", "bin:3", "hex:4"]))
                if rng.random() < 0.5:
                    items.append(rng.choice(["bits", "bin", "hex"]))
                op = "U|-|%s|%s|%s|{}" % (J(items), wire(bits), mode)
                pool_other.append(op); ops.append(op); continue
            if r < 0.34:
                bits = rand_bits(rng, rng.choice([64, 100, 200]))
                mode = rng.choice(["unpack", "readlist", "peeklist"])
                fmt2 = rng.choice(["uint:width, hex:rest", "int:a, uint:b, bits", "bin:width, uint:width", "uint:width, bits:rest, bin"])
                kw = {"width": rng.randint(1, 16), "rest": 4 * rng.randint(1, 8), "a": rng.randint(2, 20), "b": rng.randint(1, 20)}
                names_used = [k2 for k2 in kw if k2 in fmt2]
                op = "U|-|%s|%s|%s|%s" % (J(fmt2), wire(bits), mode, J({k2: kw[k2] for k2 in names_used}))
                pool_other.append(op); ops.append(op); continue
            r = rng.random()
            bits = rand_bits(rng, rng.choice([0, 7, 32, 64, 100, 200, 700]))
            mode = rng.choice(["unpack", "readlist", "peeklist"])
            if r < 0.1:
                op = "U|-|%s|%s|%s|{}" % (J(rng.choice(BAD_FORMATS)), wire(bits), mode)
            elif r < 0.3:
                f1 = gen_format(rng, stress)[0]
                f2 = gen_format(rng, stress)[0]
                op = "U|-|%s|%s|%s|{}" % (J([f1, f2, rng.randint(1, 9)]), wire(bits), mode)
            elif r < 0.4:
                op = "U|-|%s|%s|%s|%s" % (J(rng.choice(["uint:n, int:n", "hex:n, bits", "uint:n, bin, uint:n"])), wire(bits), mode,
                                          J({"n": 4 * rng.randint(1, 80)}))
            elif r < 0.5:
                op = "U|-|%s|%s|read|{}" % (J(rng.choice(["uint:%d" % rng.randint(1, 300), "ue", "se", "e4m3mxfp", "hex:8", "bool",
                                                          "float:32", "bits:%d" % rng.randint(1, 300)])), wire(bits))
            else:
                fmt = gen_format(rng, stress)[0]
                if rng.random() < 0.3:
                    fmt = fmt + rng.choice([", bits", ", bin", ", hex", ", uint"])
                op = "U|-|%s|%s|%s|{}" % (J(fmt), wire(bits), mode)
            pool_other.append(op); ops.append(op)
        elif k == "D":
            if pool_other and rng.random() < 0.25 and any(o.startswith("D|") for o in pool_other[-60:]):
                ops.append(rng.choice([o for o in pool_other[-60:] if o.startswith("D|")])); continue
            dep, arg = gen_dtype(rng, stress, focus)
            op = "D|%s|%s" % (dep, arg)
            if arg.endswith('"dtype"]') and rng.random() < 0.3:
                d_steps.append((len(ops), arg))
            if d_steps and rng.random() < 0.12:
                pool_other.append(op); ops.append(op)
                i0, a0 = rng.choice(d_steps[:40] if rng.random() < 0.5 else d_steps)
                t0 = json.loads(a0)
                alt = a0
                if isinstance(t0[1], int) and t0[0].isalpha():          # another spelling of the same dtype
                    alt = J([rng.choice(["%s%d", "%s:%d"]) % (t0[0], t0[1]), None, t0[2], "dtype"])
                ops.append("E|-|%d|%s|%s" % (i0, a0, rng.choice([a0, alt])))
                continue
            pool_other.append(op); ops.append(op)
        elif k == "A":
            name, vals = gen_auto(rng)
            ops.append("A|-|%s|%s" % (name, vals))
        elif k == "B":
            ops.append(gen_battery(rng, obj_steps))
        elif k == "M":
            if obj_steps:
                ops.append("M|%d|%s" % (rng.choice(obj_steps), rng.choice(MUT_KINDS)))
    return SEP.join(["C09", "hist"] + ops[:length])


def fillers(n, tag):
    return ["S|Bits|-|0b1, uint:20=%d" % (i + 1000 * tag) for i in range(n)]


def _join(segments):
    """Concatenate segments into one history; `@k` in a segment is the index of the segment's k-th step."""
    ops = []
    for seg in segments:
        base = len(ops)
        for w in seg:
            ops.append("|".join(str(base + int(f[1:])) if f[:1] == "@" and f[1:].isdigit() else f for f in w.split("|")))
    return SEP.join(["C09", "hist"] + ops)


def targeted(rng, tier):
    """Histories aimed at one mechanism each (segments that use their own strings are chained into one history)."""
    out = []
    H = lambda ops: out.append(SEP.join(["C09", "hist"] + ops))
    flipof = {"l": ["lsb0"], "m": ["mxfp"], "lm": ["lsb0", "mxfp"]}
    uid = [0]

    def sens_texts():
        """Option-reading strings, fresh ones on every call (so chained segments do not share cache entries)."""
        uid[0] += 1
        u = uid[0]
        return [("l", "ue=%d" % (3 + u)), ("l", "se=-%d" % (3 + u)), ("l", "uie=%d" % (7 + u)), ("l", "sie=-%d" % (7 + u)),
                ("l", "0b1, ue=%d" % (12 + u)), ("m", "e4m3mxfp=%d" % (1000 + u)), ("m", "e4m3mxfp=-%d" % (1000 + u)),
                ("m", "e5m2mxfp=%d" % (100000 + u)), ("m", "uint:9=%d, e5m2mxfp=-inf" % (u % 500)), ("m", "0x%x, e4m3mxfp=inf" % u),
                ("lm", "ue=%d, e4m3mxfp=1000" % (3 + u)), ("lm", "e5m2mxfp=1e6, sie=%d" % (4 + u))]
    # 0. the two historical deviations, alone (shortest possible histories)
    for dep, text in [("l", "ue=3"), ("l", "se=-3"), ("l", "uie=7"), ("l", "sie=-7"), ("m", "e4m3mxfp=1000"), ("m", "e5m2mxfp=1e9"),
                      ("lm", "ue=3, e4m3mxfp=1000")]:
        for opt in flipof[dep]:
            for start in (0, 1):
                s = "S|Bits|%s|%s" % (dep, text)
                H(["O|%s|%d" % (opt, start), s, "O|%s|%d" % (opt, 1 - start), s, "O|%s|%d" % (opt, start), s])
    # 0b. derive from a string through every route, mutate the result, construct again (short, unchained)
    for cls in MUTABLE:
        for route in ["", "!f", "!p", "!a"] + E_ROUTES_ANY + E_ROUTES_MUT:
            for kind in ("invert", "setitem", "reverse"):
                s = "S|%s%s|-|0xf0, uint:4=5" % (cls, route)
                H([s, "M|0|%s" % kind, s, "S|Bits|-|0xf0, uint:4=5"])
    # 0c. a list of format items, then each item alone (short, unchained)
    for f1, v1 in (("uint:8", [5]), ("ue", [3]), ("hex:8, bin:2", ["ab", "01"]), (">h", [7])):
        H(["P|-|%s|%s|{}" % (J([f1, f1]), J(v1 + v1)), "P|-|%s|%s|{}" % (J(f1), J(v1))])
        H(["U|-|%s|%s|unpack|{}" % (J([f1, f1]), "1011001110001111010100110000111101011100"),
           "U|-|%s|%s|unpack|{}" % (J(f1), "1011001110001111010100110000111101011100")])
    # 1. parse, flip, parse, flip back, parse — in both starting states, every class and route
    for cls in CLASS_NAMES:
        for route in ["", "!f", "!p", "!a"] + E_ROUTES_ANY + (E_ROUTES_MUT if cls in MUTABLE else []):
            segs = []
            for dep, text in sens_texts():
                for opt in flipof[dep]:
                    for start in (0, 1):
                        s = "S|%s%s|%s|%s" % (cls, route, dep, text + (" " if start else "") + ("  " if opt == "mxfp" else ""))
                        segs.append(["O|lsb0|0", "O|mxfp|0", "O|%s|%d" % (opt, start), s, "O|%s|%d" % (opt, 1 - start), s,
                                     "O|%s|%d" % (opt, start), s, "O|%s|%d" % (opt, 1 - start), s])
            out.append(_join(segs))
    # 1b. both options of an 'lm' string changed between parse and re-use
    segs = []
    for cls in CLASS_NAMES:
        for a in ((0, 0), (0, 1)):
            for b in ((0, 0), (0, 1), (1, 0), (1, 1)):
                uid[0] += 1
                s = "S|%s|lm|ue=%d, e4m3mxfp=2000" % (cls, uid[0])
                segs.append(["O|lsb0|%d" % a[0], "O|mxfp|%d" % a[1], s, "O|lsb0|%d" % b[0], "O|mxfp|%d" % b[1], s, "O|lsb0|0", s])
    out.append(_join(segs))
    # 2. eviction boundary: an entry survives exactly maxsize-1 other keys; a hit refreshes it; capacity ± 1.
    #    (While a setter leaves stale entries behind, the model has to predict exactly which calls are served stale.)
    cap = dict(_GEN["sizes"]).get("str_to_bitstore", 256)
    for dep, text in (("m", "e4m3mxfp=1000"), ("l", "ue=3")):
        opt = flipof[dep][0]
        s = "S|Bits|%s|%s" % (dep, text)
        for n in (cap - 2, cap - 1, cap, cap + 1):
            H([s, "O|%s|1" % opt] + fillers(n, 1) + [s, "O|%s|0" % opt, s])
        H([s, "O|%s|1" % opt] + fillers(cap - 60, 1) + [s] + fillers(cap - 60, 2) + [s] + fillers(cap, 3) + [s])
        # failing calls do not occupy a slot; repeated fillers do not either
        H([s, "O|%s|1" % opt] + fillers(cap - 1, 1) + ["S|Bits|e|uint:8=256", "S|Bits|e|0xg"] + fillers(cap - 1, 1)[:50] + [s])
        # nested constructions do occupy slots
        H([s, "O|%s|1" % opt] + fillers(cap - 3, 1) + ["S|Bits|-|bits=0b101, bits=0x3|0b101|0x3", s])
        H([s, "O|%s|1" % opt] + fillers(cap - 4, 1) + ["S|Bits|-|bits=0b101, bits=0x3|0b101|0x3", s])
        # the auto-scale table construction parses six distinct literals, once
        H([s, "O|%s|1" % opt] + fillers(cap - 8, 1) + ["A|-|e4m3mxfp|%s" % J([(1000.0).hex()]), s])
        H([s, "O|%s|1" % opt] + fillers(cap - 7, 1) + ["A|-|e4m3mxfp|%s" % J([(1000.0).hex()]), s,
                                                        "A|-|float16|%s" % J([(3.0).hex()])] + fillers(3, 2) + [s])
    # 3. a string first constructed in the mode where it raises is not cached
    H(["O|lsb0|1", "S|Bits|l|ue=9", "S|Bits|l|ue=9", "O|lsb0|0", "S|Bits|l|ue=9", "O|lsb0|1", "S|Bits|l|ue=9"])
    # 4. Dtype creation: colliding scales, in every order (each pair on its own length, so the pairs are independent)
    for tok in ("uint", "int", "bits", "float", "hex", "e4m3mxfp"):
        segs, n = [], 0
        for sa in SCALES[3:14]:
            for sb in SCALES[3:14]:
                if sa != sb:
                    n += 1
                    if tok == "float":
                        t, length = "float", [16, 32, 64][n % 3]
                    elif tok == "hex":
                        t, length = "hex", 4 * n
                    elif tok == "e4m3mxfp":
                        t, length = ["e4m3mxfp", "e5m2mxfp", "e3m2mxfp", "e2m3mxfp", "e2m1mxfp", "mxint", "p4binary", "p3binary",
                                     "bfloat", "bool"][n % 10], None
                    else:
                        t, length = tok, n + 1
                    if length is not None and n % 2:
                        t, length = "%s:%d" % (t, length), None
                    segs.append(["D|-|" + J([t, length, sa, "dtype"]), "D|-|" + J([t, length, sb, "dtype"]),
                                 "D|-|" + J([t, length, None, "dtype"]), "D|-|" + J([t, length, sa, "dtype"])])
                    if tok in ("float", "e4m3mxfp") and n % 10 == 9:
                        segs.append(["K|preprocess_tokens|-|" + J([["uint:%d" % k], {}]) for k in range(3)])
        if tok in ("float", "e4m3mxfp"):
            # few distinct keys: one history per 10 pairs, each starting cold
            for i in range(0, len(segs), 11):
                out.append(_join(segs[i:i + 11]))
        else:
            out.append(_join(segs))
    # 4b. the explicit (name, length, scale) form with value-equal, differently typed lengths and scales, both orders
    segs, n = [], 40
    for name in ("uint", "int", "bits", "hex"):
        for sc in (None, ["i", 2], ["f", "0x1.0000000000000p+1"], ["b", True]):
            for (la, lb) in ((1, 1.0), (1.0, 1)):
                n += 4
                a, b = (n if la == 1 else float(n)), (n if lb == 1 else float(n))
                segs.append(["D|-|" + J([name, a, sc, "dtype"]), "D|-|" + J([name, b, sc, "dtype"]), "D|-|" + J([name, a, sc, "dtype"])])
    out.append(_join(segs))
    for tok, length in (("uint", 8), ("uint8", None), ("float", 32), ("int:12", None), ("e4m3mxfp", None)):
        for sa, sb in ((["i", 2], ["f", "0x1.0000000000000p+1"]), (["f", "0x1.0000000000000p+1"], ["i", 2]),
                       (["b", True], ["f", "0x1.0000000000000p+0"]), (["i", 1], ["b", True]), (["f", "0x1.0000000000000p+0"], ["i", 1])):
            H(["D|-|" + J([tok, length, sa, "dtype"]), "D|-|" + J([tok, length, sb, "dtype"])])
    # 5. method dispatch after every sequence of lsb0 assignments of length <= 3
    attrs = battery_attrs()
    for seq in [[], [1], [0], [1, 0], [1, 1], [0, 1], [1, 0, 1], [1, 0, 0], [0, 1, 0], [1, 1, 0]]:
        for ba in (0, 1):
            ops = ["O|bytealigned|%d" % ba, "S|BitArray|-|0xf0a53c0ff0"]
            for v in seq:
                ops.append("O|lsb0|%d" % v)
            for (c, a) in attrs:
                for p in ([2, 9, "1111"], [0, 8, "00001111"], [-1, 5, ""], [3, 3, "1"]):
                    ops.append("B|%s|%s|%s|%s" % (c, a, "1" if p[0] != 3 else "-", J(p)))
            H(ops)
    # 6. format caches: the same format through pack / unpack / readlist / direct calls, lists of items, keywords
    for fmt in ("uint:8, 2*int:4, hex:8", "2*(uint:3, bool), pad:2", ">hB, <H", "ue, se, uie, sie", "bits:5, bin, uint:3"):
        bits = wire(rand_bits(rng, 64))
        H(["K|preprocess_tokens|-|" + J([[fmt], {}]), "U|-|%s|%s|unpack|{}" % (J(fmt), bits), "K|tokenparser|-|" + J([[fmt], {}]),
           "U|-|%s|%s|readlist|{}" % (J(fmt), bits), "U|-|%s|%s|unpack|{}" % (J([fmt, fmt]), bits + bits[:-1] if bits != "-" else bits),
           "K|preprocess_tokens|-|" + J([[fmt], {}]), "K|tokenparser|-|" + J([[fmt], {}]), "O|lsb0|1",
           "U|-|%s|%s|unpack|{}" % (J(fmt), bits), "K|tokenparser|-|" + J([[fmt], {}]), "O|lsb0|0", "U|-|%s|%s|unpack|{}" % (J(fmt), bits)])
    for n in (1, 8, 9, 300):
        H(["P|-|%s|[1]|%s" % (J("uint:n=a, int:n"), J({"n": n + 1, "a": 1})), "P|-|%s|[1]|%s" % (J("uint:n=a, int:n"), J({"n": n + 2, "a": 0})),
           "P|-|%s|[1]|%s" % (J("uint:n=a, int:n"), J({"n": n + 1, "a": 1})), "K|parse_name_length_token|-|" + J([["uint:n"], {"n": n}]),
           "K|parse_name_length_token|-|" + J([["uint:n"], {"n": n + 1}]), "K|parse_name_length_token|-|" + J([["uint:n"], {"n": n}]),
           "U|-|%s|%s|unpack|%s" % (J("uint:n, bits"), "1" * 400, J({"n": n})), "U|-|%s|%s|unpack|%s" % (J("uint:n, bits"), "1" * 400, J({"n": n + 5}))])
    # 7. option-reading values that do NOT go through the string cache: pack / Dtype.build / Array under every option order
    for seq in ([0, 1, 0], [1, 0, 1]):
        ops = []
        for v in seq:
            ops += ["O|mxfp|%d" % v, "P|-|%s|[1000.0,-1e6]|{}" % J("e4m3mxfp, e5m2mxfp"), "D|-|" + J(["e4m3mxfp", None, None, "dtype"]),
                    "A|-|e4m3mxfp|%s" % J([(1e6).hex(), (3.0).hex()]), "D|-|" + J(["e5m2mxfp", None, ["i", 2], "dtype"]),
                    "O|lsb0|%d" % v, "P|-|%s|[5,-5]|{}" % J("ue, se"), "U|-|%s|0010100110|unpack|{}" % J("ue, se"),
                    "U|-|%s|0010100110|read|{}" % J("ue"), "D|-|" + J(["ue", None, None, "dtype"]), "D|-|" + J(["sie", None, None, "dtype"])]
        H(ops)
    # 8. mutation of earlier results, every construction / derivation route that converts the string once
    for cls in ("BitArray", "BitStream"):
        for route in ["", "!f", "!p", "!a"] + E_ROUTES_ANY + E_ROUTES_MUT:
            segs = []
            for kind in MUT_KINDS:
                for tmpl in ("0xf0, uint:12=%d", "0b0000111101, 0x%x"):
                    uid[0] += 1
                    text = tmpl % (uid[0] % 4000)
                    s = "S|%s%s|-|%s" % (cls, route, text)
                    segs.append([s, "M|@0|%s" % kind, s, "S|Bits|-|" + text, "M|@2|%s" % kind, "B|Bits|_find|@0|" + J([0, 4, "0101"]),
                                 "S|ConstBitStream|-|" + text, "S|%s!eadd|-|%s" % (cls, text), "M|@7|%s" % kind, "S|Bits!f|-|" + text])
            out.append(_join(segs))
    # 9. lists of format items: every item is its own tokenparser / preprocess_tokens key, and is used alone afterwards
    pairs = [("uint:8", [5], "hex:8", ["ab"]), ("uint:4, int:4", [3, -2], "bin:3", ["101"]), ("2*uint:3", [1, 2], "bool, pad:2", [True]),
             ("ue", [3], "se, uint:5", [-2, 7]), (">hB", [1, 2], "float:32", [1.5]), ("hex", ["abc"], "oct:6", ["17"]),
             ("uint:12=7", [], "int:7", [-3])]
    for f1, v1, f2, v2 in pairs:
        bits1 = "1011001110001111010100110000111101011100"
        H(["P|-|%s|%s|{}" % (J([f1, f2]), J(v1 + v2)), "P|-|%s|%s|{}" % (J(f1), J(v1)), "K|tokenparser|-|" + J([[f1], {}]),
           "P|-|%s|%s|{}" % (J([f1, f2]), J(v1 + v2)), "P|-|%s|%s|{}" % (J([f2, f1, f2]), J(v2 + v1 + v2)), "P|-|%s|%s|{}" % (J(f2), J(v2)),
           "K|tokenparser|-|" + J([[f2], {}]), "K|preprocess_tokens|-|" + J([[f1], {}]),
           "U|-|%s|%s|unpack|{}" % (J([f1, f2]), bits1), "U|-|%s|%s|unpack|{}" % (J(f1), bits1), "U|-|%s|%s|readlist|{}" % (J([f2, f1]), bits1),
           "U|-|%s|%s|unpack|{}" % (J(f2), bits1), "K|preprocess_tokens|-|" + J([[f2], {}]), "P|-|%s|%s|{}" % (J(f1), J(v1))])
        H(["P|-|%s|%s|{}" % (J(f1), J(v1)), "P|-|%s|%s|{}" % (J([f1, f1]), J(v1 + v1)), "P|-|%s|%s|{}" % (J(f1), J(v1)),
           "P|-|%s|%s|{}" % (J([f1, f1, f1]), J(v1 + v1 + v1)), "P|-|%s|%s|{}" % (J(f1), J(v1)), "K|tokenparser|-|" + J([[f1], {}])])
    # 10. (a) the FIRST constructor of a string is each class / route in turn — token-less, whitespace and comma-only
    #     strings included — then the (mutable) result is changed in place and the same string is parsed again through
    #     every route
    def routes_of(cls):
        return ["", "!f", "!p", "!a"] + E_ROUTES_ANY + (E_ROUTES_MUT if cls in MUTABLE else [])
    for text in TOKENLESS[:4] + ["0b1", "0x0ff1ce5"]:
        for first in CLASS_NAMES:
            for kind in ("append1", "iadd3"):
                H(["S|%s|-|%s" % (first, text), "M|0|%s" % kind, "S|Bits|-|" + text, "S|BitArray|-|" + text,
                   "S|Bits!f|-|" + text, "S|BitStream!eadd|-|" + text, "S|ConstBitStream|-|" + text])
    every = [(c, r) for c in CLASS_NAMES for r in routes_of(c)]
    for first_cls in CLASS_NAMES:
        segs = []
        for ri, route in enumerate(routes_of(first_cls)):
            for ki, kind in enumerate(MUT_ON_EMPTY + ("invert", "reverse")):
                uid[0] += 1
                u = uid[0]
                texts = [" " * (u % 7) + "," * ((u // 7) % 5) + " " * ((u // 35) % 9) + ("," if u >= 315 else ""),
                         "0x%x, 0b%s" % (u + 16, format(u % 32, "05b"))]
                for text in texts:
                    first = "S|%s%s|-|%s" % (first_cls, route, text)
                    later = [every[(u * 7 + 5 * j) % len(every)] for j in range(7)]
                    segs.append([first, "M|@0|%s" % kind] + ["S|%s%s|-|%s" % (c, r, text) for c, r in later] +
                                ["S|Bits|-|" + text])
        out.append(_join(segs))
    # 11. (b) property assignment `a.<name> = value` (with and without a length suffix) on BitArray / BitStream for every
    #     dtype, then mutation of `a`, then the same (dtype, value) through every route; also keyword / pack first
    for sample in [("bool", None, True), ("bool", None, False), ("bool", 1, True), ("uint", 8, 5), ("hex", 8, "a5"), ("ue", None, 3),
                   ("e4m3mxfp", None, _F(1.5)), ("bits", 4, {"bits": "0101"}), ("float", 32, _F(1.5))]:
        for cls in MUTABLE:
            for route in ("prop", "propl"):
                ops = [n_op(route, cls, sample), "M|0|append1", n_op("kw", "Bits", sample), n_op("kw", "BitArray", sample),
                       n_op("pack", "Bits", sample), n_op("build", "Bits", sample), n_op(route, cls, sample)]
                if n_string(sample) is not None and sample[0] not in GOLOMB:
                    ops.append("S|Bits|-|" + n_string(sample))
                H(ops)
    for cls in MUTABLE:
        for route in ("prop", "propl", "kw", "kwl", "pack", "packkw"):
            segs = []
            for si, sample in enumerate(N_SAMPLES):
                if route not in ("prop", "propl") and (si + len(route)) % 2:
                    continue                         # the non-assignment first routes take every other sample
                for kind in (("append1", "invert") if route in ("prop", "propl") else ("append1",)):
                    other = MUTABLE[(MUTABLE.index(cls) + 1) % 2]
                    seg = [n_op(route, cls, sample), "M|@0|%s" % kind, n_op("kw", "Bits", sample), n_op("kw", "BitArray", sample),
                           n_op("kwl", "BitStream", sample), n_op("pack", "Bits", sample), n_op("packkw", "Bits", sample),
                           n_op("build", "Bits", sample), n_op("prop", other, sample), n_op("propl", cls, sample)]
                    st = n_string(sample)
                    if st is not None and sample[0] not in GOLOMB and not sample[0].startswith(("e4m3", "e5m2")):
                        seg.append("S|%s|-|%s" % (CLASS_NAMES[si % 4], st))
                    segs.append(seg)
            out.append(_join(segs))
    # 12. (c) formats that are LISTS holding Dtype objects (with / without scale, differing scales) and integers,
    #     alternating between formats that differ only in the scale
    i2, f2, i4, i1, f1, bt, fh = ["i", 2], ["f", "0x1.0000000000000p+1"], ["i", 4], ["i", 1], ["f", "0x1.0000000000000p+0"], \
        ["b", True], ["f", "0x1.0000000000000p-1"]
    spairs = [(None, i2), (i2, None), (i2, f2), (f2, i2), (i2, i4), (bt, i1), (i1, f1), (fh, i2), (None, f2), (f1, None)]
    bits40 = "1011001110001111010100110000111101011100"
    for sa, sb in spairs:
        da, db = {"d": ["uint8", None, sa]}, {"d": ["uint8", None, sb]}
        H(["U|-|%s|%s|unpack|{}" % (J([da, "bits"]), bits40), "U|-|%s|%s|unpack|{}" % (J([db, "bits"]), bits40),
           "U|-|%s|%s|unpack|{}" % (J([da, "bits"]), bits40)])
    for mode in ("unpack", "readlist", "peeklist"):
        segs, n = [], 2
        for sa, sb in spairs:
            for form in (0, 1):
                n += 1
                mk = (lambda sc: {"d": ["uint", n, sc]}) if form == 0 else (lambda sc: {"d": ["int%d" % n, None, sc]})
                da, db = mk(sa), mk(sb)
                segs.append(["U|-|%s|%s|%s|{}" % (J([da, "bits"]), bits40, mode), "U|-|%s|%s|%s|{}" % (J([db, "bits"]), bits40, mode),
                             "U|-|%s|%s|%s|{}" % (J([da, "bits"]), bits40, mode), "U|-|%s|%s|%s|{}" % (J([da, 3, "bin"]), bits40, mode),
                             "U|-|%s|%s|%s|{}" % (J([db, 3, "bin"]), bits40, mode), "U|-|%s|%s|%s|{}" % (J([3, db, da]), bits40, mode),
                             "U|-|%s|%s|%s|{}" % (J([3, da, db]), bits40, mode), "U|-|%s|%s|%s|{}" % (J(["uint:%d" % n, 3, "bin"]), bits40, mode)])
        out.append(_join(segs))
    # 13. (d) lengths supplied by keyword: same format string, same keyword names, different values, alternating
    kfmts = [("uint:width, hex:rest", [{"width": 4, "rest": 8}, {"width": 8, "rest": 8}, {"width": 4, "rest": 12}]),
             ("int:a, uint:b, bits", [{"a": 3, "b": 5}, {"a": 5, "b": 3}, {"a": 3, "b": 6}]),
             ("bin:width, uint:width", [{"width": 2}, {"width": 7}, {"width": 3}])]
    for fmt, kws in kfmts:
        for mode in ("unpack", "readlist", "peeklist"):
            seq = [kws[0], kws[1], kws[0], kws[2], kws[1]]
            H(["U|-|%s|%s|%s|%s" % (J(fmt), bits40, mode, J(kw)) for kw in seq])
        H(["U|-|%s|%s|%s|%s" % (J(fmt), bits40, mode, J(kw)) for kw in (kws[0], kws[1]) for mode in ("readlist", "unpack", "peeklist")])
    for fmt, seq in (("uint:width=a, hex:rest=b", [{"width": 4, "rest": 8, "a": 3, "b": "ab"}, {"width": 8, "rest": 8, "a": 3, "b": "ab"},
                                                    {"width": 4, "rest": 12, "a": 3, "b": "abc"}, {"width": 4, "rest": 8, "a": 5, "b": "cd"}]),
                     ("int:n, uint:n=v", [{"n": 4, "v": 3}, {"n": 9, "v": 3}, {"n": 4, "v": 7}])):
        ops = []
        for kw in seq + seq[:2]:
            vals = [1] if fmt.startswith("int:n") else []
            ops.append("P|-|%s|%s|%s" % (J(fmt), J(vals), J(kw)))
        H(ops)
    # 14. (i) Dtype(<Dtype OBJECT from an earlier creation>[, length], scale=…) — then the plain creation and every use of
    #     the same dtype: Dtype(...) again, keyword / pack / build construction, read / unpack, pack with a format
    bits40 = "1011001110001111010100110000111101011100"
    dsamples = [s_ for s_ in N_SAMPLES if s_[0] in ("uint", "int", "uintbe", "intle", "hex", "float", "bool", "ue", "e4m3mxfp", "bits", "u", "f")]
    sc2s = [["i", 4], ["f", "0x1.0000000000000p-1"], ["i", 0], ["b", True], ["f", "0x1.8000000000000p+1"]]
    for name, length, value in [("uint", 12, 5), ("bool", None, True), ("float", 32, _F(1.5))]:
        for sc2 in (["i", 4], ["i", 0]):
            tok = name + (str(length) if length else "")
            H(["D|-|" + J([tok, None, None, "obj", sc2, None]), "D|-|" + J([tok, None, None, "dtype"]),
               n_op("kw", "Bits", (name, length, value)), "U|-|%s|%s|read|{}" % (J(tok), bits40), n_op("build", "Bits", (name, length, value))])
    for form in (0, 1, 2):
        segs = []
        for si, (name, length, value) in enumerate(dsamples):
            for sc2 in sc2s:
                uid[0] += 1
                ln = length
                if name in ("uint", "int", "u", "bits") and length is not None:
                    ln = 2 + (uid[0] % 60)                          # an entry of its own for every segment
                    value = 1 if name != "bits" else {"bits": format(uid[0] % (1 << ln), "0%db" % ln)}
                sample = (name, ln, value)
                if form == 0 or ln is None:
                    d0 = [name + (str(ln) if ln is not None else ""), None]
                elif form == 1:
                    d0 = [name, ln]
                else:
                    d0 = ["%s:%d" % (name, ln), None]
                tokfmt = name + (":%d" % ln if ln is not None else "")
                len2 = None if si % 3 else (ln if ln is not None else 8)
                seg = ["D|-|" + J(d0 + [None, "dtype"]), "D|-|" + J(d0 + [None, "obj", sc2, len2]), "D|-|" + J(d0 + [None, "dtype"]),
                       n_op("kw", "Bits", sample), n_op("kwl", "BitArray", sample), n_op("pack", "Bits", sample), n_op("build", "Bits", sample),
                       n_op("prop", "BitArray", sample), "U|-|%s|%s|read|{}" % (J(tokfmt), bits40),
                       "U|-|%s|%s|unpack|{}" % (J(tokfmt + ", bits"), bits40), "U|-|%s|%s|readlist|{}" % (J([{"d": d0 + [None]}, "bits"]), bits40),
                       "D|-|" + J(d0 + [sc2, "dtype"]), "D|-|" + J(d0 + [sc2, "obj", None, None]), "D|-|" + J(d0 + [sc2, "dtype"]),
                       "D|-|" + J(d0 + [None, "dtype"])]
                segs.append(seg)
        out.append(_join(segs))
    # 15. (ii) a call that is expected to RAISE (keyword missing or misnamed, malformed token, wrong arity, bad value),
    #     then the same format / token / dtype used correctly: the correct call must give its cold-cache result
    pairs = []
    for mode in ("unpack", "readlist", "peeklist"):
        for fmt, kw in (("uint:n, bits", {"n": 8}), ("int:width, hex:rest", {"width": 4, "rest": 8}), ("bin:n", {"n": 5}),
                        ("2*uint:n, bits:n", {"n": 3})):
            good = "U|-|%s|%s|%s|%s" % (J(fmt), bits40, mode, J(kw))
            pairs.append(("U|-|%s|%s|%s|{}" % (J(fmt), bits40, mode), good))                                      # keyword missing
            pairs.append(("U|-|%s|%s|%s|%s" % (J(fmt), bits40, mode, J({k + "x": v for k, v in kw.items()})), good))   # misnamed
            pairs.append(("U|-|%s|%s|%s|%s" % (J(fmt), bits40, mode, J({k: "q" for k in kw})), good))              # not a number
            pairs.append(("U|-|%s|%s|%s|%s" % (J([fmt, "uint:zz"]), bits40, mode, J(kw)), good))                   # other item bad
        pairs.append(("U|-|%s|%s|%s|{}" % (J("uint:8,, foo:3"), bits40, mode), "U|-|%s|%s|%s|{}" % (J("uint:8"), bits40, mode)))
        pairs.append(("U|-|%s|-|%s|{}" % (J("uint:8, hex:8"), mode), "U|-|%s|%s|%s|{}" % (J("uint:8, hex:8"), bits40, mode)))  # too few bits
    for fmt, vals, kw, badvals, badkw in (("uint:n=a, int:n", [1], {"n": 4, "a": 3}, [1], {"a": 3}),
                                          ("uint:8, hex:8", [5, "ab"], {}, [5], {}), ("uint:8, hex:8", [5, "ab"], {}, [5, "ab", 7], {}),
                                          ("uint:8", [5], {}, [256], {}), ("hex:n", ["ab"], {"n": 8}, ["ab"], {"n": 7}),
                                          ("bits:n", [{"bits": 1}], {"n": 3}, [], {"n": 3})):
        if any(isinstance(v, dict) for v in vals):
            continue
        pairs.append(("P|-|%s|%s|%s" % (J(fmt), J(badvals), J(badkw)), "P|-|%s|%s|%s" % (J(fmt), J(vals), J(kw))))
    pairs += [("K|parse_name_length_token|-|" + J([["uint:n"], {}]), "K|parse_name_length_token|-|" + J([["uint:n"], {"n": 8}])),
              ("K|parse_name_length_token|-|" + J([["uint:n"], {"m": 8}]), "K|parse_name_length_token|-|" + J([["uint:n"], {"n": 8}])),
              ("K|tokenparser|-|" + J([["uint:n=a"], {}]), "K|tokenparser|-|" + J([["uint:n=a", ["a", "n"]], {}])),
              ("K|preprocess_tokens|-|" + J([["2*(uint:8"], {}]), "K|preprocess_tokens|-|" + J([["2*(uint:8)"], {}])),
              ("K|parse_single_struct_token|-|" + J([[">hh"], {}]), "K|parse_single_struct_token|-|" + J([[">h"], {}])),
              ("D|-|" + J(["uint", 8, ["i", 0], "dtype"]), "D|-|" + J(["uint", 8, None, "dtype"])),
              ("D|-|" + J(["uint", 8, ["i", 0], "dtype"]), "D|-|" + J(["uint", 8, ["i", 2], "dtype"])),
              ("D|-|" + J(["float", 17, None, "dtype"]), "D|-|" + J(["float", 16, None, "dtype"])),
              ("D|-|" + J(["bool", 2, None, "dtype"]), "D|-|" + J(["bool", None, None, "dtype"])),
              ("D|-|" + J(["ue", 3, None, "dtype"]), "D|-|" + J(["ue", None, None, "dtype"])),
              ("D|-|" + J(["uint:x", None, None, "dtype"]), "D|-|" + J(["uint:8", None, None, "dtype"])),
              ("D|-|" + J(["uint", 8, None, "obj", ["i", 0], None]), "D|-|" + J(["uint", 8, None, "dtype"])),
              (n_op("kw", "Bits", ("uint", 8, 256)), n_op("kw", "Bits", ("uint", 8, 255))),
              (n_op("prop", "BitArray", ("hex", 7, "ab")), n_op("prop", "BitArray", ("hex", 8, "ab"))),
              (n_op("pack", "Bits", ("bool", None, 2)), n_op("pack", "Bits", ("bool", None, 1))),
              (n_op("build", "Bits", ("e3m2mxfp", None, _F(float("nan")))), n_op("build", "Bits", ("e3m2mxfp", None, _F(1.5)))),
              ("S|Bits|e|uint:8=256", "S|Bits|-|uint:8=255"), ("S|BitArray|e|0xg, 0b1", "S|BitArray|-|0xf, 0b1"),
              ("A|-|uint8|%s" % J([(1.0).hex()]), "A|-|float16|%s" % J([(1.0).hex()])),
              ("A|-|e4m3mxfp|[]", "A|-|e4m3mxfp|%s" % J([(3.0).hex()]))]
    for bad, good in pairs:
        H([bad, good, bad, good])
        H([good, bad, good])
    # 16. Dtype objects kept from BEFORE an eviction storm (> maxsize other creations) compared — ==, !=, hash, set / dict /
    #     list membership — with the same dtype created after it, in every spelling
    capd = max(dict(_GEN["sizes"]).get("Dtype._create", 256), dict(_GEN["sizes"]).get("Dtype._new_from_token", 256))
    kept = [["uint8", None, None, "dtype"], ["uint", 8, None, "dtype"], ["uint:8", None, None, "dtype"], ["float", 32, None, "dtype"],
            ["float32", None, None, "dtype"], ["bool", None, None, "dtype"], ["hex:12", None, None, "dtype"], ["hex", 12, None, "dtype"],
            ["int7", None, ["i", 2], "dtype"], ["int", 7, ["i", 2], "dtype"], ["ue", None, None, "dtype"], ["e4m3mxfp", None, None, "dtype"]]
    same = {0: [0, 1, 2], 1: [0, 1, 2], 2: [0, 1, 2], 3: [3, 4], 4: [3, 4], 5: [5], 6: [6, 7], 7: [6, 7], 8: [8, 9], 9: [8, 9], 10: [10], 11: [11]}
    for storm in (0, min(capd + 16, 600)):
        ops = ["D|-|" + J(k_) for k_ in kept]
        cmp_ops = []
        for i, k_ in enumerate(kept):
            for j in same[i]:
                cmp_ops.append("E|-|%d|%s|%s" % (i, J(k_), J(kept[j])))
            cmp_ops.append("E|-|%d|%s|%s" % (i, J(k_), J(kept[(i + 3) % len(kept)])))      # a different dtype: must stay unequal
        ops += cmp_ops
        for n in range(storm):
            ops.append("D|-|" + J(["uint" if n % 2 else "int", 100 + n, None, "dtype"]) if n % 3 else
                       "D|-|" + J(["bits%d" % (100 + n), None, None, "dtype"]))
        ops += cmp_ops
        H(ops)
    # 17. pack with option-reading values written in the format string, passed as strings and as keyword strings, under
    #     one option value, the other, and the first again — no cache is cleared by the harness in between
    for opt, texts in (("mxfp", ["e4m3mxfp=1000", "e5m2mxfp=-1e9", "e4m3mxfp=inf, uint:4=3", "2*e5m2mxfp=70000"]),
                       ("lsb0", ["ue=3", "se=-3", "uie=7, 0x1", "sie=-7", "uint:4=3, ue=12"])):
        for text in texts:
            for start in (0, 1):
                p1 = "P|-|%s|[]|{}" % J(text)
                H(["O|%s|%d" % (opt, start), p1, "O|%s|%d" % (opt, 1 - start), p1, "O|%s|%d" % (opt, start), p1,
                   "S|Bits|%s|%s" % ("m" if opt == "mxfp" else "l", text), "O|%s|%d" % (opt, 1 - start), p1])
    for opt, fmt, vals, kw in (("mxfp", "e4m3mxfp, e5m2mxfp", ["1000", "-1e9"], {}), ("mxfp", "e4m3mxfp=a, uint:8", [5], {"a": "inf"}),
                               ("mxfp", "e5m2mxfp=a", [], {"a": "1e6"}), ("lsb0", "ue, sie", ["3", "-4"], {}),
                               ("lsb0", "se=a, bool", [True], {"a": "-9"}), ("lsb0", "uie", ["12"], {})):
        for start in (0, 1):
            p1 = "P|-|%s|%s|%s" % (J(fmt), J(vals), J(kw))
            H(["O|%s|%d" % (opt, start), p1, "O|%s|%d" % (opt, 1 - start), p1, "O|%s|%d" % (opt, start), p1, p1,
               "O|%s|%d" % (opt, 1 - start), p1])
    return out


def gen(rng, tier):
    big = tier != "quick"
    for l in targeted(rng, tier):
        yield l
    plans = []
    for focus in ("str", "fmt", "tok1", "nl", "struct", "newtok", "create", "mixed"):
        for (flips, safe) in ((0.0, True), (0.01, True), (0.01, False), (0.05, False)):
            plans.append((focus, flips, safe))
    reps = 6 if big else 1
    for rep in range(reps):
        for (focus, flips, safe) in plans:
            length = rng.choice([450, 600, 800, 1000]) if not big else rng.choice([450, 700, 1000, 1500, 2000])
            if focus != "fmt":
                length = max(length, 800)
            yield history(rng, length, focus, flips, safe)
        if rep == 0:
            yield history(rng, 300, "mixed", 0.02, False)
            yield history(rng, 2000, "str", 0.01, False)
    # short random histories: many option assignments, small key pools (dense re-use)
    for _ in range(1500 if big else 200):
        yield history(rng, rng.randint(8, 60), rng.choice(["str", "mixed", "str"]), rng.choice([0.1, 0.25, 0.4]), rng.random() < 0.3)


def search(rng):
    return gen(rng, "thorough")


if _IS_ZYGOTE:
    try:
        _zygote_loop(_Z[0], _Z[1])
    finally:
        os._exit(0)
