"""C20 — well-typed misuse fails cleanly and never corrupts an object.

lines:
  C20 <op> <bits> <args...>            the operations that have a Lean model (shifts, *=, insert, overwrite, rol, ror,
                                       invert, byteswap): out = ok <bits> [n] | err documented | err internal
  C20 fuzz <target> <seed> <steps> <lsb0>
                                       a deterministic sequence of <steps> public calls on ONE object of <target>
                                       (Bits BitArray ConstBitStream BitStream Array Dtype pack), arguments drawn from the
                                       documented types with adversarial values; out = ok | err internal
extra (fuzz): the first offending call, with the exception class or the validity predicate that failed.
"""
from harness.common import *
import io, inspect, random as _random, copy as _copy, array as _array, os

FUNCTIONAL = False
LEVEL_TEXT = ("Lean theorems: the asserts (and the division) in the private helpers _absolute_slice, _truncateleft/right, _insert, "
              "_overwrite, _delete, _reversebytes, _invert, _ilshift/_irshift, _imul are modelled as internal errors and shown "
              "unreachable from the public entry points <<, >>, <<=, >>=, *=, insert, overwrite (self included), rol/ror (empty "
              "ranges included), invert, byteswap for ALL argument values; stream positions stay valid under pos=, bytealign, "
              "read(n). Correspondence on those operations; for the rest of the API an exception-class and validity monitor over "
              "introspected public callables with adversarial arguments (testing that supports the search, not a proof).")
LEVEL_NOTE = ("Partial: theorems cover the modelled entry points listed above (evidence lists them); every other public callable "
              "is covered only by the fuzz monitor. Trusted: Lean kernel (+propext, Classical.choice, Quot.sound); the "
              "transcription of guards and asserts (tied by the correspondence run).")
TECHNIQUE = "Lean 4 proof (assert unreachability from public entry points) + introspection-driven exception/validity monitor"

DOC_EXC = (ValueError, IndexError, TypeError, bitstring.Error, OSError)


def _cls3(e):
    if isinstance(e, DOC_EXC):
        return "documented"
    return "internal"


def _g(thunk):
    try:
        r = thunk()
    except RecursionError:
        return "err internal"
    except Exception as e:                       # noqa: BLE001
        return "err " + _cls3(e)
    return r


def _opt(s):
    return None if s == "None" else int(s)


def execute(line):
    f = line.split(SEP)
    op = f[1]
    if op == "fuzz":
        return _fuzz(f[2], int(f[3]), int(f[4]), f[5] == "1")
    a = BitArray(bin=unwire(f[2])) if unwire(f[2]) else BitArray()
    def fin(r):
        return r if isinstance(r, str) else "ok " + wire(a)
    if op == "lshift":
        r = _g(lambda: a << int(f[3]))
        return (r if isinstance(r, str) else "ok " + wire(r)), {}
    if op == "rshift":
        r = _g(lambda: a >> int(f[3]))
        return (r if isinstance(r, str) else "ok " + wire(r)), {}
    if op == "ilshift":
        return fin(_g(lambda: a.__ilshift__(int(f[3])))), {}
    if op == "irshift":
        return fin(_g(lambda: a.__irshift__(int(f[3])))), {}
    if op == "imul":
        return fin(_g(lambda: a.__imul__(int(f[3])))), {}
    if op == "insert":
        b = BitArray(bin=unwire(f[3])) if unwire(f[3]) else BitArray()
        return fin(_g(lambda: a.insert(b, int(f[4])))), {}
    if op == "overwrite":
        b = a if f[5] == "1" else (BitArray(bin=unwire(f[3])) if unwire(f[3]) else BitArray())
        return fin(_g(lambda: a.overwrite(b, int(f[4])))), {}
    if op in ("rol", "ror"):
        return fin(_g(lambda: getattr(a, op)(int(f[3]), _opt(f[4]), _opt(f[5])))), {}
    if op == "invert":
        return fin(_g(lambda: a.invert(int(f[3])))), {}
    if op == "byteswap":
        r = _g(lambda: a.byteswap(int(f[3]), _opt(f[4]), _opt(f[5]), f[6] == "1"))
        return (r if isinstance(r, str) else f"ok {wire(a)} {r}"), {}
    raise ValueError(line)


# ------------------------------------------------------------------------------------------------ fuzz monitor
BITSY_STR = ["0b1", "0x", "", "0b", "0b0110", "0xabc", "0o17", "uint:8=300", "uint:8=3", "hello", "0xzz", "ue=-1", "ue=4", "float:17=1",
             "float:32=1.5", "int:3=-5", "bin:2=01", "hex:8=ff", "bits:4=0xf", "2*0b1", "3*(0b1, 0x2)", "(((", "bytes:1=a", "bool=2", "pad:3",
             "0b1,,0b1", " 0 b 1 ", "0B1", "e4m3mxfp=1e9", "mxint=0.5", "sie=3", "uintle:12=1", "intbe:16=-40000"]
FMTS = [0, 1, 3, 8, -1, 10 ** 6, "uint:8", "hex", "bin:3, uint:5", "ue", ">H", "<2hb", "3*(u4)", "", "foo", "uint:-1", "(((", "bits", "bytes:1", "float:32",
        "pad:3", "bool", "int:4, bits", "bits, int:4", "bits, bits", "ue, bits, ue", "hex:3", "oct:4", "float:24", "u7", "i1", "bin", "bytes", "2*bool",
        "uint:n", "=d", "@i", "e5m2mxfp", "mxint", "bfloat", "0*u8", "1000*u1", ["u4", "bin:1"], [], "sie", "bits:0", "u0",
        "pad:100", "u8, pad:9", "pad:1, pad:40", "pad:9", ["pad:17"], "bool, pad:64", "pad:7, pad:7, pad:7"]
PP_FMTS = [None, "bin", "hex", "oct", "bytes", "bin, hex", "hex, bin", "oct:0", "hex:0", "bin:0", "bytes:0", "bin:3", "hex:12", "u8", "i4, hex:4", "float16",
           "foo", "bin, hex, oct", "ue", "bin:8, hex:4", "bits:4", "bool", ""]
SEPS = [" ", "", "_", ", ", "<->"]
DTYPES = ["u8", "int:4", "float16", "hex4", "bytes2", "bool", ">H", "<i", "foo", "ue", "u1", "i65", "e4m3mxfp", "bfloat", "bin3", "oct2", "uintle:24", "float:17", "bits3", "pad8", "u0", ""]


def _mangle(r, t):
    """a token / format string with one or two characters inserted, deleted or replaced (malformed-token stream); other
    values are returned unchanged"""
    if not isinstance(t, str) or r.random() > 0.3:
        return t
    alphabet = "*(),:=0123456789 abxun-+<>@"
    t = list(t)
    for _ in range(r.choice([1, 1, 2])):
        k = r.random()
        i = r.randint(0, len(t))
        if k < 0.4 or not t:
            t.insert(i, r.choice(alphabet))
        elif k < 0.7:
            del t[min(i, len(t) - 1)]
        else:
            t[min(i, len(t) - 1)] = r.choice(alphabet)
    return "".join(t)


BRACKETS = ["n*(uint:8)", "*(0b1)", "a*(0b1)", "2*(", "*(", ")(", "3*()", "(0b1)*2", "2 * (0b1)", "2*(3*(0b1), 0x2)", "2*(0b1", "0b1)", "-1*(0b1)",
            "2*(u8, n*(u4))", "(0b1)", "()", "2*(*(0b1))"]


def _ints(r, n):
    return r.choice([-n - 1, -n, -1, 0, 1, 2, 7, 8, 9, n - 1, n, n + 1, 2 * n, 10 ** 6, -10 ** 6, r.randint(-n - 2, n + 2), None])


def _bitsy(r, obj):
    k = r.random()
    if k < 0.25:
        n = r.choice([0, 1, 3, 8, 16, 17])
        return r.choice([Bits, BitArray, ConstBitStream, BitStream])(bin="".join(r.choice("01") for _ in range(n))) if n else Bits()
    if k < 0.32 and isinstance(obj, Bits):
        return obj
    if k < 0.7:
        return _mangle(r, r.choice(BITSY_STR + BRACKETS))
    if k < 0.78:
        return bytes(r.getrandbits(8) for _ in range(r.choice([0, 1, 2, 3])))
    if k < 0.84:
        return bytearray(b"\x0f\xf0")
    if k < 0.9:
        return r.choice([[1, 0, 1], [], (True, False), [0], "", range(3)])
    if k < 0.95:
        return bitarray.bitarray("1101")
    return r.choice([io.BytesIO(b"\xab\xcd"), _array.array("B", [1, 2]), memoryview(b"\x01")])


def _arg(r, name, obj, n):
    nm = name.lower()
    if nm in ("bs", "prefix", "suffix", "delimiter", "old", "new", "auto", "trailing_bits", "b"):
        return _bitsy(r, obj)
    if nm in ("start", "end", "bits", "n", "count", "length", "offset", "i", "index", "bytepos", "items"):
        return _ints(r, n)
    if nm == "pos":
        k = r.random()
        if k < 0.6:
            return _ints(r, n)
        return r.choice([[0, -1], [], [n], (1, 2), range(0, n, 2), range(n, 0, -1), [n + 5], range(3), [-n - 1], iter([0])])
    if nm == "width":
        return r.choice([120, 0, -1, 1, 7, 10, 40, 200, 10 ** 6])
    if nm in ("bytealigned", "repeat", "show_offset"):
        return r.choice([None, True, False])
    if nm == "value":
        return r.choice([0, 1, True, False, 2, -1, "1", None])
    if nm == "fmt":
        return _mangle(r, r.choice(FMTS + BRACKETS))
    if nm == "sep":
        return r.choice(SEPS)
    if nm == "sequence":
        return [_bitsy(r, obj) for _ in range(r.choice([0, 1, 3]))]
    if nm in ("f",):
        # file objects that accept the bytes, and ones on which the write / read fails (closed, read-only, text mode)
        k = r.random()
        if k < 0.55:
            return io.BytesIO(bytes(r.getrandbits(8) for _ in range(r.choice([0, 0, 1, 3, 8]))))
        if k < 0.7:
            f = io.BytesIO(); f.close(); return f
        if k < 0.85:
            return open(os.devnull, "rb")
        return io.StringIO()
    if nm == "stream":
        return io.StringIO()
    if nm == "s":
        return _mangle(r, r.choice(BITSY_STR + BRACKETS))
    if nm in ("dtype", "token"):
        return _mangle(r, r.choice(DTYPES))
    if nm in ("iterable", "initializer", "x"):
        return r.choice([[1, 2, 3], [], [300, -1], ["a"], (1.5, 2.5), b"\x01\x02", _array.array("H", [1, 2]), Bits("0xff"), 3, 0, -1, [float("nan")], range(4)])
    if nm == "key":
        k = r.random()
        if k < 0.5:
            v = _ints(r, n)
            return 0 if v is None else v
        return slice(_ints(r, n), _ints(r, n), r.choice([None, 1, -1, 2, -2, 0, n + 1, -n - 1]))
    if nm == "scale":
        return r.choice([None, 2, 0.5, 0, "auto", -1])
    if nm == "other":
        return r.choice([3, -1, 0, 2.5, "x", None, [1], Bits("0b1")])
    return r.choice([0, 1, -1, None, "0b1", 8])


DUNDERS = ["__getitem__", "__add__", "__radd__", "__mul__", "__rmul__", "__and__", "__or__", "__xor__", "__invert__", "__lshift__", "__rshift__",
           "__contains__", "__eq__", "__ne__", "__hash__", "__len__", "__iter__", "__bool__", "__copy__", "__str__", "__repr__", "__bytes__",
           "__lt__", "__ge__"]
MUT_DUNDERS = ["__setitem__", "__delitem__", "__iadd__", "__imul__", "__ilshift__", "__irshift__", "__iand__", "__ior__", "__ixor__"]
READ_PROPS = ["uint", "int", "hex", "bin", "oct", "bytes", "float", "floatle", "bfloat", "ue", "se", "uie", "sie", "bool", "uintle", "intbe", "uintne",
              "p3binary", "e4m3mxfp", "e2m1mxfp", "mxint", "e8m0mxfp", "len", "length", "u8", "i3", "f16", "h", "b", "bits"]
SET_PROPS = {"uint": [0, 5, -1, 2 ** 70], "int": [-1, 7, 2 ** 70], "hex": ["ff", "0xg", ""], "bin": ["01", "2", ""], "oct": ["7", "8"], "bytes": [b"ab", b""],
             "float": [1.5, float("nan"), 1e400], "bool": [True, 2], "ue": [3, -3], "sie": [-4], "uintle": [1], "u8": [3, 256], "bits": ["0b1", Bits("0x1")],
             "e4m3mxfp": [1e9], "mxint": [0.3]}


def _callables(obj):
    cls = type(obj)
    names = [n for n in dir(cls) if not n.startswith("_") and callable(getattr(cls, n, None))]
    names += [d for d in DUNDERS if hasattr(cls, d)]
    if isinstance(obj, (BitArray, bitstring.Array)):
        names += [d for d in MUT_DUNDERS if hasattr(cls, d)]
    if isinstance(obj, bitstring.Array):
        names += [d for d in ARRAY_DUNDERS if hasattr(cls, d)]
    return sorted(set(names))


ARRAY_DUNDERS = ["__sub__", "__rsub__", "__floordiv__", "__truediv__", "__mod__", "__neg__", "__abs__", "__isub__", "__ifloordiv__",
                 "__itruediv__", "__imod__", "__gt__", "__le__", "__rshift__", "__lshift__", "__irshift__", "__ilshift__"]


def _array_operand(r, obj):
    """right operand of an Array operator: scalars (zero included), and Arrays of the same / another length and dtype whose
    data contains zeros"""
    k = r.random()
    if k < 0.45:
        return r.choice([3, -1, 0, 2.5, 0.0, "x", None, [1], Bits("0b1"), 10 ** 30, float("inf"), float("nan")])
    n = len(obj) if k < 0.85 else r.choice([0, 1, len(obj) + 1])
    dt = r.choice([obj.dtype, obj.dtype, "u8", "i16", "float32", "float16", "bool"])
    try:
        other = bitstring.Array(dt)
        other.data = BitArray(length=n * other.itemsize)            # all items zero
        if n and r.random() < 0.6:
            other.data.overwrite(BitArray(bin="".join(r.choice("01") for _ in range(other.itemsize))), 0)   # first item random
        return other
    except Exception:                                              # noqa: BLE001
        return 0


def _valid(obj, snap):
    """validity predicates after a call; returns None or a description"""
    if isinstance(obj, Bits):
        try:
            b = obj.bin
        except Exception as e:                   # noqa: BLE001
            return f"reading .bin raised {type(e).__name__}"
        if len(obj) != len(b):
            return f"len(s)={len(obj)} but len(s.bin)={len(b)}"
        if hasattr(obj, "pos") and not (0 <= obj.pos <= len(obj)):
            return f"pos={obj.pos} outside [0, {len(obj)}]"
        if not isinstance(obj, BitArray) and b != snap:
            return f"immutable object changed from {wire(snap)} to {wire(b)}"
    elif isinstance(obj, bitstring.Array):
        if len(obj.data) != len(obj.data.bin):
            return "Array data length inconsistent"
        if obj.itemsize <= 0:
            return "Array itemsize <= 0"
    return None


def _fuzz(target, seed, steps, lsb0):
    r = _random.Random(seed)
    nc0 = _random.Random(seed ^ 0x5eed).random() < 0.5          # own generator: the main random stream is unchanged
    opts0 = (lsb0, r.choice([False, True]), r.choice(["saturate", "overflow"]))
    with options(lsb0=opts0[0], bytealigned=opts0[1], mxfp_overflow=opts0[2], no_color=nc0):
        n0 = r.choice([0, 1, 7, 8, 13, 16, 24, 33])
        init = "".join(r.choice("01") for _ in range(n0))
        forced = None
        if target in ("ConstBitStream", "BitStream") and not opts0[0] and r.random() < 0.2:
            # a stream that ends in an exp-Golomb code cut short by 1-3 bits, positioned at the start of that code; the first
            # call reads it
            v = r.choice([3, 4, 7, 8, 20, 100, 1000, 2 ** 20])
            code = Bits(**{r.choice(["ue", "se", "uie", "sie"]): v}).bin
            cut = code[:max(1, len(code) - r.choice([1, 1, 2, 3]))]
            init = init + cut
            forced = (len(init) - len(cut), r.choice(["read", "readlist", "peek", "peeklist"]), r.choice(["ue", "se", "uie", "sie"]))
            n0 = len(init)
        try:
            if target in CLASSES:
                obj = CLASSES[target](bin=init) if init else CLASSES[target]()
                if hasattr(obj, "pos") and n0:
                    obj.pos = r.choice([n0, n0, 0, r.randint(0, n0)])
                if forced:
                    obj.pos = forced[0]
            elif target == "Array":
                obj = bitstring.Array(r.choice(["u8", "i4", "float16", "hex2", "bool", ">H", "bytes1", "e4m3mxfp", "u13"]), None)
                obj.data = BitArray(bin=init) if init else BitArray()
            elif target == "Dtype":
                obj = None
            elif target == "pack":
                obj = None
        except Exception as e:                   # noqa: BLE001
            return "ok", {"note": "setup raised " + type(e).__name__}
        snap = obj.bin if isinstance(obj, Bits) else None
        log = []
        for step in range(steps):
            n = len(obj) if isinstance(obj, Bits) else (len(obj.data) if obj is not None and hasattr(obj, "data") else 8)
            desc, thunk, involved = None, None, []
            if target == "Dtype":
                a1, a2, a3 = r.choice(DTYPES + ["uint", "float", "bytes", "hex"]), r.choice([None, 0, 1, 8, 16, 17, -1, 64, 10 ** 6]), r.choice([None, None, 2, 0.5, 0])
                mode = r.choice(["new", "build", "parse", "str"])
                def thunk(a1=a1, a2=a2, a3=a3, mode=mode):
                    d = bitstring.Dtype(a1, a2, a3) if (a2 is not None or a3 is not None) else bitstring.Dtype(a1)
                    if mode == "build":
                        return d.build(r.choice([0, 1, -1, 255, 256, "ff", 1.5, b"a", "0b1", None]))
                    if mode == "parse":
                        return d.parse(_bitsy(r, None))
                    if mode == "str":
                        return (str(d), repr(d), d.bitlength, d.length, d.name, hash(d), d == d)
                    return d
                desc = f"Dtype({a1!r}, {a2!r}, scale={a3!r}).{mode}"
            elif target == "pack":
                fmt = r.choice(FMTS[6:])
                vals = [r.choice([0, 1, -1, 255, 256, "0xf", 1.5, b"a", Bits("0b1"), None, "ff", True]) for _ in range(r.choice([0, 1, 2, 3]))]
                kw = r.choice([{}, {"n": 8}, {"n": -1}, {"n": "x"}, {"a": 3}])
                thunk = lambda fmt=fmt, vals=vals, kw=kw: bitstring.pack(fmt, *vals, **kw)
                desc = f"pack({fmt!r}, *{vals!r}, **{kw!r})"
            elif target in CLASSES and _random.Random(seed * 17 + step).random() < 0.06:
                # a constructor call of the same class with an 'auto' source and arbitrary length / offset / pos
                rc_ = _random.Random(seed * 17 + step + 1)
                src_ = rc_.choice([_bitsy(rc_, obj), io.BytesIO(bytes(rc_.getrandbits(8) for _ in range(rc_.choice([0, 1, 2, 5])))),
                                   bytes(rc_.getrandbits(8) for _ in range(rc_.choice([0, 1, 3]))), bitarray.bitarray("10110"), 7, -1, None])
                kw_ = {}
                if rc_.random() < 0.7:
                    kw_["length"] = _ints(rc_, 16)
                if rc_.random() < 0.7:
                    kw_["offset"] = _ints(rc_, 16)
                if target in ("ConstBitStream", "BitStream") and rc_.random() < 0.3:
                    kw_["pos"] = _ints(rc_, 16)
                kw_ = {k_: v_ for k_, v_ in kw_.items() if v_ is not None}
                thunk = lambda src_=src_, kw_=kw_: CLASSES[target](src_, **kw_)
                desc = f"{target}({type(src_).__name__}, **{kw_!r})"
            elif forced and step == 0:
                fn, a0 = getattr(obj, forced[1]), forced[2]
                thunk = lambda fn=fn, a0=a0: fn(a0)
                desc = f".{forced[1]}({a0!r})"
            else:
                k = r.random()
                if k < 0.08 and isinstance(obj, Bits):
                    p = r.choice(READ_PROPS)
                    thunk = lambda p=p: getattr(obj, p)
                    desc = f".{p}"
                elif k < 0.14 and isinstance(obj, BitArray):
                    p = r.choice(list(SET_PROPS))
                    v = r.choice(SET_PROPS[p])
                    thunk = lambda p=p, v=v: setattr(obj, p, v)
                    desc = f".{p} = {v!r}"
                elif k < 0.18 and hasattr(obj, "pos"):
                    p, v = r.choice(["pos", "bytepos", "bitpos"]), _ints(r, n)
                    thunk = lambda p=p, v=v: setattr(obj, p, v)
                    desc = f".{p} = {v!r}"
                else:
                    name = r.choice(_callables(obj))
                    fn = getattr(obj, name)
                    try:
                        sig = inspect.signature(fn)
                        params = [p for p in sig.parameters.values() if p.kind in (p.POSITIONAL_ONLY, p.POSITIONAL_OR_KEYWORD)]
                    except (TypeError, ValueError):
                        params = []
                    if name in ("__getitem__", "__delitem__"):
                        args = [_arg(r, "key", obj, n)]
                    elif name == "__setitem__":
                        args = [_arg(r, "key", obj, n), r.choice([0, 1, "0b1", "0b101", 2, -1, Bits(), "", "", Bits(), 255, [1, 0], []])]
                    elif name in ("__mul__", "__rmul__", "__imul__"):
                        args = [r.choice([-1, 0, 1, 2, 3, 17])]
                    elif name in ("__lshift__", "__rshift__", "__ilshift__", "__irshift__"):
                        args = [_ints(r, n) if r.random() < 0.9 else 0]
                        args = [0 if args[0] is None else args[0]]
                    elif isinstance(obj, bitstring.Array) and (name in ARRAY_DUNDERS or name in (
                            "__add__", "__radd__", "__mul__", "__rmul__", "__and__", "__or__", "__xor__", "__iadd__", "__imul__", "__iand__",
                            "__ior__", "__ixor__", "__eq__", "__ne__", "__lt__", "__ge__")):
                        args = [] if name in ("__neg__", "__abs__") else [_array_operand(r, obj)]
                    elif name in ("__add__", "__radd__", "__and__", "__or__", "__xor__", "__iadd__", "__iand__", "__ior__", "__ixor__", "__contains__",
                                  "__eq__", "__ne__", "__lt__", "__ge__"):
                        args = [_bitsy(r, obj) if r.random() < 0.85 else r.choice([3, None, 2.5, object()])]
                    else:
                        args = []
                        for p in params:
                            if p.default is not inspect.Parameter.empty and r.random() < 0.45:
                                break
                            if name == "pp" and p.name == "fmt":
                                args.append(_mangle(r, r.choice(PP_FMTS + BRACKETS[:6])))
                            else:
                                args.append(_arg(r, p.name, obj, n))
                    flip_ = _random.Random(seed * 31 + step).choice([0, 0, 0, 1, 2]) if name in ("findall", "cut", "split") else 0
                    def thunk(fn=fn, args=args, name=name, flip_=flip_):
                        kw = {"stream": io.StringIO()} if name == "pp" and len(args) < len(params) else {}
                        res = fn(*args, **kw)
                        if hasattr(res, "__next__"):                 # drain generators (cut, split, findall)
                            if flip_:
                                # … after the caller has switched an option and before switching it back: the iterator
                                # may be advanced at any later time
                                o_ = bitstring.options
                                keep_ = (o_.lsb0, o_.bytealigned)
                                try:
                                    o_.lsb0, o_.bytealigned = (not keep_[0]) if flip_ == 1 else keep_[0], (not keep_[1]) if flip_ == 2 else keep_[1]
                                    res = [x for _, x in zip(range(2000), res)]
                                finally:
                                    o_.lsb0, o_.bytealigned = keep_
                            else:
                                res = [x for _, x in zip(range(2000), res)]
                        return res
                    involved = [(a, a.bin) for a in args if isinstance(a, Bits) and not isinstance(a, BitArray) and a is not obj]
                    desc = f".{name}({', '.join(repr(a)[:40] for a in args)})"
            if target in ("Dtype",):
                involved = []
            elif target == "pack":
                involved = [(a, a.bin) for a in vals if isinstance(a, Bits) and not isinstance(a, BitArray)]
            elif desc is not None and not desc.startswith(".") :
                involved = []
            try:
                res = thunk()
                outcome = "ok"
                # a mutable bitstring handed back by the call must not share state with the immutable objects involved:
                # change it in place, then the immutables are re-checked below
                bad_result = None
                for rr in (res if isinstance(res, (list, tuple)) else [res]):
                    if isinstance(rr, Bits) and rr is not obj and bad_result is None:
                        # every bitstring a call hands back is itself a valid object: printable, len == len(bin), a stream
                        # has 0 <= pos <= len  (an object built without its __init__ fails here with AttributeError)
                        try:
                            bad_result = _valid(rr, rr.bin)
                            repr(rr); str(rr)
                        except Exception as e_:      # noqa: BLE001
                            bad_result = f"returned object is unusable: {type(e_).__name__}"
                    if isinstance(rr, BitArray) and rr is not obj:
                        try:
                            rr.append("0b1"); rr.invert()
                        except Exception:            # noqa: BLE001
                            pass
                if bad_result:
                    outcome = "internal:invalid-result " + bad_result
            except RecursionError:
                outcome = "internal:RecursionError"
            except MemoryError:
                outcome = "skip:MemoryError"
            except EOFError as e:
                # Array.fromfile documents EOFError (as array.array.fromfile does) when fewer than n items are available
                outcome = "documented" if "fromfile" in (desc or "") else "internal:EOFError"
            except Exception as e:               # noqa: BLE001
                outcome = "documented" if isinstance(e, DOC_EXC) else "internal:" + type(e).__name__
            log.append(desc)
            if outcome.startswith("internal"):
                return "err internal", {"offending": desc, "why": outcome, "history": log[-6:], "target": target, "opts": opts0}
            bad = _valid(obj, snap) if obj is not None else None
            if not bad:
                for a, before in involved:
                    if a.bin != before:
                        bad = f"immutable argument changed from {wire(before)} to {wire(a)}"
                        break
            if bad:
                return "err internal", {"offending": desc, "why": "invalid object: " + bad, "history": log[-6:], "target": target, "opts": opts0}
            o = bitstring.options
            if (o.lsb0, o.bytealigned, o.mxfp_overflow) != opts0 or bool(o.no_color) != nc0:
                return "err internal", {"offending": desc, "why": "module options changed by the call", "history": log[-6:]}
    return "ok", {"calls": len(log)}


def oracle(line, out, extra):
    f = line.split(SEP)
    if f[1] == "fuzz":
        if out != "ok":
            return f"{extra.get('target')} {extra.get('offending')}: {extra.get('why')} (options lsb0/bytealigned/mxfp={extra.get('opts')}; preceding calls: {extra.get('history')})"
        return None
    if out == "err internal":
        return "an internal error (AssertionError / ZeroDivisionError / AttributeError …) escaped from a public call"
    return None


def compare(o, m, line):
    f = line.split(SEP)
    if f[1] == "fuzz":
        return True                      # no model side for the monitor
    return o == m


def model_line(line):
    f = line.split(SEP)
    if f[1] == "fuzz":
        return SEP.join(["C20", "lshift", "1", "0"])      # placeholder so that the driver has a line to answer
    return line


def nontrivial(line):
    return True


def gen(rng, tier):
    big = tier != "quick"
    import itertools
    sv = lambda v: "None" if v is None else str(v)
    L = 6 if big else 5
    for n in list(range(0, L + 1)) + [8, 16, 24]:
        for bits in ([rand_bits(rng, n)] if n > L else ["".join(p) for p in itertools.product("01", repeat=n)][:: (1 if n <= 3 else 3)]):
            for k in range(-2, n + 3):
                for op in ("lshift", "rshift", "ilshift", "irshift"):
                    yield SEP.join(["C20", op, wire(bits), str(k)])
                yield SEP.join(["C20", "invert", wire(bits), str(k)])
                yield SEP.join(["C20", "insert", wire(bits), rng.choice(["1", "-", "01"]), str(k)])
                yield SEP.join(["C20", "overwrite", wire(bits), rng.choice(["1", "-", "0110"]), str(k), "0"])
                yield SEP.join(["C20", "overwrite", wire(bits), "-", str(k), "1"])
            for k in (-1, 0, 1, 2, 3):
                yield SEP.join(["C20", "imul", wire(bits), str(k)])
            rv = [None] + list(range(-(n + 1), n + 2))
            for s in rv:
                for e in rv:
                    if rng.random() < (0.25 if n > 3 else 0.6):
                        k = rng.choice([-1, 0, 1, 2, n, n + 1, 3 * n + 1, 100])
                        yield SEP.join(["C20", rng.choice(["rol", "ror"]), wire(bits), str(k), sv(s), sv(e)])
            for fmt in (-1, 0, 1, 2, 3):
                for s in (None, 0, 1, 8, -8):
                    for e in (None, 0, 8, 16, n, -1):
                        if rng.random() < 0.4:
                            yield SEP.join(["C20", "byteswap", wire(bits), str(fmt), sv(s), sv(e), rng.choice("01")])
    targets = ["Bits", "BitArray", "ConstBitStream", "BitStream", "Array", "Dtype", "pack"]
    for i in range(6000 if big else 2500):
        t = targets[i % len(targets)]
        yield SEP.join(["C20", "fuzz", t, str(rng.randrange(10 ** 9)), str(rng.choice([5, 12, 25])), "1" if rng.random() < 0.35 else "0"])


def evidence_extra():
    """Which callables have a Lean model (theorems) and which are covered by the monitor only."""
    modelled = ["Bits.__lshift__", "Bits.__rshift__", "BitArray.__ilshift__", "BitArray.__irshift__", "BitArray.__imul__", "Bits.__mul__",
                "BitArray.insert", "BitArray.overwrite", "BitStream.overwrite", "BitArray.rol", "BitArray.ror", "BitArray.invert",
                "BitArray.byteswap", "ConstBitStream.pos (setter)", "ConstBitStream.bytealign", "ConstBitStream.read(int)"]
    monitored = {}
    for name, cls in list(CLASSES.items()) + [("Array", bitstring.Array)]:
        obj = cls("u8") if name == "Array" else cls()
        monitored[name] = _callables(obj)
    monitored["Dtype"] = ["Dtype(...)", "build", "parse", "str/repr/hash/eq"]
    monitored["pack"] = ["pack"]
    return {"entry_points_with_theorems": modelled, "callables_monitored_only": monitored,
            "readable_properties_monitored": READ_PROPS, "settable_properties_monitored": sorted(SET_PROPS)}
