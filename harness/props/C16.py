"""C16 — bit-wise operators and shifts.

line: C16 <op> <a> <b|n> <cls> <rkind> <lsb0>
  op ∈ and or xor (two objects) | andself orself xorself (same object) | not | shl shr | ishl ishr
      | iand ior ixor (in-place, mutable classes; model = and/or/xor)
  rkind: how the right operand is presented (obj:<Class> | str | list | bitarray)
out : ok <bits> | err <Class>
"""
from harness.common import *
import itertools

FUNCTIONAL = True      # the property fixes the output uniquely: a disagreement with the model is a failing input
LEVEL_TEXT = ("Lean theorems: the transcriptions of __and__/__or__/__xor__/__invert__, __lshift__/__rshift__ and the in-place "
              "forms compute the per-bit boolean function / drop-and-zero-fill of any operands with exactly the documented errors "
              "(unequal lengths, empty, negative count); algebraic laws (double negation, idempotence, De Morgan, commutativity), "
              "in-place = pure form, the `bs is self` shortcut, and agreement of every operator with the same operator on the "
              "unsigned integer value masked to len bits - for all contents, lengths and shift counts. Correspondence: all pairs of "
              "contents up to 4-5 bits, all shift counts from negative to beyond len incl. byte multiples and huge counts, self "
              "operands incl. in-place, four classes, promotable right operands, msb0 and lsb0; operands unchanged.")
LEVEL_NOTE = ("Trusted: Lean kernel (+propext, Classical.choice, Quot.sound); bitarray's C operators modelled as zipWith / map; "
              "the transcription is tied to the code by the differential run only.")
TECHNIQUE = "Lean 4 proof (list induction, Nat bitwise/testBit arithmetic) + exhaustive small-domain correspondence"
INPLACE = {"iand": "and", "ior": "or", "ixor": "xor", "iandself": "andself", "iorself": "orself", "ixorself": "xorself",
           # reflected forms (non-bitstring left operand, `'0b…' | s`): the per-bit functions are commutative
           "rand": "and", "ror": "or", "rxor": "xor"}


def model_line(line: str) -> str:
    f = line.split(SEP)
    if f[1] in INPLACE:
        f[1] = INPLACE[f[1]]
    return SEP.join(f)


def _right(bits: str, rkind: str):
    if rkind.startswith("obj:"):
        return mk(rkind[4:], bits)
    if rkind == "str":
        return "0b" + bits if bits else ""
    if rkind == "list":
        return [int(c) for c in bits]
    if rkind == "bitarray":
        return bitarray.bitarray(bits)
    if rkind == "tuple":
        return tuple(c == "1" for c in bits)
    if rkind in ("bytes", "bytearray", "mv", "mv2", "mvr"):
        assert len(bits) % 8 == 0
        b = int(bits, 2).to_bytes(len(bits) // 8, "big") if bits else b""
        if rkind == "bytes":
            return b
        if rkind == "bytearray":
            return bytearray(b)
        if rkind == "mv":
            return memoryview(b)
        if rkind == "mv2":                       # strided view over interleaved junk: not C-contiguous
            return memoryview(bytes(v for x in b for v in (x, 0xAA)))[::2]
        return memoryview(bytes(reversed(b)))[::-1]
    raise ValueError(rkind)


def execute(line: str):
    lsb0 = line.split(SEP)[6] == "1"
    with options(lsb0=lsb0):
        return _execute(line)


def _execute(line: str):
    _, op, a, b, cls, rkind, _l = line.split(SEP)
    a = unwire(a)
    x = mk(cls, a)
    extra = {}
    if op in ("rand", "ror", "rxor"):
        y = _right(unwire(b), rkind)
        refl = {"rand": lambda p, q: p & q, "ror": lambda p, q: p | q, "rxor": lambda p, q: p ^ q}[op]
        out = guarded(lambda: refl(y, x), wire)
        extra["left_after"] = wire(x)
        # the operands are never modified - that includes the VALUE a literal stands for: the same expression evaluated again
        # (fresh promotable operand, same text) gives the same result, and the literal still parses to its bits
        extra["again"] = guarded(lambda: refl(_right(unwire(b), rkind), mk(cls, a)), wire)
        if rkind == "str":
            extra["literal_after"] = guarded(lambda: Bits(_right(unwire(b), "str")), wire)
            extra["literal_expected"] = "ok " + b
    elif op in ("and", "or", "xor", "iand", "ior", "ixor"):
        y = _right(unwire(b), rkind)
        ybefore = wire(y) if hasattr(y, "bin") else None
        import operator
        f = {"and": operator.and_, "or": operator.or_, "xor": operator.xor,
             "iand": operator.iand, "ior": operator.ior, "ixor": operator.ixor}[op]
        out = guarded(lambda: f(x, y), wire)
        if op in ("and", "or", "xor"):
            extra["left_after"] = wire(x)
            if not rkind.startswith("obj:"):
                extra["again"] = guarded(lambda: f(mk(cls, a), _right(unwire(b), rkind)), wire)
                if rkind == "str":
                    extra["literal_after"] = guarded(lambda: Bits(_right(unwire(b), "str")), wire)
                    extra["literal_expected"] = "ok " + b
        else:
            if out.startswith("err"):
                extra["left_after"] = wire(x)
        if ybefore is not None:
            extra["right_before"], extra["right_after"] = ybefore, wire(y)
    elif op in ("andself", "orself", "xorself"):
        import operator
        f = {"andself": operator.and_, "orself": operator.or_, "xorself": operator.xor}[op]
        res = []
        def th():
            r = f(x, x); res.append(r); return r
        out = guarded(th, wire)
        extra["left_after"] = wire(x)
        if res and res[0] is x and cls in MUTABLE:
            extra["aliased_result"] = True
    elif op in ("iandself", "iorself", "ixorself"):
        def th():
            nonlocal x
            if op == "iandself":
                x &= x
            elif op == "iorself":
                x |= x
            else:
                x ^= x
            return x
        out = guarded(th, wire)
    elif op == "not":
        out = guarded(lambda: ~x, wire)
        extra["left_after"] = wire(x)
    elif op in ("shl", "shr"):
        n = int(b)
        res = []
        def sh():
            r = (x << n) if op == "shl" else (x >> n)
            res.append(r)
            return r
        out = guarded(sh, wire)
        # the result is a new object: changing it in place must change neither the operand nor what the same shift gives
        # next time
        if res and isinstance(res[0], BitArray):
            try:
                res[0].invert(); res[0].append("0b1")
            except Exception:                               # noqa: BLE001
                pass
        extra["left_after"] = wire(x)
        if res and res[0] is x:
            # a mutable object - and a stream, whose position is mutable state - must never be handed back as its own result
            extra["aliased_result"] = cls in MUTABLE or cls in ("ConstBitStream", "BitStream")
        extra["again"] = guarded(lambda: (mk(cls, a) << n) if op == "shl" else (mk(cls, a) >> n), wire)
    elif op in ("ishl", "ishr"):
        n = int(b)
        def th():
            nonlocal x
            if op == "ishl":
                x <<= n
            else:
                x >>= n
            return x
        out = guarded(th, wire)
        if out.startswith("err"):
            extra["left_after"] = wire(x)
    else:
        raise ValueError(op)
    return out, extra


def oracle(line: str, out: str, extra: dict):
    """The property's own predicate, from Python int arithmetic on the operands' bits."""
    _, op, a, b, cls, rkind, _l = line.split(SEP)
    a = unwire(a)
    n = len(a)
    op = INPLACE.get(op, op)
    if op in ("and", "or", "xor", "andself", "orself", "xorself"):
        bb = a if op.endswith("self") else unwire(b)
        if len(bb) != n:
            exp = "err ValueError"
        else:
            ia, ib = int(a or "0", 2), int(bb or "0", 2)
            v = {"and": ia & ib, "or": ia | ib, "xor": ia ^ ib}[op.replace("self", "")]
            exp = "ok " + (format(v, "0%db" % n) if n else "-")
    elif op == "not":
        exp = "err Error" if n == 0 else "ok " + format((1 << n) - 1 - int(a, 2), "0%db" % n)
    else:
        k = int(b)
        if k < 0 or n == 0:
            exp = "err ValueError"
        else:
            ia = int(a, 2)
            if k >= n:
                v = 0                                   # every bit shifted out (also keeps huge counts cheap)
            else:
                v = ((ia << k) & ((1 << n) - 1)) if op in ("shl", "ishl") else (ia >> k)
            exp = "ok " + format(v, "0%db" % n)
    if out != exp:
        return f"expected {exp} from integer arithmetic, got {out}"
    if "left_after" in extra and extra["left_after"] != wire(a):
        return f"left operand changed from {wire(a)} to {extra['left_after']}"
    if "right_after" in extra and extra["right_after"] != extra["right_before"]:
        return f"right operand changed from {extra['right_before']} to {extra['right_after']}"
    if "again" in extra and extra["again"] != out:
        return f"evaluating the same expression again gives {extra['again']} instead of {out}"
    if "literal_after" in extra and extra["literal_after"] != extra["literal_expected"]:
        return f"the literal operand now parses to {extra['literal_after']} instead of {extra['literal_expected']}"
    if extra.get("aliased_result"):
        return "operator on a mutable object (or a stream, whose position is state) returned the operand itself"
    return None


def nontrivial(line: str) -> bool:
    f = line.split(SEP)
    return f[2] != "-"


def _rk(rng, cls_pool=CLASS_NAMES):
    r = rng.random()
    if r < 0.6:
        return "obj:" + rng.choice(CLASS_NAMES)
    return rng.choice(["str", "list", "bitarray"])


def gen(rng, tier: str):
    for l in _gen(rng, tier):
        yield l + SEP + ("1" if rng.random() < 0.3 else "0")


def _gen(rng, tier: str):
    big = tier != "quick"
    L = 5 if big else 4
    allbits = lambda n: ["".join(p) for p in itertools.product("01", repeat=n)]
    # exhaustive: all pairs of equal length ≤ L, every binary op
    for n in range(0, L + 1):
        for a in allbits(n):
            for b in allbits(n):
                for op in ("and", "or", "xor"):
                    yield SEP.join(["C16", op, wire(a), wire(b), rng.choice(CLASS_NAMES), _rk(rng)])
            for op in ("andself", "orself", "xorself", "not"):
                for cls in CLASS_NAMES:
                    yield SEP.join(["C16", op, wire(a), "-", cls, "obj:" + cls])
            for op in ("iandself", "iorself", "ixorself"):
                for cls in MUTABLE:
                    yield SEP.join(["C16", op, wire(a), "-", cls, "obj:" + cls])
    # reflected forms (the left operand is not a bitstring) and byte-like / buffer right operands
    for n in range(0, L + 1):
        for a in allbits(n):
            for b in (allbits(n) if n <= 3 else rng.sample(allbits(n), 6)):
                for op in ("rand", "ror", "rxor"):
                    yield SEP.join(["C16", op, wire(a), wire(b), rng.choice(CLASS_NAMES), rng.choice(["str", "list", "tuple"])])
    for n in (0, 8, 16, 24):
        for _ in range(6 if big else 3):
            for m in (n, n, n, 8 if n != 8 else 16):
                a, b = rand_bits(rng, n), rand_bits(rng, m)
                for rk in ("bytes", "bytearray", "mv", "mv2", "mvr"):
                    for op in ("and", "or", "xor", "rand", "ror", "rxor", "iand", "ior", "ixor"):
                        cls = rng.choice(MUTABLE if op[0] == "i" else CLASS_NAMES)
                        yield SEP.join(["C16", op, wire(a), wire(b), cls, rk])
    # in-place forms and unequal lengths
    for n in range(0, 6):
        for m in range(0, 6):
            for _ in range(3 if big else 1):
                a, b = rand_bits(rng, n), rand_bits(rng, m)
                for op in ("and", "or", "xor"):
                    yield SEP.join(["C16", op, wire(a), wire(b), rng.choice(CLASS_NAMES), _rk(rng)])
                for op in ("iand", "ior", "ixor"):
                    yield SEP.join(["C16", op, wire(a), wire(b), rng.choice(MUTABLE), _rk(rng)])
    # shifts: every content of length ≤ L+1, every count from -2 to len+2, all four forms
    for n in range(0, L + 2):
        for a in allbits(n):
            for k in range(-2, n + 3):
                for op in ("shl", "shr"):
                    yield SEP.join(["C16", op, wire(a), str(k), rng.choice(CLASS_NAMES), "-"])
                for op in ("ishl", "ishr"):
                    yield SEP.join(["C16", op, wire(a), str(k), rng.choice(MUTABLE), "-"])
    # byte-multiple shift counts on lengths that are not whole bytes, and very large counts ("all counts beyond len")
    for n in list(range(1, 26)) + [31, 33, 63, 65]:
        a = rand_bits(rng, n)
        for k in (8, 16, 24, 32, 64, 2 ** 31, 2 ** 63 - 1, 2 ** 63, 2 ** 64 + 5, 10 ** 30):
            for op in ("shl", "shr"):
                yield SEP.join(["C16", op, wire(a), str(k), rng.choice(CLASS_NAMES), "-"])
            for op in ("ishl", "ishr"):
                yield SEP.join(["C16", op, wire(a), str(k), rng.choice(MUTABLE), "-"])
    # random, word-boundary lengths
    N = 40000 if big else 3000
    lens = BOUNDARY_LENGTHS + [130, 1023, 1024, 1025]
    for _ in range(N):
        n = rng.choice(lens) if rng.random() < 0.7 else rng.randint(0, 140)
        a = rand_bits(rng, n)
        r = rng.random()
        if r < 0.45:
            m = n if rng.random() < 0.85 else max(0, n + rng.choice([-1, 1, 8, -8]))
            b = rand_bits(rng, m)
            op = rng.choice(["and", "or", "xor", "iand", "ior", "ixor"])
            cls = rng.choice(MUTABLE if op[0] == "i" else CLASS_NAMES)
            yield SEP.join(["C16", op, wire(a), wire(b), cls, _rk(rng)])
        elif r < 0.55:
            op = rng.choice(["andself", "orself", "xorself", "not", "iandself", "iorself", "ixorself"])
            cls = rng.choice(MUTABLE if op[0] == "i" else CLASS_NAMES)
            yield SEP.join(["C16", op, wire(a), "-", cls, "obj:" + cls])
        else:
            k = rng.choice([-1, 0, 1, 7, 8, 9, n - 1, n, n + 1, n + 64, rng.randint(0, n + 2)])
            op = rng.choice(["shl", "shr", "ishl", "ishr"])
            cls = rng.choice(MUTABLE if op[0] == "i" else CLASS_NAMES)
            yield SEP.join(["C16", op, wire(a), str(k), cls, "-"])
