"""C14 — Array behaves as a list of fixed-width items over one contiguous bit buffer.

lines:
  C14 hist  <dt> <init> <trail> <op> <op> ...   one history on one Array
  C14 promo <dt> <dt>                           Array._promotetype on a pair of dtypes -> ok <name>.<L> | err

  <dt>    token/kind/name/L/mult/rt/signed      token = what the real library is given; the rest = what the
                                                documentation says that dtype is (independent table below):
                                                kind u|i|ule|ile|raw, L = dtype.length, mult = bits per unit
  <init>  L:v,v,..  (iterable)  |  N:n  (n zero items)  |  B:bits  (Bits initializer)  |  -  (none)
  <trail> None | bits                            trailing_bits=
  values  decimal int (int dtypes, bool)  |  #bits (the item's encoding: floats, hex/bin/oct, bytes, bits)  |  ! (rejected)
  ops     len get:i sl:a:b:c set:i:v ssl:a:b:c:vals del:i dsl:a:b:c app:v ext:vals exta:dt:vals:trail extself
          extb:typecode:name:L:native:bytes ins:i:v pop[:i] rev cnt:v list iter copy eqs:dt:vals:trail dtype:dt
          astype:dt bswap tobytes ff:bits:n  op:name:k rop:name:k iop:name:k uop:name bop:name:bits ibop:name:bits
          aop:name:dt:vals:trail iaop:name:dt:vals:trail eql:name:vals opt:name:scalar:dtr:table iopt:name:scalar:table
out:   err (construction failed) | ok I|<data> <res>|<data> ... F:<tolist>|<len>|<trailing>|<name>.<L>
       res: - (None)  e (raised)  v:<val>  n:<int>  l:<vals>  a:<name>.<L>:<data>  b:0|1  x:<bits>
       After a multi-value mutator (ssl, ext, ff) raised the history stops: the property does not say which part
       of the values was already stored.
"""
from harness.common import *
import struct, math, array as _array, io, operator, copy as _copy, itertools, sys

assert sys.byteorder == "little"
from bitstring import Array, Dtype

FUNCTIONAL = False
LEVEL_TEXT = ("Lean theorems about the transcription of array_.py over the list-of-bits meaning of the BitArray primitives, for EVERY "
              "item codec with dec(enc v) = v and |enc v| = w (every fixed-length dtype, every bits-per-unit multiplier): data = chunks ++ trailing "
              "(layout), and get / set / del / slice with any step / slice assignment / slice deletion / append / extend / insert / pop / "
              "reverse / count / iter / tolist / len commute with the Python-list operation under `items` with the trailing bits untouched; "
              "element-wise operators = map when every result fits and a failing in-place operator leaves the data unchanged; the code of "
              "_promotetype equals the documented rules. Correspondence: lock-step histories (1-15 steps) over ~90 dtypes incl. struct codes, "
              "with and without trailing bits, exhaustive index triples on lengths 0..5, all dtype pairs for promotion.")
LEVEL_NOTE = ("Trusted: Lean kernel (+propext, Classical.choice, Quot.sound); bitarray's C slice get/assign/delete assumed to be Python "
              "slice semantics; the per-dtype item codecs (Dtype.build/read_fn) enter the theorems as hypotheses and are tied to the code "
              "only by the correspondence (independent plain-Python encoders); float arithmetic is not modelled (operator graphs for "
              "float dtypes are computed by the harness). Six defects found by this check were fixed in /repo (bytesN Arrays, count() on "
              "str/bytes items, insert() with a negative index, ==/!= between dtypes, scalar - Array, extend(array.array('l'))); their "
              "witnesses run on every check.")
TECHNIQUE = "Lean 4 proof (refinement of Python-list operations by offset arithmetic on one bit buffer) + lock-step history correspondence"
NOT_YET_PROVED = []

# ---------------------------------------------------------------------------------------------------------
# independent dtype table (written from doc/dtypes.rst, doc/array.rst, the struct module documentation)
# ---------------------------------------------------------------------------------------------------------

def _mk(token, kind, name, L, mult, rt, signed):
    return "/".join([token, kind, name, str(L), str(mult), rt, "1" if signed else "0"])


def _dtypes():
    d = {}
    for n in list(range(1, 18)) + [24, 32, 33, 63, 64, 65]:
        d[f"u{n}"] = _mk(f"u{n}", "u", "uint", n, 1, "int", 0)
        d[f"i{n}"] = _mk(f"i{n}", "i", "int", n, 1, "int", 1)
    d["uint12"] = _mk("uint12", "u", "uint", 12, 1, "int", 0)
    d["int12"] = _mk("int12", "i", "int", 12, 1, "int", 1)
    for n in (8, 16, 24, 32, 64):
        d[f"uintle{n}"] = _mk(f"uintle{n}", "ule", "uintle", n, 1, "int", 0)
        d[f"intle{n}"] = _mk(f"intle{n}", "ile", "intle", n, 1, "int", 1)
        d[f"uintne{n}"] = _mk(f"uintne{n}", "ule", "uintle", n, 1, "int", 0)       # little-endian platform
        d[f"intne{n}"] = _mk(f"intne{n}", "ile", "intle", n, 1, "int", 1)
        d[f"uintbe{n}"] = _mk(f"uintbe{n}", "u", "uintbe", n, 1, "int", 0)
        d[f"intbe{n}"] = _mk(f"intbe{n}", "i", "intbe", n, 1, "int", 1)
    d["bool"] = _mk("bool", "u", "bool", 1, 1, "bool", 0)
    d["u0"] = _mk("u0", "u", "uint", 0, 1, "int", 0)                 # zero-length dtypes: refused by Array
    d["bin0"] = _mk("bin0", "raw", "bin", 0, 1, "other", 0)
    d["bytes0"] = _mk("bytes0", "raw", "bytes", 0, 8, "other", 0)
    for n in (4, 8, 12):
        d[f"hex{n}"] = _mk(f"hex{n}", "raw", "hex", n, 1, "other", 0)
    for n in (1, 3, 8):
        d[f"bin{n}"] = _mk(f"bin{n}", "raw", "bin", n, 1, "other", 0)
    for n in (3, 6):
        d[f"oct{n}"] = _mk(f"oct{n}", "raw", "oct", n, 1, "other", 0)
    for n in (1, 5, 9):
        d[f"bits{n}"] = _mk(f"bits{n}", "raw", "bits", n, 1, "other", 0)
    for n in (16, 32, 64):
        d[f"float{n}"] = _mk(f"float{n}", "raw", "float", n, 1, "float", 1)
        d[f"floatle{n}"] = _mk(f"floatle{n}", "raw", "floatle", n, 1, "float", 1)
        d[f"floatne{n}"] = _mk(f"floatne{n}", "raw", "floatle", n, 1, "float", 1)
    d["floatbe32"] = _mk("floatbe32", "raw", "float", 32, 1, "float", 1)
    d["bfloat"] = _mk("bfloat", "raw", "bfloat", 16, 1, "float", 1)
    d["bfloatle"] = _mk("bfloatle", "raw", "bfloatle", 16, 1, "float", 1)
    for nm, n, sg in (("p3binary", 8, 1), ("p4binary", 8, 1), ("e4m3mxfp", 8, 1), ("e5m2mxfp", 8, 1), ("e3m2mxfp", 6, 1),
                      ("e2m3mxfp", 6, 1), ("e2m1mxfp", 4, 1), ("e8m0mxfp", 8, 0), ("mxint", 8, 1)):
        d[nm] = _mk(nm, "raw", nm, n, 1, "float", sg)
    for n in (1, 2, 3, 4):
        d[f"bytes{n}"] = _mk(f"bytes{n}", "raw", "bytes", n, 8, "other", 0)
    # struct codes: '>' big-endian, '<' and '=' little-endian standard sizes; one-byte codes have no byte order
    std = {"b": 8, "B": 8, "h": 16, "H": 16, "i": 32, "I": 32, "l": 32, "L": 32, "q": 64, "Q": 64, "e": 16, "f": 32, "d": 64}
    for e in "<>=":
        for code, n in std.items():
            tok = e + code
            if code in "efd":
                d[tok] = _mk(tok, "raw", "float" if e == ">" else "floatle", n, 1, "float", 1)
            elif n == 8:
                d[tok] = _mk(tok, "i" if code == "b" else "u", "int" if code == "b" else "uint", 8, 1, "int", code == "b")
            elif code.islower():
                d[tok] = _mk(tok, "i" if e == ">" else "ile", "intbe" if e == ">" else "intle", n, 1, "int", 1)
            else:
                d[tok] = _mk(tok, "u" if e == ">" else "ule", "uintbe" if e == ">" else "uintle", n, 1, "int", 0)
    return d


DT_STR = _dtypes()


# ---- reference decoders for the 8-bit and smaller float formats (from the format definitions) ------------
def _minifloat(code, ebits, mbits, bias, n):
    sign = -1.0 if code >> (n - 1) else 1.0
    e = (code >> mbits) & ((1 << ebits) - 1)
    m = code & ((1 << mbits) - 1)
    if e == 0:
        return sign * m * 2.0 ** (1 - bias - mbits)
    return sign * (1 + m / (1 << mbits)) * 2.0 ** (e - bias)


def _dec_small(name, code):
    if name == "p3binary" or name == "p4binary":            # IEEE P3109 binary8pP: 0x80 NaN, 0x7f/0xff infinities
        p = 3 if name == "p3binary" else 4
        if code == 0x80:
            return math.nan
        if code == 0x7f:
            return math.inf
        if code == 0xff:
            return -math.inf
        return _minifloat(code, 8 - p, p - 1, 1 << (7 - p), 8)
    if name == "e4m3mxfp":                                  # OCP MX: no infinities, S.1111.111 NaN
        if code & 0x7f == 0x7f:
            return math.nan
        return _minifloat(code, 4, 3, 7, 8)
    if name == "e5m2mxfp":                                  # IEEE-like
        if code & 0x7c == 0x7c:
            return (math.inf if not code & 0x80 else -math.inf) if code & 3 == 0 else math.nan
        return _minifloat(code, 5, 2, 15, 8)
    if name == "e3m2mxfp":
        return _minifloat(code, 3, 2, 3, 6)
    if name == "e2m3mxfp":
        return _minifloat(code, 2, 3, 1, 6)
    if name == "e2m1mxfp":
        return _minifloat(code, 2, 1, 1, 4)
    if name == "e8m0mxfp":
        return math.nan if code == 0xff else 2.0 ** (code - 127)
    if name == "mxint":
        return (code - 256 if code & 0x80 else code) / 64.0
    raise KeyError(name)


SMALL = ("p3binary", "p4binary", "e4m3mxfp", "e5m2mxfp", "e3m2mxfp", "e2m3mxfp", "e2m1mxfp", "e8m0mxfp", "mxint")
_SMALL_ENC = {}


def _fkey(v):
    return (v, math.copysign(1.0, v))


def _small_enc(name, n):
    if name not in _SMALL_ENC:
        t = {}
        for c in range(1 << n):
            v = _dec_small(name, c)
            if v == v:
                t.setdefault(_fkey(v), c)
        _SMALL_ENC[name] = t
    return _SMALL_ENC[name]


class Bad(ValueError):
    pass


class DT:
    """One dtype: the documented meaning (reference codec in plain Python) + the token for the real library."""

    def __init__(self, s):
        self.s = s
        self.token, self.kind, self.name, L, mult, self.rt, sg = s.split("/")
        self.L, self.mult, self.signed = int(L), int(mult), sg == "1"
        self.w = self.L * self.mult
        self.key = f"{self.name}.{self.L}"

    # -- reference codec on wire values (ints, '#bits', '!') -------------------------------------------------
    def enc(self, v):
        w = self.w
        if self.kind in ("u", "ule"):
            if not isinstance(v, int) or not 0 <= v < (1 << w):
                raise Bad(v)
            b = format(v, "0%db" % w)
        elif self.kind in ("i", "ile"):
            if not isinstance(v, int) or not -(1 << (w - 1)) <= v < (1 << (w - 1)):
                raise Bad(v)
            b = format(v % (1 << w), "0%db" % w)
        else:
            if not (isinstance(v, str) and v.startswith("#") and len(v) - 1 == w):
                raise Bad(v)
            return v[1:]
        if self.kind in ("ule", "ile"):
            b = "".join(reversed([b[i:i + 8] for i in range(0, w, 8)]))
        return b

    def dec(self, bits):
        assert len(bits) == self.w
        if self.kind == "raw":
            return "#" + bits
        if self.kind in ("ule", "ile"):
            bits = "".join(reversed([bits[i:i + 8] for i in range(0, self.w, 8)]))
        v = int(bits, 2)
        if self.kind in ("i", "ile") and bits[0] == "1":
            v -= 1 << self.w
        return v

    # -- Python values for the real library -----------------------------------------------------------------
    def to_py(self, v):
        """Wire value -> the Python object handed to the real Array."""
        if self.kind != "raw":
            if v == "!":
                return "zz"
            return bool(v) if (self.name == "bool" and v in (0, 1)) else v
        if v == "!":
            return {"hex": "g" * max(1, self.L // 4), "bin": "2" * self.L, "oct": "9" * max(1, self.L // 3), "bytes": b"\x00" * (self.L + 1),
                    "bits": Bits(self.L + 1)}.get(self.name, "zz")
        if isinstance(v, int):
            return v
        return self.bits_to_py(v[1:])

    def bits_to_py(self, bits):
        n, nm = len(bits), self.name
        raw = int(bits, 2).to_bytes((n + 7) // 8, "big") if n else b""
        if nm == "hex":
            return "%0*x" % (n // 4, int(bits, 2))
        if nm == "bin":
            return bits
        if nm == "oct":
            return "%0*o" % (n // 3, int(bits, 2))
        if nm == "bits":
            return Bits(bin=bits)
        if nm == "bytes":
            return raw
        if nm in ("float", "floatle"):
            return struct.unpack((">" if nm == "float" else "<") + {16: "e", 32: "f", 64: "d"}[n], raw)[0]
        if nm == "bfloat":
            return struct.unpack(">f", raw + b"\x00\x00")[0]
        if nm == "bfloatle":
            return struct.unpack(">f", raw[::-1] + b"\x00\x00")[0]
        if nm in SMALL:
            return _dec_small(nm, int(bits, 2))
        raise KeyError(nm)

    def py_to_wire(self, pv):
        """A Python value returned by the real Array -> wire value (through the reference encoder)."""
        nm, w = self.name, self.w
        try:
            if self.kind != "raw":
                if nm == "bool":
                    return 1 if pv is True else 0 if pv is False else "?%r" % (pv,)
                return pv if type(pv) is int else "?%r" % (pv,)
            if nm == "hex":
                ok = isinstance(pv, str) and len(pv) * 4 == w and pv == pv.lower()
                return "#" + format(int(pv, 16), "0%db" % w) if ok else "?%r" % (pv,)
            if nm == "bin":
                return "#" + pv if isinstance(pv, str) and len(pv) == w and set(pv) <= {"0", "1"} else "?%r" % (pv,)
            if nm == "oct":
                return "#" + format(int(pv, 8), "0%db" % w) if isinstance(pv, str) and len(pv) * 3 == w else "?%r" % (pv,)
            if nm == "bits":
                return "#" + pv.bin if isinstance(pv, Bits) else "?%r" % (pv,)
            if nm == "bytes":
                return "#" + (format(int.from_bytes(pv, "big"), "0%db" % (8 * len(pv))) if pv else "") if isinstance(pv, bytes) else "?%r" % (pv,)
            if not isinstance(pv, float):
                return "?%r" % (pv,)
            return "#" + self.float_bits(pv)
        except Exception as e:                                     # noqa: BLE001
            return "?%r/%s" % (pv, type(e).__name__)

    def float_bits(self, x):
        """Reference encoder for a float that is exactly representable (or a canonical NaN)."""
        nm, w = self.name, self.w
        if nm in ("float", "floatle"):
            raw = struct.pack((">" if nm == "float" else "<") + {16: "e", 32: "f", 64: "d"}[w], x)
        elif nm in ("bfloat", "bfloatle"):
            raw = struct.pack(">f", x)
            if raw[2:] != b"\x00\x00":
                raise Bad(x)
            raw = raw[:2] if nm == "bfloat" else raw[:2][::-1]
        elif nm in SMALL:
            if x != x:
                raise Bad(x)
            return format(_small_enc(nm, w)[_fkey(x)], "0%db" % w)
        else:
            raise KeyError(nm)
        return format(int.from_bytes(raw, "big"), "0%db" % w)

    def canonical(self, bits):
        """An item pattern whose decoded value re-encodes to the same pattern (true of everything but NaN payloads
        and the NaNs of the small formats)."""
        if self.rt != "float":
            return True
        try:
            v = self.bits_to_py(bits)
            if self.name.endswith("mxfp") and v in (math.inf, -math.inf):
                return False                                       # stored saturated under the default mxfp_overflow
            return self.float_bits(v) == bits
        except (Bad, KeyError, OverflowError, struct.error):
            return False


_DT_CACHE = {}


def dt_of(s):
    if s not in _DT_CACHE:
        _DT_CACHE[s] = DT(s)
    return _DT_CACHE[s]


BOOL = dt_of(DT_STR["bool"])


# ---------------------------------------------------------------------------------------------------------
# wire helpers
# ---------------------------------------------------------------------------------------------------------
def _opt(s):
    return None if s == "None" else int(s)


def _val(s):
    return s if (s == "!" or s.startswith("#")) else int(s)


def _vals(s):
    return [_val(x) for x in s.split(",")] if s else []


def _vstr(v):
    return str(v)


def _vsstr(l):
    return ",".join(_vstr(v) for v in l)


def _tr(s):
    return None if s == "None" else unwire(s)


sv = lambda x: "None" if x is None else str(x)


def _guard(thunk):
    """(True, value) | (False, 'e') — every documented exception (and EOFError from fromfile) is just 'raised'."""
    try:
        return True, thunk()
    except RecursionError:
        return False, "e!RecursionError"
    except EOFError:
        return False, "e"
    except Exception as e:                                         # noqa: BLE001
        n = err_name(e)
        return False, ("e" if n in DOCUMENTED else "e!" + n)


MULTI = ("ssl", "ssla", "sslself", "ext", "ff")
PYOPS = {"add": operator.add, "sub": operator.sub, "mul": operator.mul, "floordiv": operator.floordiv, "mod": operator.mod,
         "truediv": operator.truediv, "lshift": operator.lshift, "rshift": operator.rshift, "lt": operator.lt, "le": operator.le,
         "gt": operator.gt, "ge": operator.ge, "eq": operator.eq, "ne": operator.ne, "neg": operator.neg, "abs": operator.abs,
         "and": operator.and_, "or": operator.or_, "xor": operator.xor}
IOPS = {"add": operator.iadd, "sub": operator.isub, "mul": operator.imul, "floordiv": operator.ifloordiv, "mod": operator.imod,
        "truediv": operator.itruediv, "lshift": operator.ilshift, "rshift": operator.irshift, "and": operator.iand, "or": operator.ior,
        "xor": operator.ixor}
CMP = ("lt", "le", "gt", "ge", "eq", "ne")


def _lit(s):
    """A Python value given literally on the wire (count() arguments): f<float64 bits> i<int> b0|b1 s<str> y<bytes hex>
    Y<bytearray hex>."""
    k, r = s[0], s[1:]
    if k == "f":
        return struct.unpack(">d", bytes.fromhex(r))[0]
    if k == "i":
        return int(r)
    if k == "b":
        return r == "1"
    if k == "s":
        return r
    if k == "y":
        return bytes.fromhex(r)
    if k == "Y":
        return bytearray.fromhex(r)
    raise ValueError(s)


def _litstr(v):
    if isinstance(v, bool):
        return "b1" if v else "b0"
    if isinstance(v, float):
        return "f" + struct.pack(">d", v).hex()
    if isinstance(v, int):
        return "i%d" % v
    if isinstance(v, str):
        return "s" + v
    if isinstance(v, bytearray):
        return "Y" + bytes(v).hex()
    if isinstance(v, bytes):
        return "y" + v.hex()
    raise ValueError(v)


def _scalar(s):
    """Scalar operand on the wire: int, or f<16 hex digits> (a float64 by its bit pattern)."""
    if s.startswith("f"):
        return struct.unpack(">d", bytes.fromhex(s[1:]))[0]
    return int(s)


def _fscalar(x):
    return "f" + struct.pack(">d", x).hex()


# ---------------------------------------------------------------------------------------------------------
# IMPL: run the history on the real Array
# ---------------------------------------------------------------------------------------------------------
def _mkarr(dt, vals, trail):
    return Array(dt.token, [dt.to_py(v) for v in vals], trailing_bits=None if trail is None else Bits(bin=trail) if trail else Bits())


def _atok(r):
    """Token for a returned Array: its dtype as the library names it, and its data."""
    return f"a:{r.dtype.name}.{r.dtype.length}:{wire(r.data)}"


def _poke(r):
    """Mutate a returned Array (to see whether it shares its buffer with the original)."""
    try:
        r.data.append("0b1")
        r.data.invert()
    except Exception:                                              # noqa: BLE001
        pass


def execute(line):
    f = line.split(SEP)
    with options():
        if f[1] == "promo":
            a, b = dt_of(f[2]), dt_of(f[3])
            ok, r = _guard(lambda: Array._promotetype(Dtype(Array(a.token).dtype), Dtype(Array(b.token).dtype)))
            return (f"ok {r.name}.{r.length}" if ok else "err"), {}
        return _exec_hist(f)


def _exec_hist(f):
    dt = dt_of(f[2])
    ini, trail = f[3], _tr(f[4])
    tb = None if trail is None else (Bits(bin=trail) if trail else Bits())

    def build():
        if ini == "-":
            return Array(dt.token, trailing_bits=tb)
        if ini.startswith("L:"):
            return Array(dt.token, [dt.to_py(v) for v in _vals(ini[2:])], trailing_bits=tb)
        if ini.startswith("N:"):
            return Array(dt.token, int(ini[2:]), trailing_bits=tb)
        if ini.startswith("B:"):
            return Array(dt.token, Bits(bin=unwire(ini[2:])) if unwire(ini[2:]) else Bits(), trailing_bits=tb)
        raise ValueError(ini)

    ok, a = _guard(build)
    if not ok:
        return "err" + a[1:], {}
    toks = ["I|" + wire(a.data)]
    views = []                       # per step: (tolist on the wire | 'e', len | 'e', trailing_bits)
    notes = []

    def view():
        ok1, l = _guard(lambda: a.tolist())
        ok2, n = _guard(lambda: len(a))
        ok3, t = _guard(lambda: a.trailing_bits.bin)
        cur = dt_cur[0]
        views.append((_vsstr([cur.py_to_wire(x) for x in l]) if ok1 else l, n if ok2 else "e", t if ok3 else "e"))

    dt_cur = [dt]
    view()
    stopped = False
    for opi, o in enumerate(f[5:]):
        g = o.split(":")
        op = g[0]
        cur = dt_cur[0]
        before = a.data.bin
        tok = None
        if op == "len":
            ok, r = _guard(lambda: len(a)); tok = f"n:{r}" if ok else r
        elif op == "get":
            ok, r = _guard(lambda: a[int(g[1])]); tok = "v:" + _vstr(cur.py_to_wire(r)) if ok else r
        elif op == "sl":
            ok, r = _guard(lambda: a[slice(_opt(g[1]), _opt(g[2]), _opt(g[3]))])
            tok = _atok(r) if ok else r
            if ok:
                _poke(r)
        elif op == "set":
            ok, r = _guard(lambda: a.__setitem__(int(g[1]), cur.to_py(_val(g[2])))); tok = "-" if ok else r
        elif op == "ssl":
            vs = [cur.to_py(v) for v in _vals(g[4])]
            if len(g) > 5 and g[5] == "it":
                vs = iter(vs)
            elif len(g) > 5 and g[5] == "tu":
                vs = tuple(vs)
            ok, r = _guard(lambda: a.__setitem__(slice(_opt(g[1]), _opt(g[2]), _opt(g[3])), vs)); tok = "-" if ok else r
        elif op == "ssla":
            d2 = dt_of(g[4]); other = _mkarr(d2, _vals(g[5]), _tr(g[6])); ob = other.data.bin
            ok, r = _guard(lambda: a.__setitem__(slice(_opt(g[1]), _opt(g[2]), _opt(g[3])), other)); tok = "-" if ok else r
            if other.data.bin != ob:
                notes.append(f"step {opi}: slice assignment changed the assigned Array")
            other.data.append("0b1")                               # a later change of the source must not show
        elif op == "sslself":
            ok, r = _guard(lambda: a.__setitem__(slice(_opt(g[1]), _opt(g[2]), _opt(g[3])), a)); tok = "-" if ok else r
        elif op == "cntv":
            pv = _lit(g[1])
            ok, r = _guard(lambda: a.count(pv)); tok = (f"n:{r}" if type(r) is int else f"n:?{r!r}") if ok else r
        elif op == "del":
            ok, r = _guard(lambda: a.__delitem__(int(g[1]))); tok = "-" if ok else r
        elif op == "dsl":
            ok, r = _guard(lambda: a.__delitem__(slice(_opt(g[1]), _opt(g[2]), _opt(g[3])))); tok = "-" if ok else r
        elif op == "app":
            ok, r = _guard(lambda: a.append(cur.to_py(_val(g[1])))); tok = "-" if ok else r
        elif op == "ext":
            vs = [cur.to_py(v) for v in _vals(g[1])]
            if len(g) > 2 and g[2] == "it":
                vs = iter(vs)
            elif len(g) > 2 and g[2] == "tu":
                vs = tuple(vs)
            ok, r = _guard(lambda: a.extend(vs)); tok = "-" if ok else r
        elif op == "exta":
            d2 = dt_of(g[1]); other = _mkarr(d2, _vals(g[2]), _tr(g[3])); ob = other.data.bin
            ok, r = _guard(lambda: a.extend(other)); tok = "-" if ok else r
            if other.data.bin != ob:
                notes.append(f"step {opi}: extend changed its argument")
            other.data.append("0b1")                               # a later change of the argument must not show
        elif op == "extself":
            ok, r = _guard(lambda: a.extend(a)); tok = "-" if ok else r
        elif op == "extb":
            arr = _array.array(g[1], [int(x) for x in g[6].split(",")] if g[6] else [])
            ok, r = _guard(lambda: a.extend(arr)); tok = "-" if ok else r
        elif op == "ins":
            ok, r = _guard(lambda: a.insert(int(g[1]), cur.to_py(_val(g[2])))); tok = "-" if ok else r
        elif op == "pop":
            ok, r = _guard((lambda: a.pop(int(g[1]))) if len(g) > 1 else (lambda: a.pop()))
            tok = "v:" + _vstr(cur.py_to_wire(r)) if ok else r
        elif op == "rev":
            ok, r = _guard(lambda: a.reverse()); tok = "-" if ok else r
        elif op == "cnt":
            ok, r = _guard(lambda: a.count(cur.to_py(_val(g[1])))); tok = f"n:{r}" if ok else r
        elif op == "list":
            ok, r = _guard(lambda: a.tolist()); tok = "l:" + _vsstr([cur.py_to_wire(x) for x in r]) if ok else r
        elif op == "iter":
            ok, r = _guard(lambda: [x for x in a]); tok = "l:" + _vsstr([cur.py_to_wire(x) for x in r]) if ok else r
        elif op == "copy":
            ok, r = _guard(lambda: _copy.copy(a)); tok = _atok(r) if ok else r
            if ok:
                _poke(r)
        elif op == "eqs":
            d2 = dt_of(g[1]); other = _mkarr(d2, _vals(g[2]), _tr(g[3]))
            ok, r = _guard(lambda: a.equals(other)); tok = ("b:1" if r is True else "b:0" if r is False else "b:?") if ok else r
        elif op == "dtype":
            d2 = dt_of(g[1])
            ok, r = _guard(lambda: setattr(a, "dtype", d2.token)); tok = "-" if ok else r
            if ok:
                dt_cur[0] = d2
        elif op == "astype":
            d2 = dt_of(g[1])
            ok, r = _guard(lambda: a.astype(d2.token)); tok = _atok(r) if ok else r
            if ok:
                _poke(r)
        elif op == "bswap":
            ok, r = _guard(lambda: a.byteswap()); tok = "-" if ok else r
        elif op == "tobytes":
            ok, r = _guard(lambda: a.tobytes())
            tok = "x:" + wire(format(int.from_bytes(r, "big"), "0%db" % (8 * len(r))) if r else "") if ok else r
        elif op == "ff":
            bits = unwire(g[1]); n = _opt(g[2])
            raw = int(bits, 2).to_bytes(len(bits) // 8, "big") if bits else b""
            ok, r = _guard(lambda: a.fromfile(io.BytesIO(raw), n) if n is not None else a.fromfile(io.BytesIO(raw))); tok = "-" if ok else r
        elif op in ("op", "opt"):
            k = _scalar(g[2]) if op == "opt" else _pyscalar(cur, g[2])
            ok, r = _guard(lambda: PYOPS[g[1]](a, k)); tok = _atok(r) if ok else r
            if ok:
                _poke(r)
        elif op == "rop":
            k = _pyscalar(cur, g[2])
            ok, r = _guard(lambda: PYOPS[g[1]](k, a)); tok = _atok(r) if ok else r
        elif op in ("iop", "iopt"):
            k = _scalar(g[2]) if op == "iopt" else _pyscalar(cur, g[2])
            ident = id(a)

            def th():
                nonlocal a
                a = IOPS[g[1]](a, k)
            ok, r = _guard(th); tok = "-" if ok else r
            if ok and id(a) != ident:
                notes.append(f"step {opi}: in-place operator returned a different object")
        elif op == "uop":
            ok, r = _guard(lambda: PYOPS[g[1]](a)); tok = _atok(r) if ok else r
        elif op == "bop":
            v = Bits(bin=unwire(g[2])) if unwire(g[2]) else Bits()
            refl = len(g) > 3 and g[3] == "r"
            vs = "0b" + unwire(g[2])                                # a str on the left reaches Array.__rand__ & co.
            ok, r = _guard(lambda: PYOPS[g[1]](vs, a) if refl else PYOPS[g[1]](a, v)); tok = _atok(r) if ok else r
            if ok:
                _poke(r)
        elif op == "ibop":
            v = Bits(bin=unwire(g[2])) if unwire(g[2]) else Bits()

            def th():
                nonlocal a
                a = IOPS[g[1]](a, v)
            ok, r = _guard(th); tok = "-" if ok else r
        elif op in ("aop", "iaop"):
            d2 = dt_of(g[2]); other = _mkarr(d2, _vals(g[3]), _tr(g[4])); ob = other.data.bin
            if op == "aop":
                ok, r = _guard(lambda: PYOPS[g[1]](a, other)); tok = _atok(r) if ok else r
            else:
                def th():
                    nonlocal a
                    a = IOPS[g[1]](a, other)
                ok, r = _guard(th); tok = "-" if ok else r
                if ok:
                    key = f"{a.dtype.name}.{a.dtype.length}"
                    if key == cur.key:
                        pass
                    elif key == d2.key:
                        dt_cur[0] = d2
                    else:
                        notes.append(f"step {opi}: result dtype {a.dtype} is neither operand's")
            if other.data.bin != ob:
                notes.append(f"step {opi}: the right operand changed")
        elif op == "eql":
            vs = [cur.to_py(v) for v in _vals(g[2])]
            ok, r = _guard(lambda: PYOPS[g[1]](a, vs)); tok = _atok(r) if ok else r
        else:
            raise ValueError(o)
        if (not ok) and op in MULTI:
            toks.append(tok)
            stopped = True
            break
        toks.append(tok + "|" + wire(a.data))
        view()
    if not stopped:
        ok1, l = _guard(lambda: a.tolist())
        cur = dt_cur[0]
        toks.append("F:" + (_vsstr([cur.py_to_wire(x) for x in l]) if ok1 else "e") + f"|{_guard(lambda: len(a))[1]}|"
                    + wire(_guard(lambda: a.trailing_bits.bin)[1]) + f"|{a.dtype.name}.{a.dtype.length}")
    return "ok " + " ".join(toks), {"views": views, "notes": notes}


def _pyscalar(cur, s):
    v = _val(s)
    return cur.to_py(v) if not isinstance(v, int) else v


DT_BY_KEY = {}
for _s in DT_STR.values():
    DT_BY_KEY.setdefault(dt_of(_s).key, dt_of(_s))


# ---------------------------------------------------------------------------------------------------------
# REFERENCE: a Python list of items + trailing bits + dtype; every method is the property's own statement
# ---------------------------------------------------------------------------------------------------------
class Stop(Exception):
    pass


def promote_ref(a, b):
    """doc/array.rst 'Type promotion' rules 1-4; None = not numeric."""
    num = lambda d: d.rt in ("int", "bool", "float")
    if not (num(a) and num(b)):
        return None
    fa, fb = a.rt == "float", b.rt == "float"
    if fa != fb:
        return a if fa else b
    if not fa and a.signed != b.signed:
        return a if a.signed else b
    if b.L > a.L:
        return b
    return a


class Ref:
    def __init__(self, dt, ini, trail):
        self.dt = dt
        if dt.w == 0:
            raise Bad("zero-length dtype")                             # an Array needs a non-zero item width
        if ini == "-":
            data = ""
        elif ini.startswith("L:"):
            data = "".join(dt.enc(v) for v in _vals(ini[2:]))          # Bad -> construction must fail
        elif ini.startswith("N:"):
            data = "0" * (int(ini[2:]) * dt.w)
        else:
            data = unwire(ini[2:])
        self.load(data + (trail or ""))
        self.flags = []

    def load(self, data):
        w = self.dt.w
        n = len(data) // w
        self.lst = [self.dt.dec(data[i * w:(i + 1) * w]) for i in range(n)]
        self.tr = data[n * w:]

    def data(self):
        return "".join(self.dt.enc(v) for v in self.lst) + self.tr

    def arr(self, dt, lst):
        return f"a:{dt.key}:{wire(''.join(dt.enc(v) for v in lst))}"

    def pyitems(self):
        """The items as the Python objects tolist() must give (reference decoder)."""
        dt = self.dt
        if dt.kind != "raw":
            return [bool(x) for x in self.lst] if dt.name == "bool" else list(self.lst)
        return [dt.bits_to_py(x[1:]) for x in self.lst]

    def count_py(self, pv):
        """list.count on the decoded items; count(nan) is documented to count the NaN items."""
        items = self.pyitems()
        if isinstance(pv, float) and pv != pv:
            return sum(1 for x in items if isinstance(x, float) and x != x)
        return sum(1 for x in items if x == pv)

    def other(self, dts, vals, tr):
        d2 = dt_of(dts)
        o = Ref(d2, "L:" + vals, _tr(tr))
        return d2, o

    def step(self, o):
        """-> token (without the data part). Raises Stop(token) when the history ends here."""
        g = o.split(":")
        op, dt, lst = g[0], self.dt, self.lst
        if dt.mult != 1:
            self.flags.append("bytes_dtype")
        if op == "len":
            return f"n:{len(lst)}"
        if op == "get":
            try:
                return "v:" + _vstr(lst[int(g[1])])
            except IndexError:
                return "e"
        if op == "sl":
            if _opt(g[3]) == 0:
                return "e"
            return self.arr(dt, lst[slice(_opt(g[1]), _opt(g[2]), _opt(g[3]))])
        if op == "set":
            i, v = int(g[1]), _val(g[2])
            if not -len(lst) <= i < len(lst):
                return "e"
            try:
                dt.enc(v)
            except Bad:
                return "e"
            lst[i] = v
            return "-"
        if op == "ssl":
            vs = _vals(g[4])
            if _opt(g[3]) == 0:
                raise Stop("e")
            try:
                for v in vs:
                    dt.enc(v)
                lst[slice(_opt(g[1]), _opt(g[2]), _opt(g[3]))] = vs
            except (Bad, ValueError):
                raise Stop("e")
            return "-"
        if op in ("ssla", "sslself"):
            # the right-hand side is an Array: what is assigned are its ITEMS (python values), each of which must fit
            if _opt(g[3]) == 0:
                raise Stop("e")
            if op == "sslself":
                vs = list(lst)
                if _opt(g[3]) not in (None, 1) and len(lst) >= 2 and \
                        len(range(*slice(_opt(g[1]), _opt(g[2]), _opt(g[3])).indices(len(lst)))) == len(lst):
                    self.flags.append("setslice_self_extended")
            else:
                d2, o2 = self.other(g[4], g[5], g[6])
                vs = list(o2.lst)
                if d2.key != dt.key and not (d2.kind != "raw" and dt.kind != "raw"):
                    return None                 # str / float items into another dtype: not claimed by this harness
            try:
                for v in vs:
                    dt.enc(v)
                lst[slice(_opt(g[1]), _opt(g[2]), _opt(g[3]))] = vs
            except (Bad, ValueError):
                raise Stop("e")
            return "-"
        if op == "cntv":
            pv = _lit(g[1])
            if isinstance(pv, float) and pv != pv and dt.rt == "other" and lst:
                self.flags.append("count_nan_nonnumeric")
            return f"n:{self.count_py(pv)}"
        if op == "del":
            try:
                del lst[int(g[1])]
            except IndexError:
                return "e"
            return "-"
        if op == "dsl":
            if _opt(g[3]) == 0:
                return "e"
            del lst[slice(_opt(g[1]), _opt(g[2]), _opt(g[3]))]
            return "-"
        if op == "app":
            if self.tr:
                return "e"                      # documented: appending needs an empty trailing_bits
            try:
                dt.enc(_val(g[1]))
            except Bad:
                return "e"
            lst.append(_val(g[1]))
            return "-"
        if op == "ext":
            vs = _vals(g[1])
            if self.tr:
                raise Stop("e")
            try:
                for v in vs:
                    dt.enc(v)
            except Bad:
                raise Stop("e")
            lst.extend(vs)
            return "-"
        if op in ("exta", "extself"):
            if op == "extself":
                d2, o2 = dt, self
            else:
                d2, o2 = self.other(g[1], g[2], g[3])
            if self.tr or d2.key != dt.key:
                return "e"                      # "only if the dtype is the same"
            add, tr2 = list(o2.lst), o2.tr
            lst.extend(add)
            self.tr = tr2
            return "-"
        if op == "extb":
            # array.array input is accepted only when kind and width match (kind: int/uint/float, width: itemsize)
            tc, native = g[1], int(g[4])
            vals = [int(x) for x in g[6].split(",")] if g[6] else []
            if tc in "lL" and native != 32:
                self.flags.append("extend_array_itemsize")
            kind = "float" if tc in "fd" else ("int" if tc.islower() else "uint")
            mine = {"u": "uint", "ule": "uint", "i": "int", "ile": "int"}.get(dt.kind) if dt.rt == "int" else ("float" if dt.rt == "float" else None)
            le_ok = dt.w == 8 or dt.name in ("uintle", "intle", "floatle")
            if self.tr or mine != kind or dt.w != native or not le_ok or g[2] == "None":
                return "e"
            if kind == "float":
                return None                     # not generated
            lst.extend(vals)
            return "-"
        if op == "ins":
            i, v = int(g[1]), _val(g[2])
            if i < 0 and (self.tr or i < -len(lst)):
                self.flags.append("insert_negative")
            try:
                dt.enc(v)
            except Bad:
                return "e"
            lst.insert(i, v)
            return "-"
        if op == "pop":
            try:
                return "v:" + _vstr(lst.pop(int(g[1])) if len(g) > 1 else lst.pop())
            except IndexError:
                return "e"
        if op == "rev":
            if self.tr:
                return "e"
            lst.reverse()
            return "-"
        if op == "cnt":
            if dt.rt == "other":
                self.flags.append("count_nonnumeric")
            return f"n:{lst.count(_val(g[1]))}"
        if op in ("list", "iter"):
            return "l:" + _vsstr(lst)
        if op == "copy":
            return f"a:{dt.key}:{wire(self.data())}"
        if op == "eqs":
            d2, o2 = self.other(g[1], g[2], g[3])
            return "b:1" if (d2.key == dt.key and o2.lst == lst and o2.tr == self.tr) else "b:0"
        if op == "dtype":
            if dt_of(g[1]).w == 0:
                return "e"                      # refused, nothing changes
            data = self.data()
            self.dt = dt_of(g[1])
            self.load(data)
            return "-"
        if op == "astype":
            d2 = dt_of(g[1])
            if d2.w == 0:
                return "e"
            try:
                return self.arr(d2, lst)
            except Bad:
                return "e"
        if op == "bswap":
            if dt.w % 8:
                return "e"
            data = self.data()
            w = dt.w
            sw = "".join("".join(reversed([data[i + j:i + j + 8] for j in range(0, w, 8)])) for i in range(0, len(lst) * w, w))
            self.load(sw + self.tr)
            return "-"
        if op == "tobytes":
            d = self.data()
            return "x:" + wire(d + "0" * (-len(d) % 8))
        if op == "ff":
            bits, n = unwire(g[1]), _opt(g[2])
            if self.tr:
                raise Stop("e")
            have = len(bits) // dt.w
            take = have if n is None else min(n, have)
            self.load(self.data() + bits[:take * dt.w])
            if n is not None and take < n:
                raise Stop("e")
            return "-"
        if op in ("op", "rop", "iop", "uop"):
            name = g[1]
            res_dt = BOOL if name in CMP else dt
            if op == "rop" and name == "sub":
                for x in lst:
                    try:
                        dt.enc(-x)
                    except (Bad, TypeError):
                        self.flags.append("rsub_negation")
            out = []
            failed = False
            for x in lst:
                try:
                    if not isinstance(x, int):
                        raise TypeError
                    if op == "uop":
                        r = PYOPS[name](x)
                    else:
                        k = _val(g[2])
                        if not isinstance(k, int):
                            raise TypeError
                        r = PYOPS[name](k, x) if op == "rop" else PYOPS[name](x, k)
                    r = int(r) if isinstance(r, bool) else r
                    res_dt.enc(r)
                    out.append(r)
                except (Bad, ZeroDivisionError, ValueError, TypeError):
                    failed = True
            if failed:
                return "e"                      # a result that does not fit raises; in-place: unchanged
            if op == "iop":
                self.lst = out
                self.tr = ""                    # the new data is exactly the items
                return "-"
            return self.arr(res_dt, out)
        if op in ("opt", "iopt"):
            name, k = g[1], _scalar(g[2])
            res_dt = dt if op == "iopt" else dt_of(g[3])
            out = []
            try:
                for x in lst:
                    r = PYOPS[name](dt.bits_to_py(x[1:]), k)
                    if res_dt.rt == "bool":
                        out.append(1 if r else 0)
                    else:
                        out.append("#" + res_dt.float_bits(float(r)))
            except (Bad, ZeroDivisionError, OverflowError, KeyError):
                return None                     # outside what this harness claims to know (not generated)
            if op == "iopt":
                self.lst, self.tr = out, ""
                return "-"
            return self.arr(res_dt, out)
        if op in ("bop", "ibop"):
            v = unwire(g[2])
            if len(v) != dt.w:
                return "e"
            fn = {"and": lambda a, b: a & b, "or": lambda a, b: a | b, "xor": lambda a, b: a ^ b}[g[1]]
            blocks = [dt.enc(x) for x in lst]
            nb = ["".join(str(fn(int(p), int(q))) for p, q in zip(b, v)) for b in blocks]
            if op == "ibop":
                self.load("".join(nb) + self.tr)
                return "-"
            return f"a:{dt.key}:{wire(''.join(nb))}"
        if op in ("aop", "iaop"):
            name = g[1]
            d2, o2 = self.other(g[2], g[3], g[4])
            if name in ("eq", "ne") and d2.key != dt.key:
                self.flags.append("eq_ne_arrays_mixed_dtype")
            if len(o2.lst) != len(lst):
                return "e"
            if name in CMP:
                res_dt = BOOL
            else:
                res_dt = promote_ref(dt, d2)
                if res_dt is None:
                    return "e"
            out, failed = [], False
            for x, y in zip(lst, o2.lst):
                try:
                    # the Python operator on the Python items (ints; str / bytes / Bits for the other dtypes)
                    px = x if isinstance(x, int) else dt.bits_to_py(x[1:])
                    py = y if isinstance(y, int) else d2.bits_to_py(y[1:])
                    r = PYOPS[name](px, py)
                    if not isinstance(r, (bool, int)):
                        raise TypeError
                    r = int(r) if isinstance(r, bool) else r
                    res_dt.enc(r)
                    out.append(r)
                except (Bad, ZeroDivisionError, ValueError, TypeError):
                    failed = True
            if failed:
                return "e"
            if op == "iaop":
                self.dt, self.lst, self.tr = res_dt, out, ""
                return "-"
            return self.arr(res_dt, out)
        if op == "eql":
            vs = _vals(g[2])
            try:
                for v in vs:
                    dt.enc(v)
            except Bad:
                return "e"
            if len(vs) != len(lst):
                return "e"
            return self.arr(BOOL, [int(PYOPS[g[1]](x, y)) for x, y in zip(lst, vs)])
        raise ValueError(o)


def _run_ref(f):
    """-> (expected tokens incl. data parts, per-step views, flags, complete?) — None where the reference is silent."""
    dt = dt_of(f[2])
    try:
        r = Ref(dt, f[3], _tr(f[4]))
    except Bad:
        return None, [], [], True
    toks = ["I|" + wire(r.data())]
    views = [(_vsstr(r.lst), len(r.lst), r.tr)]
    for o in f[5:]:
        try:
            t = r.step(o)
        except Stop as s:
            toks.append(s.args[0])
            return toks, views, r.flags, True
        if t is None:
            return toks, views, r.flags, False
        toks.append(t + "|" + wire(r.data()))
        views.append((_vsstr(r.lst), len(r.lst), r.tr))
    toks.append(f"F:{_vsstr(r.lst)}|{len(r.lst)}|{wire(r.tr)}|{r.dt.key}")
    return toks, views, r.flags, True


def oracle(line, out, extra):
    f = line.split(SEP)
    if f[1] == "promo":
        a, b = dt_of(f[2]), dt_of(f[3])
        p = promote_ref(a, b)
        exp = "err" if p is None else f"ok {p.key}"
        return None if out == exp else f"promotion of {a.token} and {b.token}: expected {exp} (documented rules), got {out}"
    toks, views, flags, complete = _run_ref(f)
    if toks is None:
        return None if out == "err" else f"construction from a value that does not fit must raise, got {out[:60]}"
    if not out.startswith("ok "):
        return f"construction raised ({out}), the list model gives {toks[0]}"
    got = out[3:].split(" ")
    for k, t in enumerate(toks):
        if k >= len(got):
            return f"history ended after {len(got)} tokens, expected {len(toks)}"
        if got[k] != t:
            what = "initial state" if k == 0 else ("final view" if t.startswith("F:") else f"step {k} ({f[4 + k]})")
            return f"{what}: expected {t} (python list + item encodings + trailing bits), got {got[k]}"
    if complete and len(got) != len(toks):
        return f"history has {len(got)} tokens, expected {len(toks)}"
    for k, v in enumerate(views):
        if k < len(extra.get("views", [])):
            ev = extra["views"][k]
            if (ev[0], ev[1], ev[2]) != (v[0], v[1], v[2]):
                return f"after step {k}: tolist/len/trailing_bits = {ev}, list model says {v}"
    if extra.get("notes"):
        return "; ".join(extra["notes"])
    return None


def _flagged(name):
    def pred(line):
        f = line.split(SEP)
        if f[1] != "hist":
            return False
        try:
            _t, _v, flags, _c = _run_ref(f)
        except Exception:                                          # noqa: BLE001
            return False
        return name in flags
    return pred


REGIONS = {}          # no known finding at present (every defect found by this check is fixed in /repo)


def nontrivial(line):
    f = line.split(SEP)
    return f[1] == "promo" or len(f) > 5


# ---------------------------------------------------------------------------------------------------------
# generators
# ---------------------------------------------------------------------------------------------------------
INT_TOKENS = [t for t, s in DT_STR.items() if dt_of(s).kind != "raw" and dt_of(s).name != "bool"]
FLOAT_TOKENS = [t for t, s in DT_STR.items() if dt_of(s).rt == "float"]
STR_TOKENS = [t for t, s in DT_STR.items() if dt_of(s).rt == "other" and dt_of(s).mult == 1]
BYTES_TOKENS = [t for t, s in DT_STR.items() if dt_of(s).mult != 1]
ZERO_TOKENS = ["u0", "bin0", "bytes0"]
UNIT_TOKENS = [t for t in DT_STR if t not in ZERO_TOKENS]          # every dtype, bytesN (8 bits per unit) included
IDX_TOKENS = ["u3", "i5", "u8", "hex4", ">H", "bool", "float16", "i1", "bin3", "<h", "e2m1mxfp", "u17", "bytes1", "bytes2"]


def D(tok):
    return dt_of(DT_STR[tok])


def rvalue(dt, rng):
    """A valid wire value for the dtype."""
    w = dt.w
    if dt.kind in ("u", "ule"):
        hi = (1 << w) - 1
        return rng.choice([0, 1 & hi, hi, hi // 2, hi - (1 if hi else 0), rng.randint(0, hi), rng.randint(0, hi), rng.randint(0, min(hi, 9))])
    if dt.kind in ("i", "ile"):
        lo, hi = -(1 << (w - 1)), (1 << (w - 1)) - 1
        return rng.choice([0, lo, hi, max(lo, -1), min(hi, 1), rng.randint(lo, hi), rng.randint(lo, hi), rng.randint(max(lo, -9), min(hi, 9))])
    for _ in range(50):
        b = rand_bits(rng, w) if rng.random() < 0.5 else format(rng.getrandbits(w), "0%db" % w)
        if dt.canonical(b):
            return "#" + b
    return "#" + "0" * w


def badvalue(dt, rng):
    """A wire value the dtype must reject."""
    w = dt.w
    if dt.kind in ("u", "ule"):
        return rng.choice([1 << w, -1, (1 << w) + 5])
    if dt.kind in ("i", "ile"):
        return rng.choice([1 << (w - 1), -(1 << (w - 1)) - 1])
    return "!"


def _canon_bits(dt, rng, nbits):
    """nbits of data whose whole items are canonical patterns (floats: no NaN payloads)."""
    k = nbits // dt.w
    return "".join(dt.enc(rvalue(dt, rng)) for _ in range(k)) + rand_bits(rng, nbits - k * dt.w)


def rvals(dt, rng, n):
    return [rvalue(dt, rng) for _ in range(n)]


def rtrail(dt, rng, p=0.5):
    """trailing_bits: None, or 1..w-1 bits (never a whole item)."""
    if dt.w <= 1 or rng.random() > p:
        return None
    return rand_bits(rng, rng.choice([1, dt.w - 1, rng.randint(1, dt.w - 1)]))


def hist(dt, vals, trail, ops, init=None):
    ini = init if init is not None else "L:" + _vsstr(vals)
    return SEP.join(["C14", "hist", dt.s, ini, "None" if trail is None else wire(trail)] + list(ops))


def _slice_args(rng, n):
    pick = lambda: rng.choice([None, None, 0, 1, -1, n, -n, n - 1, n + 1, -n - 1, rng.randint(-n - 2, n + 2)])
    st = rng.choice([None, 1, 1, -1, 2, -2, 3, -3, n + 1, -(n + 1), rng.randint(1, n + 1), -rng.randint(1, n + 1)])
    return pick(), pick(), st


def cntv_op(ref, pv):
    """count(pv) for a Python value: `cntv:<literal>:<mode>:<set>` — mode n: pv is NaN, set = the item values that are NaN;
    mode v: set = the item values equal to pv (Python ==), both taken from the reference state."""
    items = ref.pyitems()
    if isinstance(pv, float) and pv != pv:
        st, mode = [w for w, x in zip(ref.lst, items) if isinstance(x, float) and x != x], "n"
    else:
        st, mode = [w for w, x in zip(ref.lst, items) if x == pv], "v"
    return f"cntv:{_litstr(pv)}:{mode}:{_vsstr(list(dict.fromkeys(st)))}"


def random_op(ref, rng, allow_bad=True):
    """One random operation that stays outside the known-finding regions, chosen by looking at the reference state."""
    dt, n, tr = ref.dt, len(ref.lst), ref.tr
    idx = lambda: rng.choice([0, -1, n - 1, n, -n, -n - 1, rng.randint(-n - 2, n + 2), rng.randint(-n, max(n - 1, -n))])
    numeric = dt.rt != "other"
    r = rng.random()
    v = lambda: _vstr(rvalue(dt, rng) if (not allow_bad or rng.random() > 0.06) else badvalue(dt, rng))
    if r < 0.05:
        return "len"
    if r < 0.13:
        return f"get:{idx()}"
    if r < 0.21:
        a, b, c = _slice_args(rng, n)
        return f"sl:{sv(a)}:{sv(b)}:{sv(c)}"
    if r < 0.29:
        return f"set:{idx()}:{v()}"
    if r < 0.37:
        a, b, c = _slice_args(rng, n)
        if c in (None, 1):
            k = rng.choice([0, 1, 2, 3, max(0, len(range(*slice(a, b, c).indices(n))))])
        else:
            k = len(range(*slice(a, b, c).indices(n)))
            if rng.random() < 0.08:
                k += rng.choice([1, -1]) if k else 1
        vs = rvals(dt, rng, k)
        kind = rng.choice(["", "", ":it", ":tu"])
        return f"ssl:{sv(a)}:{sv(b)}:{sv(c)}:{_vsstr(vs)}{kind}"
    if r < 0.42:
        return f"del:{idx()}"
    if r < 0.49:
        a, b, c = _slice_args(rng, n)
        return f"dsl:{sv(a)}:{sv(b)}:{sv(c)}"
    if r < 0.57:
        return f"app:{v()}"
    if r < 0.63:
        return f"ext:{_vsstr(rvals(dt, rng, rng.randint(0, 3)))}{rng.choice(['', ':it', ':tu'])}"
    if r < 0.71:
        i = rng.choice([0, 1, n, n + 1, n + 5, -1, -n, -n - 1, -n - 3, rng.randint(-n - 2, n + 2)])
        return f"ins:{i}:{v()}"
    if r < 0.78:
        return "pop" if rng.random() < 0.4 else f"pop:{idx()}"
    if r < 0.82:
        return "rev"
    if r < 0.86:
        if dt.rt == "float":
            # floats: the argument is a Python float given literally (the item's value, its negation, a NaN, 0.0, -0.0 …);
            # which items equal it is computed from the reference state (see cntv_op)
            items = ref.pyitems()
            pv = rng.choice(items) if items and rng.random() < 0.6 else rng.choice([0.0, -0.0, 1.0, math.nan, 0.1, 1, math.inf])
            if rng.random() < 0.2 and pv == pv:
                pv = -pv
            return cntv_op(ref, pv)
        if ref.lst and rng.random() < 0.7:
            return f"cnt:{_vstr(rng.choice(ref.lst))}"
        return f"cnt:{_vstr(rvalue(dt, rng))}"
    if r < 0.875:
        # slice assignment from an Array of the same dtype (its trailing bits must not come along) or from itself
        a, b, c = _slice_args(rng, n)
        if rng.random() < 0.3:
            return f"sslself:{sv(a)}:{sv(b)}:{sv(c)}"
        k = len(range(*slice(a, b, c).indices(n))) if c not in (None, 1) else rng.choice([0, 1, 2, 3])
        return f"ssla:{sv(a)}:{sv(b)}:{sv(c)}:{dt.s}:{_vsstr(rvals(dt, rng, k))}:{sv(None if rng.random() < 0.4 else wire(rtrail(dt, rng, 1.0) or ''))}"
    if r < 0.89:
        return rng.choice(["list", "iter", "copy", "tobytes"])
    if r < 0.92:
        return "extself" if rng.random() < 0.5 else f"exta:{dt.s}:{_vsstr(rvals(dt, rng, rng.randint(0, 2)))}:{sv(None if rng.random() < 0.7 else wire(rtrail(dt, rng, 1.0) or ''))}"
    if r < 0.95:
        same = [D(t) for t in UNIT_TOKENS if D(t).key == dt.key]
        o = rng.choice(same) if same and rng.random() < 0.7 else D(rng.choice(UNIT_TOKENS))
        cp = list(ref.lst) if o.key == dt.key and rng.random() < 0.6 else rvals(o, rng, n)
        t2 = ref.tr if rng.random() < 0.7 else (rtrail(o, rng, 0.5) or "")
        return f"eqs:{o.s}:{_vsstr(cp)}:{sv(None if not t2 else t2)}"
    if r < 0.98:
        o = D(rng.choice(["u8", "u4", "i16", "hex4", "bin1", "u3", "<h", ">H", "u12", "bool"]))
        return f"dtype:{o.s}"
    return "bswap" if dt.rt != "float" else "len"


def random_history(dt, rng, steps, trail_p=0.5, allow_bad=True):
    n = rng.choice([0, 1, 2, 3, 4, 5, 6, 8])
    vals = rvals(dt, rng, n)
    trail = rtrail(dt, rng, trail_p)
    f = ["C14", "hist", dt.s, "L:" + _vsstr(vals), "None" if trail is None else wire(trail)]
    ref = Ref(dt, f[3], trail)
    ops = []
    for _ in range(steps):
        o = random_op(ref, rng, allow_bad)
        ops.append(o)
        try:
            if ref.step(o) is None:
                break
        except Stop:
            break
    return SEP.join(f + ops)


INT_OPS = ["add", "sub", "mul", "floordiv", "mod", "lshift", "rshift"]


def _opt_table(dt, res_dt, name, k, items):
    """Graph of `x -> x <op> k` on the items at hand, by the reference codec; None when it leaves what we know."""
    ent = []
    for x in dict.fromkeys(items):
        try:
            r = PYOPS[name](dt.bits_to_py(x[1:]), k)
            if res_dt.rt == "bool":
                ent.append(f"{x}>{1 if r else 0}")
            else:
                r = float(r)
                if r != r or r in (math.inf, -math.inf):
                    return None
                b = res_dt.float_bits(r)
                if res_dt.bits_to_py(b) in (math.inf, -math.inf):
                    return None
                ent.append(f"{x}>#{b}")
        except (Bad, ZeroDivisionError, OverflowError, KeyError, struct.error):
            return None
    return ",".join(ent)


def gen(rng, tier):
    big = tier != "quick"
    # ---------------------------------------------------------------- 1. exhaustive index arithmetic, lengths 0..N
    N = 7 if big else 5
    cyc = itertools.cycle(IDX_TOKENS)
    for n in range(0, N + 1):
        for trailing in (False, True):
            dt = D(next(cyc))
            while trailing and dt.w == 1:
                dt = D(next(cyc))
            mk = lambda: (rvals(dt, rng, n), (rand_bits(rng, rng.randint(1, dt.w - 1)) if trailing else None))
            rngv = list(range(-(n + 3), n + 4))
            vals, tr = mk()
            yield hist(dt, vals, tr, [f"get:{i}" for i in rngv] + ["len", "list", "iter"])
            for i in rngv:
                vals, tr = mk()
                yield hist(dt, vals, tr, [f"set:{i}:{_vstr(rvalue(dt, rng))}", "list"])
                yield hist(dt, vals, tr, [f"del:{i}"])
                yield hist(dt, vals, tr, [f"pop:{i}", "len"])
                yield hist(dt, vals, tr, [f"ins:{i}:{_vstr(rvalue(dt, rng))}"])
            yield hist(dt, vals, tr, ["pop", "pop", "pop"])
            yield hist(dt, vals, tr, ["rev", "rev"])
            bounds = [None] + list(range(-(n + 2), n + 3))
            steps = [None, 1, -1, 2, -2, 3, -3, n + 1, -(n + 1), 0] if not big else [None, 0] + [x for x in range(-(n + 2), n + 3) if x]
            for a in bounds:
                for b in bounds:
                    vals, tr = mk()
                    yield hist(dt, vals, tr, [f"sl:{sv(a)}:{sv(b)}:{sv(c)}" for c in steps])
                    for c in steps:
                        skip = not big and rng.random() < 0.62
                        if skip and c is not None and c <= -2:
                            yield hist(dt, vals, tr, [f"dsl:{sv(a)}:{sv(b)}:{sv(c)}"])      # negative extended steps: always
                        if skip:
                            continue
                        if c == 0:
                            k = 1
                        elif c in (None, 1):
                            k = rng.choice([0, 1, 2, len(range(*slice(a, b, c).indices(n)))])
                        else:
                            k = len(range(*slice(a, b, c).indices(n)))
                        yield hist(dt, vals, tr, [f"ssl:{sv(a)}:{sv(b)}:{sv(c)}:{_vsstr(rvals(dt, rng, k))}"])
                        yield hist(dt, vals, tr, [f"dsl:{sv(a)}:{sv(b)}:{sv(c)}"])
                        if c not in (None, 1, 0) and rng.random() < 0.1:
                            yield hist(dt, vals, tr, [f"ssl:{sv(a)}:{sv(b)}:{sv(c)}:{_vsstr(rvals(dt, rng, k + 1))}"])
    # ---------------------------------------------------------------- 2. every dtype: construction, layout, basic ops
    for tok in UNIT_TOKENS:
        dt = D(tok)
        for rep in range(3 if big else 1):
            n = rng.choice([1, 2, 3, 5])
            vals = rvals(dt, rng, n)
            tr = rtrail(dt, rng, 0.5)
            v = lambda: _vstr(rvalue(dt, rng))
            yield hist(dt, vals, tr, ["len", "list", "iter", "get:0", "get:-1", f"set:{n // 2}:{v()}", f"ins:1:{v()}", "sl:None:None:-1",
                                      "sl:1:None:2", f"ssl:None:None:2:{_vsstr(rvals(dt, rng, (n + 2) // 2))}", "pop:0", "dsl:None:None:2", "copy", "tobytes"])
            yield hist(dt, vals, None, [f"app:{v()}", f"ext:{v()},{v()}", "rev", "pop", "extself", f"ssl:1:2:None:{v()},{v()},{v()}", "del:-1", "list"])
            yield hist(dt, [], None, [], init=f"N:{rng.choice([0, 1, 3])}")
            bb = _canon_bits(dt, rng, rng.choice([0, dt.w, 2 * dt.w + (1 if dt.w > 1 else 0), 3 * dt.w]))
            # (floats: a partial item completed by trailing_bits could be a NaN with a payload, which tolist() cannot show)
            yield hist(dt, [], None if (dt.rt == "float" and len(bb) % dt.w) else tr, ["len", "list", "get:0", f"ins:5:{v()}", "pop"], init="B:" + wire(bb))
            yield hist(dt, vals, None, [], init="-")
            # a value that does not fit: construction, and each single-value mutator leaves the Array unchanged
            bad = _vstr(badvalue(dt, rng))
            yield hist(dt, vals[:1] + [_val(bad)] + vals[1:], None, [])
            yield hist(dt, vals, tr, [f"set:0:{bad}", f"ins:1:{bad}", "list"])
            yield hist(dt, vals, None, [f"app:{bad}", "list", f"ext:{v()},{bad}"])
            yield hist(dt, vals, None, [f"ssl:0:1:None:{v()},{bad}"])
            yield hist(dt, vals + vals, None, [f"ssl:None:None:2:{_vsstr(rvals(dt, rng, n - 1) + [_val(bad)])}"])
    # ---------------------------------------------------------------- 3. random histories, all unit-width dtypes
    per = 40 if big else 7
    for tok in UNIT_TOKENS:
        dt = D(tok)
        for i in range(per):
            yield random_history(dt, rng, rng.choice([1, 2, 3, 5, 8, 12, 15]), trail_p=0.5)
    for _ in range(20000 if big else 1500):
        dt = D(rng.choice(["u1", "u3", "u7", "u8", "u9", "i4", "i8", "u16", "i17", "hex4", "bool", "float16", "<H", "u64", "u65", "bin3", "oct3", "e4m3mxfp"]))
        yield random_history(dt, rng, rng.randint(1, 15), trail_p=0.5)
    # ---------------------------------------------------------------- 4. element-wise operators (int dtypes)
    op_tokens = ["u1", "u4", "u8", "u9", "i1", "i4", "i8", "i16", "u16", "u17", "i64", "u64", "u65", "uintle16", "intle24", "intbe16", ">H", "<i", ">b", "<B", "bool"]
    for tok in op_tokens:
        dt = D(tok)
        for rep in range(6 if big else 2):
            n = rng.choice([0, 1, 2, 3, 5])
            vals = rvals(dt, rng, n)
            tr = rtrail(dt, rng, 0.4)
            ks = [0, 1, -1, 2, 3, 7, -3, (1 << dt.w) - 1, 1 << (dt.w - 1), rng.randint(-20, 20)]
            ops = []
            for name in INT_OPS + list(CMP):
                k = rng.choice(ks if name not in ("lshift", "rshift") else [0, 1, 2, dt.w - 1, dt.w, -1])
                ops.append(f"op:{name}:{k}")
            yield hist(dt, vals, tr, ops)
            yield hist(dt, vals, tr, [f"rop:{name}:{rng.choice(ks)}" for name in ("add", "mul")] + ["uop:neg", "uop:abs"])
            yield hist(dt, vals, tr, [f"rop:sub:{rng.choice(ks)}"])
            if dt.signed and dt.w > 1:
                lim = (1 << (dt.w - 1)) - 1
                yield hist(dt, [rng.randint(-lim, lim) for _ in range(n)], tr, [f"rop:sub:{rng.randint(-3, 3)}", f"rop:sub:{rng.choice(ks)}"])
            for name in INT_OPS:
                k = rng.choice(ks if name not in ("lshift", "rshift") else [0, 1, 2, dt.w, -1])
                yield hist(dt, vals, None, [f"iop:{name}:{k}", "list", f"iop:{name}:{k}"])
            # in-place operator that overflows at exactly one element: the Array (and its trailing bits) must not change
            if n >= 1 and dt.name != "bool":
                hi = (1 << dt.w) - 1 if not dt.signed else (1 << (dt.w - 1)) - 1
                lo = 0 if not dt.signed else -(1 << (dt.w - 1))
                pos = rng.randrange(n)
                small = [rng.randint(max(lo, -2), min(hi - 1, 2)) if hi > 0 else lo for _ in range(n)]
                small[pos] = hi
                t2 = rtrail(dt, rng, 0.6)
                yield hist(dt, small, t2, ["iop:add:1", "list", "iop:sub:0" if t2 is None else "len"])
                yield hist(dt, small, t2, ["iop:mul:2" if hi > 0 else "iop:sub:1", "list"])
                yield hist(dt, small, t2, ["iop:floordiv:0", "iop:mod:0", "iop:lshift:-1", "list"])
                small[pos] = lo
                yield hist(dt, small, t2, ["iop:sub:1", "list"])
                yield hist(dt, small, t2, ["op:sub:1", "op:add:1", "uop:neg", "uop:abs"])
            # bitwise with a Bits value
            for name in ("and", "or", "xor"):
                m = rand_bits(rng, dt.w)
                yield hist(dt, vals, tr, [f"bop:{name}:{wire(m)}", f"bop:{name}:{wire(m)}:r", f"ibop:{name}:{wire(m)}", "list",
                                          f"ibop:{name}:{wire(m + '1')}", f"bop:{name}:{wire(m[:-1])}"])
    for tok in ["hex8", "float32", "bin3", "p3binary", "bits9", "oct6"]:
        dt = D(tok)
        vals = rvals(dt, rng, 3)
        for name in ("and", "or", "xor"):
            m = rand_bits(rng, dt.w)
            yield hist(dt, vals, rtrail(dt, rng, 0.5), [f"bop:{name}:{wire(m)}"] + ([f"ibop:{name}:{wire(m)}", "list"] if dt.rt != "float" else []))
    # operators between Arrays: every pair of these dtypes, all lengths equal / unequal
    pair_tokens = ["u4", "u8", "u16", "i4", "i8", "i16", "bool", "uintle16", "uintbe16", "intbe16", "intle16", "<b", "i64", "u65"]
    for ta in pair_tokens:
        for tb in pair_tokens:
            da, db = D(ta), D(tb)
            n = rng.choice([0, 1, 2, 3, 4])
            va = [rng.randint(0, min(7, (1 << da.w) - 1 if not da.signed else (1 << (da.w - 1)) - 1)) for _ in range(n)] if rng.random() < 0.6 else rvals(da, rng, n)
            vb = [rng.randint(0, min(7, (1 << db.w) - 1 if not db.signed else (1 << (db.w - 1)) - 1)) for _ in range(n)] if rng.random() < 0.6 else rvals(db, rng, n)
            sm = [min(x, 9) if x >= 0 else max(x, -2) for x in vb]    # shift counts stay small
            try:
                for x in sm:
                    db.enc(x)
            except Bad:
                sm = [0] * n
            ops = [f"aop:{name}:{db.s}:{_vsstr(sm if 'shift' in name else vb)}:None" for name in INT_OPS + ["lt", "le", "gt", "ge"]]
            yield hist(da, va, rtrail(da, rng, 0.3), ops)
            if da.key == db.key:
                yield hist(da, va, None, [f"aop:eq:{db.s}:{_vsstr(vb)}:None", f"aop:ne:{db.s}:{_vsstr(va)}:None"])
            yield hist(da, va, None, [f"iaop:{rng.choice(INT_OPS[:3])}:{db.s}:{_vsstr(vb)}:None", "list", "len"])
            yield hist(da, va, None, [f"aop:add:{db.s}:{_vsstr(vb + rvals(db, rng, 1))}:None"])
    for tok in ["u8", "i8", "hex4", "bool", "bin3"]:
        dt = D(tok)
        vals = rvals(dt, rng, 3)
        other = list(vals)
        other[1] = rvalue(dt, rng)
        yield hist(dt, vals, None, [f"eql:eq:{_vsstr(other)}", f"eql:ne:{_vsstr(other)}", f"eql:eq:{_vsstr(other[:2])}", f"aop:eq:{dt.s}:{_vsstr(other)}:None"])
        if dt.rt == "other":
            yield hist(dt, vals, None, [f"aop:add:{dt.s}:{_vsstr(other)}:None", "op:add:1", "uop:neg"])
    # ---------------------------------------------------------------- 5. float dtypes: operator graphs
    for tok in ["float16", "float32", "float64", "floatle32", "floatne64", ">e", "<f", "=d"]:
        dt = D(tok)
        for rep in range(8 if big else 3):
            n = rng.choice([1, 2, 3, 4])
            # modest exactly representable values
            vals = []
            while len(vals) < n:
                x = rng.choice([0.0, 1.0, -1.0, 0.5, 2.0, 3.0, -2.5, 100.0, 0.25, float(rng.randint(-64, 64)), rng.randint(-512, 512) / 8.0])
                try:
                    vals.append("#" + dt.float_bits(x))
                except (Bad, OverflowError):
                    pass
            for name, k in (("add", 1.5), ("sub", 0.25), ("mul", 2), ("mul", -0.5), ("truediv", 2), ("truediv", 4.0), ("add", 3), ("floordiv", 2), ("mod", 2)):
                tbl = _opt_table(dt, dt, name, k, vals)
                if tbl is None:
                    continue
                ks = _fscalar(k) if isinstance(k, float) else str(k)
                yield hist(dt, vals, rtrail(dt, rng, 0.3), [f"opt:{name}:{ks}:{dt.s}:{tbl}", "list"])
                yield hist(dt, vals, None, [f"iopt:{name}:{ks}:{tbl}", "list"])
            for name, k in (("lt", 1.0), ("ge", 0), ("eq", 1.0), ("ne", 0.5)):
                tbl = _opt_table(dt, BOOL, name, k, vals)
                ks = _fscalar(k) if isinstance(k, float) else str(k)
                yield hist(dt, vals, None, [f"opt:{name}:{ks}:{BOOL.s}:{tbl}"])
    # ---------------------------------------------------------------- 6. promotion: all pairs of representative dtypes
    promo = ["u1", "u8", "u9", "u64", "i1", "i8", "i9", "i64", "bool", "uintle16", "uintbe16", "intle16", "intbe32", "uintne32", "intne16",
             "float16", "float32", "float64", "floatle16", "floatle64", "bfloat", "bfloatle", "p3binary", "p4binary", "e4m3mxfp", "e5m2mxfp",
             "e3m2mxfp", "e2m3mxfp", "e2m1mxfp", "e8m0mxfp", "mxint", "hex8", "bin3", "oct6", "bits5", "bytes2", ">H", "<i", ">b", "<B", ">e", "<f", "=d",
             "u16", "i16", "u17", "i17", "u32", "i32", "floatne32"]
    for a in promo:
        for b in promo:
            yield SEP.join(["C14", "promo", DT_STR[a], DT_STR[b]])
    # ---------------------------------------------------------------- 7. extend / equals / dtype change / astype / files
    for _ in range(600 if big else 120):
        dt = D(rng.choice(UNIT_TOKENS))
        vals = rvals(dt, rng, rng.randint(0, 4))
        tr = rtrail(dt, rng, 0.3)
        o = D(rng.choice(UNIT_TOKENS)) if rng.random() < 0.5 else rng.choice([D(t) for t in UNIT_TOKENS if D(t).key == dt.key])
        ov = rvals(o, rng, rng.randint(0, 3))
        yield hist(dt, vals, tr, [f"exta:{o.s}:{_vsstr(ov)}:{sv(None if rng.random() < 0.6 else wire(rtrail(o, rng, 1.0) or ''))}", "list", "len"])
        yield hist(dt, vals, tr, [f"eqs:{o.s}:{_vsstr(ov)}:None", f"eqs:{dt.s}:{_vsstr(vals)}:{sv(tr)}", f"eqs:{dt.s}:{_vsstr(vals)}:None",
                                  f"eqs:{o.s}:{_vsstr(vals) if o.key == dt.key else _vsstr(ov)}:{sv(tr)}"])
        o2 = D(rng.choice(["u8", "u4", "i16", "hex4", "bin1", "u3", "<q", ">H", "u12", "bool", "i5", "u7", "oct3", "<I"]))
        yield hist(dt, vals, tr, [f"dtype:{o2.s}", "list", "len", f"dtype:{dt.s}", "list", "get:-1", f"ins:0:{_vstr(rvalue(dt, rng))}"])
        fb = rand_bits(rng, 8 * rng.randint(0, 9)) if dt.rt != "float" else _canon_bits(dt, rng, 8 * rng.randint(0, 9))
        yield hist(dt, vals, tr, [f"ff:{wire(fb)}:{sv(rng.choice([None, None, 0, 1, 2, len(fb) // dt.w, len(fb) // dt.w + 1]))}", "list"])
        if dt.rt != "float":
            yield hist(dt, vals, tr, ["bswap", "list", "bswap", "tobytes"])
    int_like = [t for t in INT_TOKENS if D(t).w <= 33]
    for _ in range(300 if big else 60):
        a, b = D(rng.choice(int_like + ["bool"])), D(rng.choice(int_like + ["bool"]))
        vals = [rng.randint(0, 1) for _ in range(rng.randint(0, 4))] if rng.random() < 0.5 else rvals(a, rng, rng.randint(0, 4))
        yield hist(a, vals, rtrail(a, rng, 0.3), [f"astype:{b.s}", "list"])
    for tok in ["hex4", "bin3", "float16"]:
        dt = D(tok)
        vals = rvals(dt, rng, 3)
        yield hist(dt, vals, rtrail(dt, rng, 0.5), [f"astype:{dt.s}", f"astype:{D('bin3').s if tok != 'bin3' else D('hex4').s}"])
    for z in ZERO_TOKENS:                                             # a zero-length dtype is refused everywhere
        yield hist(D(z), [], None, [], init="-")
        yield hist(D(z), [], None, [], init="N:2")
        for tok in ["u8", "bin3", "bytes1"]:
            dt = D(tok)
            yield hist(dt, rvals(dt, rng, 2), rtrail(dt, rng, 0.5), [f"dtype:{D(z).s}", "list", f"astype:{D(z).s}", "len"])
    # array.array input: int typecodes, native sizes
    for tc in "bBhHiIlLqQ":
        native = _array.array(tc).itemsize * 8
        stdsize = {"b": 8, "B": 8, "h": 16, "H": 16, "i": 32, "I": 32, "l": 32, "L": 32, "q": 64, "Q": 64}[tc]
        name2 = ("int" if tc.islower() else "uint") + ("" if stdsize == 8 else "le")
        for tok in {f"{'int' if tc.islower() else 'uint'}ne{native}" if native > 8 else ("i8" if tc.islower() else "u8"),
                    "intne32", "uintne32", "intne16", "u8", "i8", "uintne64", "intne64", "intbe32", "i32", "float32"}:
            if tok not in DT_STR:
                continue
            dt = D(tok)
            xs = [rng.randint(0, 100) for _ in range(rng.randint(0, 3))]
            raw = _array.array(tc, xs).tobytes()
            bits = format(int.from_bytes(raw, "big"), "0%db" % (8 * len(raw))) if raw else ""
            own = rvals(dt, rng, 2) if dt.kind != "raw" else []
            yield hist(dt, own, None, [f"extb:{tc}:{name2}:{stdsize}:{native}:{wire(bits)}:{','.join(map(str, xs))}", "list"])
    # ---------------------------------------------------------------- 8. the areas of the six fixed defects (dedicated, short)
    for tok in BYTES_TOKENS:
        dt = D(tok)
        v = lambda: _vstr(rvalue(dt, rng))
        yield hist(dt, rvals(dt, rng, 2), None, ["len", "list"])
        yield hist(dt, [], None, ["len", f"app:{v()}"])
        for nb in (0, 1, 2, 3, 5, 8):
            bits = rand_bits(rng, 8 * nb)
            yield hist(dt, [], None, ["len", "get:0", "get:1", "get:-1", f"get:{nb}", "list", "iter", "sl:None:None:None", "sl:None:None:2", "sl:None:None:-1",
                                      "pop", "len", "del:0", "rev", "tobytes", f"ins:1:{v()}", f"set:0:{v()}", "dsl:None:None:2", f"ext:{v()}", "copy"],
                       init="B:" + wire(bits))
            yield hist(dt, [], None, [f"ff:{wire(rand_bits(rng, 8 * rng.randint(0, 6)))}:{sv(rng.choice([None, 0, 1, 2]))}", "len"], init="B:" + wire(bits))
        yield hist(dt, [], None, [], init="N:2")
    for tok in STR_TOKENS:
        dt = D(tok)
        vals = rvals(dt, rng, 4)
        yield hist(dt, vals, None, [f"cnt:{_vstr(vals[0])}"])
        yield hist(dt, vals, rtrail(dt, rng, 1.0), [f"cnt:{_vstr(rvalue(dt, rng))}"])
    for tok in ["u8", "i5", "hex4", "u3", ">H"]:
        dt = D(tok)
        for n in (0, 1, 2, 3):
            vals = rvals(dt, rng, n)
            for i in (-1, -2, -n, -n - 1, -n - 2, -7):
                yield hist(dt, vals, rtrail(dt, rng, 1.0), [f"ins:{i}:{_vstr(rvalue(dt, rng))}"])
                yield hist(dt, vals, None, [f"ins:{i}:{_vstr(rvalue(dt, rng))}"])
    # (str items of different kinds — hex vs bin — compare as Python strings, not by encoding: not generated)
    for ta, tb in (("u8", "i8"), ("i8", "u8"), ("u8", "u16"), ("float64", "float16"), ("hex4", "hex8"), ("bool", "u1"), ("uintbe16", "u16"), ("bin3", "bin1")):
        da, db = D(ta), D(tb)
        n = rng.randint(0, 3)
        va = rvals(da, rng, n)
        try:
            vb = [db.dec(db.enc(x)) for x in va] if da.kind != "raw" and db.kind != "raw" else rvals(db, rng, n)
        except Bad:
            vb = rvals(db, rng, n)
        if da.rt == "float" or db.rt == "float":
            continue
        yield hist(da, va, None, [f"aop:eq:{db.s}:{_vsstr(vb)}:None"])
        yield hist(da, va, None, [f"aop:ne:{db.s}:{_vsstr(vb)}:None"])
    # ---------------------------------------------------------------- 9. operators BETWEEN two Arrays, every non-numeric / multiplier-bearing dtype on either side
    SK = {"bytes": ["bytes1", "bytes2", "bytes3", "bytes4"], "hex": ["hex4", "hex8", "hex12"], "bin": ["bin1", "bin3", "bin8"], "oct": ["oct3", "oct6"]}
    allcmp = ["eq", "ne", "lt", "le", "gt", "ge"]
    for kind, toks in SK.items():
        for tl in toks:
            for tr_ in toks:
                da, db = D(tl), D(tr_)
                for n in ((2, 3, 4, 6) if kind == "bytes" or big else (2, 3)):
                    va = rvals(da, rng, n)
                    if da.key == db.key:
                        vb = list(va)
                        for _ in range(rng.randint(0, 2)):
                            vb[rng.randrange(n)] = rvalue(db, rng)
                    else:
                        vb = rvals(db, rng, n)
                        # share a prefix / make one a prefix of the other now and then
                        k = rng.randrange(n)
                        m = min(da.w, db.w)
                        vb[k] = "#" + (va[k][1:1 + m] + vb[k][1 + m:])[:db.w].ljust(db.w, "0")
                    ops = [f"aop:{name}:{db.s}:{_vsstr(vb)}:{sv(None if rng.random() < 0.7 else wire(rtrail(db, rng, 1.0) or ''))}" for name in allcmp]
                    yield hist(da, va, rtrail(da, rng, 0.3), ops + ["list"])
                    yield hist(da, va, None, [f"aop:add:{db.s}:{_vsstr(vb)}:None", f"aop:mul:{db.s}:{_vsstr(vb)}:None", f"aop:eq:{db.s}:{_vsstr(vb[:-1])}:None"])
            # Array == list / != list (the list is converted to an Array of our dtype first)
            da = D(tl)
            for n in (2, 3, 5):
                va = rvals(da, rng, n)
                vb = list(va)
                vb[rng.randrange(n)] = rvalue(da, rng)
                yield hist(da, va, rtrail(da, rng, 0.3), [f"eql:eq:{_vsstr(va)}", f"eql:ne:{_vsstr(vb)}", f"eql:eq:{_vsstr(vb)}", f"eql:eq:{_vsstr(vb[:-1])}"])
    # a number on one side, a str / bytes item on the other: == is False everywhere, ordering raises
    for ti in ("u8", "i16", "bool", "<H"):
        for tk in ("bytes1", "bytes2", "bytes3", "hex8", "bin3", "oct6", "bits5"):
            da, db = D(ti), D(tk)
            for n in (2, 3):
                va, vb = rvals(da, rng, n), rvals(db, rng, n)
                yield hist(da, va, None, [f"aop:{name}:{db.s}:{_vsstr(vb)}:None" for name in ("eq", "ne", "lt", "add")])
                yield hist(db, vb, None, [f"aop:{name}:{da.s}:{_vsstr(va)}:None" for name in ("eq", "ne", "ge", "sub")])
    for tk in ("bits1", "bits5", "bits9"):
        da = D(tk)
        for n in (2, 3):
            va = rvals(da, rng, n)
            vb = list(va)
            vb[rng.randrange(n)] = rvalue(da, rng)
            yield hist(da, va, None, [f"aop:eq:{da.s}:{_vsstr(vb)}:None", f"aop:ne:{da.s}:{_vsstr(vb)}:None", f"eql:eq:{_vsstr(vb)}"])
    # ---------------------------------------------------------------- 10. count(value) with Python values given literally:
    # equal-but-differently-encoded and unequal-but-same-encoding-after-rounding arguments against list.count on the items
    def cnt_line(dt, pys, lits, trail=None, wirevals=None):
        """pys: python floats/ints/... to store (skipped when not representable); lits: python values to count."""
        vals = list(wirevals) if wirevals is not None else []
        for x in ([] if wirevals is not None else pys):
            try:
                if dt.kind != "raw":
                    dt.enc(int(x)); vals.append(int(x))
                elif dt.rt == "float":
                    b = dt.float_bits(float(x))
                    if dt.canonical(b) or x != x:
                        vals.append("#" + b)
                else:
                    vals.append(x)
            except (Bad, KeyError, OverflowError, struct.error, ValueError):
                pass
        ref = Ref(dt, "L:" + _vsstr(vals), trail)
        items = ref.pyitems()
        ops = []
        for pv in lits:
            if isinstance(pv, str) and (not pv.isascii() or not pv.isprintable() or any(ch in pv for ch in ":,")):
                continue                                            # (would not survive the line format)
            ops.append(cntv_op(ref, pv))
        return hist(dt, vals, trail, ops)

    def near(fmt, x):
        return struct.unpack(fmt, struct.pack(fmt, x))[0]

    nan, inf = math.nan, math.inf
    flits = [0.0, -0.0, 0, 1, 1.0, True, False, 0.1, 1.5, -2, -2.0, nan, inf, -inf, 2 ** 70, "1.0", b"\x00", 0.5, 3, 1e-3, 65504.0, 1 / 3]
    for tok in ["float16", "float32", "float64", "floatle16", "floatle32", "floatne64", "floatbe32", "bfloat", "bfloatle", ">e", "<f", "=d"] + list(SMALL):
        dt = D(tok)
        extra = []
        if dt.name in ("float", "floatle") and dt.w in (16, 32):
            fmt = ">e" if dt.w == 16 else ">f"
            extra = [near(fmt, 0.1), near(fmt, 1 / 3), near(fmt, 1e-3)]
        pys = [0.0, -0.0, 1.0, 1.5, -2.0, 0.5, 3.0, inf, -inf] + extra + ([nan] if dt.name in ("float", "floatle") else [])
        rng.shuffle(pys)
        yield cnt_line(dt, pys, flits + extra)
        yield cnt_line(dt, pys[:4] + pys[:2], rng.sample(flits + extra, 8), rtrail(dt, rng, 1.0))
    for tok in ["u1", "u2", "u8", "i8", "u16", "i16", "<H", ">h", "intle24", "i64", "u65", "bool", "i1"]:
        dt = D(tok)
        hi = (1 << dt.w) - 1 if not dt.signed else (1 << (dt.w - 1)) - 1
        lo = 0 if not dt.signed else -(1 << (dt.w - 1))
        pys = [0, 1, 1, 2, hi, lo, -1, 3]
        lits = [0, 1, 1.0, 1.5, True, False, -0.0, 0.0, nan, 2.0, 2, "1", hi + 1, lo - 1, -1, -1.0, 2 ** 70, float(hi) if hi < 2 ** 53 else 3.0, b"\x01", 0.999]
        yield cnt_line(dt, pys, lits)
        yield cnt_line(dt, pys[:5], rng.sample(lits, 8), rtrail(dt, rng, 1.0))
    for tok in ["hex4", "hex8", "hex12", "bin1", "bin3", "bin8", "oct3", "oct6"]:
        dt = D(tok)
        vals = rvals(dt, rng, 4) + ["#" + ("1010" * 3 + "10")[:dt.w]]
        vals = vals + vals[:1]
        ref = Ref(dt, "L:" + _vsstr(vals), None)
        strs = ref.pyitems()
        pre = {"hex": "0x", "bin": "0b", "oct": "0o"}[dt.name]
        lits = []
        for x in dict.fromkeys(strs):
            lits += [x, x.upper(), pre + x, x.capitalize(), int(x, {"hex": 16, "bin": 2, "oct": 8}[dt.name]), x + "0", x[:-1] + ("" if len(x) > 1 else "0")]
        lits += [1.0, b"ab", True, ""]
        yield cnt_line(dt, None, [nan], None, vals)                  # (fixed dd3a1bd: count(nan) on str items is 0)
        yield cnt_line(dt, None, lits[:24], None, vals)
        yield cnt_line(dt, None, rng.sample(lits, min(8, len(lits))), rtrail(dt, rng, 1.0), vals)
    for tok in [t for t in BYTES_TOKENS if D(t).w]:
        dt = D(tok)
        vals = rvals(dt, rng, 4)
        vals = vals + vals[:2]
        ref = Ref(dt, "L:" + _vsstr(vals), None)
        bs_ = ref.pyitems()
        lits = []
        for x in dict.fromkeys(bs_):
            lits += [x, bytearray(x), x.decode("latin1"), x + b"x", x[:-1], int.from_bytes(x, "big"), x.upper(), x.swapcase()]
        lits += [1.0, 0, b""]
        yield cnt_line(dt, None, [nan], None, vals)
        yield cnt_line(dt, None, lits[:24], None, vals)
        yield cnt_line(dt, None, rng.sample(lits, 8), rtrail(dt, rng, 1.0), vals)
    # ---------------------------------------------------------------- 11. slice assignment whose right-hand side is an Array / the Array itself
    same_key = {}
    for t in UNIT_TOKENS:
        same_key.setdefault(D(t).key, []).append(t)
    int_toks = ["u3", "u8", "i5", "i8", "u16", "bool", "<H", ">b", "u1"]
    rhs_dts = ["u8", "i5", "hex4", "float16", "bytes2", "bool", ">H", "u3", "bin3", "<h", "bytes1", "float32", "oct6", "e4m3mxfp", "intle24", "u17"]
    cyc2 = itertools.cycle(rhs_dts)
    for n in range(0, (6 if big else 5)):
        bnds = [None, 0, 1, -1, n, -n, n - 1, n + 1] if not big else [None] + list(range(-(n + 1), n + 2))
        for a in dict.fromkeys(bnds):
            for b in dict.fromkeys(bnds):
                for c in [None, 1, -1, 2, -2, 3]:
                    dt = D(next(cyc2))
                    vals = rvals(dt, rng, n)
                    tr = rtrail(dt, rng, 0.4)
                    sl = len(range(*slice(a, b, c).indices(n)))
                    k = sl if c not in (None, 1) else rng.choice([0, 1, 2, 3, sl])
                    if c not in (None, 1) and rng.random() < 0.08:
                        k += 1
                    v = rng.random()
                    if v < 0.45:                                  # same dtype, WITH trailing bits in the source
                        src = D(rng.choice(same_key[dt.key]))
                        t2 = rtrail(src, rng, 1.0) or ("" if src.w == 1 else "1")
                        yield hist(dt, vals, tr, [f"ssla:{sv(a)}:{sv(b)}:{sv(c)}:{src.s}:{_vsstr(rvals(src, rng, k))}:{sv(wire(t2) if t2 else None)}", "list"])
                    elif v < 0.6:                                 # same dtype, no trailing bits
                        src = D(rng.choice(same_key[dt.key]))
                        yield hist(dt, vals, tr, [f"ssla:{sv(a)}:{sv(b)}:{sv(c)}:{src.s}:{_vsstr(rvals(src, rng, k))}:None", "list"])
                    elif v < 0.8:                                 # the Array itself
                        yield hist(dt, vals, tr, [f"sslself:{sv(a)}:{sv(b)}:{sv(c)}", "list"])
                    else:                                         # an Array of another (integer) dtype, with / without trailing bits
                        da, src = D(rng.choice(int_toks)), D(rng.choice(int_toks))
                        va = rvals(da, rng, n)
                        small = [rng.randint(0, 1) for _ in range(k)] if rng.random() < 0.6 else rvals(src, rng, k)
                        try:
                            for x in small:
                                src.enc(x)
                        except Bad:
                            small = [0] * k
                        t2 = rtrail(src, rng, 0.5)
                        yield hist(da, va, rtrail(da, rng, 0.4), [f"ssla:{sv(a)}:{sv(b)}:{sv(c)}:{src.s}:{_vsstr(small)}:{sv(wire(t2) if t2 else None)}", "list"])
    # the owner's example and its neighbours
    u8 = D("u8")
    for t2 in ("111", "1", "1010101", None):
        for (a, b) in ((1, 3), (0, 0), (None, None), (4, None), (-1, None), (2, 1)):
            yield hist(u8, [1, 2, 3, 4], None, [f"ssla:{sv(a)}:{sv(b)}:None:{D('uint8').s if 'uint8' in DT_STR else u8.s}:9,8:{sv(t2)}", "list", "len"])
            yield hist(u8, [1, 2, 3, 4], "101", [f"ssla:{sv(a)}:{sv(b)}:1:{u8.s}:9,8,7:{sv(t2)}", "list"])
