"""C17 — byte and file serialisation is lossless and zero-padded.

lines (TAB separated; bits are 0/1 strings, byte strings lower-case hex, '-' = empty):
  C17 obj <cls> <kind> <data> <off> <len> <chunk> <sink> <lsb0>
        kind  bin | cat | slc                      in-memory object (data = bits; cat: built as a[:off] + a[off:],
                                                   slc: built as a[off:off+len])
              bytes | bytearray | mview            cls(bytes=data, offset=off, length=len)
              mvH | mvI | mvd | mv2d | mvs2 | mvrev | mmap
                                                   cls(bytes=<view>, offset=off, length=len) where the view's BYTES are data:
                                                   memoryview of array('H'/'I'/'d'), 2-D cast, strided [::2], reversed
                                                   [::-1] view, anonymous mmap (the model sees kind `bytes`)
              a_bytes | a_bytearray | a_mview | a_mvH | a_mv2d | a_mvs2 | a_array
                                                   cls(<source>) positional (off = len = None only)
              bio                                  cls(io.BytesIO(data), offset=off, length=len)
              fname | handle                       cls(filename=path, …) / cls(open(path,'rb'), …), file holds data
        off, len  None | int ;  chunk  '-' (tofile as shipped) | override in bits (needs the BITSTRING_VERIF hook)
        sink  b | f  (tofile target: BytesIO / real file; the other one is written too and compared)
        lsb0  0 | 1  (options.lsb0 while the object is built and serialised; cat/slc only with 0)
        -> ok <bits> <tobytes> <bytes property | !> <tofile> | err
  C17 rt <wcls> <bits> <chunk> <rcls> <rkind> <lsb0>   write with tofile to a real file, read back length=len(bits)
        -> ok <bits> | err
  C17 arr <dtype> <isz> <bits> <chunk> <lsb0>      Array data (items + trailing bits): tobytes, tofile
        -> ok <tobytes> <tofile>
  C17 afrom <dtype> <isz> <init> <file> <n> <fk>   Array(dtype, init).fromfile(f, n); fk handle | bio | init (Array(dtype, f))
        -> ok <data bits> | eof <data bits left behind when EOFError was raised> | err
  C17 art <dtype> <isz> <bits> <chunk> <fk>        Array.tofile then Array(dtype).fromfile of what was written
        -> ok <data bits> | err
  C17 hist <target> <bits> <ops> <lsb0>            serialisation history on ONE mutable object: target BitArray | BitStream |
        Array:<dtype> (mutators act on .data; A.* ops on the Array); ops = `;`-separated in-place mutators; before the
        first and after every mutator tobytes() / bytes() / .bytes / tofile are taken (rotating order) and must agree with
        each other and with the object's own padded bits at that moment.  Oracle-only (the model prints `skip`).
        -> ok <final bits> <final tobytes>
  C17 big <cls> <nbits> <seed> <sink>              real chunk crossing (no hook), digest only; not run through the model
        -> ok <sha1 of written bytes> <byte count>
No exception class is fixed by the property: every error is plain `err`.
"""
from harness.common import *
from harness import extract_C17
import io, os, tempfile, shutil, atexit, hashlib, itertools, array as _array_mod, mmap as _mmap, random as _random

FUNCTIONAL = True

# ---------------------------------------------------------------- GENERATED layer (re-extracted on every import)
_GEN_DIR = os.path.join(VERIF, "lean", "BitstringModel", "Gen")
try:
    GEN_INFO = extract_C17.extract(REPO)
except Exception as _e:                      # the constant is no longer extractable: make the obligation fail, loudly
    GEN_INFO = {"tofile_chunk": 0, "tofile_chunk_expr": "EXTRACTION FAILED %s" % type(_e).__name__, "hook_present": False,
                "error": str(_e)}
GEN_CHANGED = extract_C17.write(_GEN_DIR, GEN_INFO)
CHUNK = GEN_INFO["tofile_chunk"]
HOOK = bool(GEN_INFO["hook_present"])
ENV = "BITSTRING_VERIF_TOFILE_CHUNK_BITS"

LEVEL_TEXT = ("Lean theorems (all sizes, all contents): tobytes has ceil(n/8) bytes < 256 whose bits are the input followed by exactly (8 - n%8)%8 zero bits; "
              "bitarray-style byte-at-a-time packing = that specification; the bytes property succeeds iff 8 | n and then equals tobytes; "
              "frombytes(tobytes(l))[0:n] = l and tobytes(frombytes(b)) = b; for every valid (offset, length) window the transcribed "
              "_setbytes_with_truncation, BytesIO branch of _setauto (divmod/bytelength arithmetic) and both _setfile branches (empty file included, "
              "mutable classes included) return exactly drop/take of the source bits; the chunk loop of tofile (_absolute_slice walk) writes exactly tobytes for every chunk size that is a "
              "positive multiple of 8 (a decided witness shows the hypothesis is needed), and the chunk constant extracted from the source on this run is such a multiple (generated obligation); write-then-read "
              "round trip = identity; Array tobytes/tofile/fromfile likewise. None of the transcribed functions consults options.lsb0; the flag is on the "
              "wire and the model ignores it, so any mode dependence shows as a disagreement. "
              "Correspondence: lengths 0..70 x residues, all windows of 0..3-byte (thorough 0..7-byte) sources x 6 source kinds x 4 classes x msb0/lsb0, "
              "hook-overridden chunk sizes 8/16/24/64/1024/4096 around their multiples, Array item sizes 1..64.")
LEVEL_NOTE = ("Trusted: Lean kernel (+propext, Classical.choice, Quot.sound); extract_C17.py reads the chunk constant it claims to read; bitarray's "
              "frombytes/tobytes/slicing, mmap and the file system are modelled as list operations and tied to the code only by the correspondence run; "
              "Array.fromfile and the Array round trip are exercised in msb0 only; invalid (offset, length) windows are C15's and are not generated.")
TECHNIQUE = "Lean 4 proof (padding, window arithmetic, chunk-loop invariant) + generated constant obligation + exhaustive small-domain correspondence"
RULE = ("cases = corpus + known-finding witnesses + exhaustive small domains + seeded random (harness/props/C17.py gen); distinct = distinct case lines; "
        "non-trivial = non-empty data. tofile chunk constant extracted this run: %d bits (%s). %s"
        % (CHUNK, GEN_INFO["tofile_chunk_expr"],
           "Chunk-override hook present: small-chunk cases (8..4096 bits) run." if HOOK else
           "Chunk-override hook NOT present in this tree: the small-chunk cases are skipped; the quick tier instead performs one real crossing of the chunk boundary (digest comparison, not run through the model)."))
ASSUMPTIONS = ["valid (offset, length) windows only: 0 <= offset, 0 <= length, offset + length <= 8 * size (invalid windows belong to C15)",
               "Array.fromfile / Array round trip in msb0 only (under lsb0 fromfile goes through the mode-dependent Bits.__getitem__)"]

# ---------------------------------------------------------------- scratch files (outside /repo and /verif)
_TMP = None
_SEQ = itertools.count()


def _tmpdir() -> str:
    global _TMP
    if _TMP is None or not os.path.isdir(_TMP):
        _TMP = tempfile.mkdtemp(prefix="verif-C17-")
        real = os.path.realpath(_TMP)
        assert not real.startswith(os.path.realpath(REPO) + os.sep) and not real.startswith(os.path.realpath(VERIF) + os.sep), real
        atexit.register(shutil.rmtree, _TMP, True)
    return _TMP


class _Files:
    """Temp files of one case; all removed on exit from the `with` block."""
    def __init__(self):
        self.paths = []
        self.closers = []

    def new(self, data: bytes | None = None) -> str:
        p = os.path.join(_tmpdir(), "f%d" % next(_SEQ))
        self.paths.append(p)
        if data is not None:
            with open(p, "wb") as f:
                f.write(data)
        return p

    def __enter__(self):
        return self

    def __exit__(self, *a):
        for c in self.closers:
            try:
                c.close()
            except Exception:                                    # noqa: BLE001 (exported buffers may still be alive)
                pass
        for p in self.paths:
            try:
                os.unlink(p)
            except OSError:
                pass
        return False


class _chunk_env:
    """Set the hook's environment variable for the duration of one tofile call."""
    def __init__(self, chunk: str):
        self.chunk = chunk

    def __enter__(self):
        self.saved = os.environ.pop(ENV, None)
        if self.chunk != "-" and HOOK:
            os.environ[ENV] = self.chunk

    def __exit__(self, *a):
        os.environ.pop(ENV, None)
        if self.saved is not None:
            os.environ[ENV] = self.saved
        return False


def hx(b: bytes) -> str:
    return bytes(b).hex() or "-"


def unhx(s: str) -> bytes:
    return b"" if s == "-" else bytes.fromhex(s)


def _opt(s: str):
    return None if s == "None" else int(s)


def _kw(off, ln) -> dict:
    kw = {}
    if off is not None:
        kw["offset"] = off
    if ln is not None:
        kw["length"] = ln
    return kw


def _tofile(x, chunk: str, sink: str, files: _Files) -> bytes:
    with _chunk_env(chunk):
        if sink == "b":
            f = io.BytesIO()
            x.tofile(f)
            return f.getvalue()
        p = files.new()
        with open(p, "wb") as f:
            x.tofile(f)
        with open(p, "rb") as f:
            return f.read()


VIEW_KINDS = {"mvH": 2, "mvI": 4, "mvd": 8, "mv2d": 2, "mvs2": 1, "mvrev": 1, "mmap": 1}   # kind -> size granule in bytes


def _view(kind: str, raw: bytes, files: _Files):
    """A bytes-like object of the given kind whose BYTES (memoryview(x).tobytes()) are exactly `raw`."""
    if kind == "mvH":
        v = memoryview(_array_mod.array("H", raw))
    elif kind == "mvI":
        v = memoryview(_array_mod.array("I", raw))
    elif kind == "mvd":
        v = memoryview(_array_mod.array("d", raw))
    elif kind == "mv2d":
        v = memoryview(raw).cast("B", shape=[2, len(raw) // 2])
    elif kind == "mvs2":
        buf = bytearray(b"\xee" * (2 * len(raw)))
        buf[::2] = raw
        v = memoryview(buf)[::2]
    elif kind == "mvrev":
        v = memoryview(raw[::-1])[::-1]
    elif kind == "mmap":
        m = _mmap.mmap(-1, len(raw))
        m.write(raw)
        m.seek(0)
        files.closers.append(m)
        assert m[:] == raw
        return m
    elif kind == "array":
        v = _array_mod.array("H" if len(raw) % 2 == 0 else "B", raw)
        assert v.tobytes() == raw
        return v
    else:
        raise ValueError(kind)
    assert v.tobytes() == raw, (kind, raw)
    return v


def _build(cls: str, kind: str, data: str, off, ln, files: _Files):
    C = CLASSES[cls]
    if kind == "bin":
        return mk(cls, unwire(data))
    if kind == "cat":
        b = unwire(data)
        return mk(cls, b[:off]) + mk(cls, b[off:])
    if kind == "slc":
        return mk(cls, unwire(data))[off:off + ln]
    raw = unhx(data)
    kw = _kw(off, ln)
    if kind == "bytes":
        return C(bytes=raw, **kw)
    if kind == "bytearray":
        return C(bytes=bytearray(raw), **kw)
    if kind == "mview":
        return C(bytes=memoryview(raw), **kw)
    if kind in VIEW_KINDS:
        return C(bytes=_view(kind, raw, files), **kw)
    if kind.startswith("a_"):
        assert off is None and ln is None
        k = kind[2:]
        src = raw if k == "bytes" else bytearray(raw) if k == "bytearray" else memoryview(raw) if k == "mview" else _view(k, raw, files)
        return C(src)
    if kind == "bio":
        return C(io.BytesIO(raw), **kw)
    p = files.new(raw)
    if kind == "fname":
        return C(filename=p, **kw)
    if kind == "handle":
        with open(p, "rb") as h:
            return C(h, **kw)
    raise ValueError(kind)


def _array(dt: str, isz: int, bits: str):
    d = bitstring.Dtype(dt)
    assert d.bitlength == isz, (dt, isz)
    n = len(bits) - len(bits) % isz
    if len(bits) % isz and len(bits) % 2:            # two ways of getting trailing bits into an Array
        return bitstring.Array(dt, Bits(bin=bits[:n]) if n else None, trailing_bits="0b" + bits[n:])
    return bitstring.Array(dt, Bits(bin=bits)) if bits else bitstring.Array(dt)


_LSB0_FIELD = {"obj": 9, "rt": 7, "arr": 6, "hist": 5}                    # position of the lsb0 flag; other ops run in msb0


def _lsb0(f) -> bool:
    return f[1] in _LSB0_FIELD and f[_LSB0_FIELD[f[1]]] == "1"


def _array_after(a, dt: str, isz: int) -> dict:
    """State of an Array after fromfile: data bits, len, trailing bits, tobytes/tofile, and whether one more item can
    be appended (it cannot when a partial item was left behind).  The append is made last, on the Array itself."""
    ex = {"data": wire(a.data.bin), "len": len(a), "trailing": wire(a.trailing_bits.bin), "tobytes": hx(a.tobytes())}
    sink = io.BytesIO()
    a.tofile(sink)
    ex["tofile"] = hx(sink.getvalue())
    try:
        zero = bitstring.Array(dt, Bits(length=isz))[0]          # the all-zero-bits item of this dtype
        a.append(zero)
        ex["append"] = "ok %d %s" % (len(a), wire(a.data.bin))
    except Exception as e:                                       # noqa: BLE001
        ex["append"] = "err " + type(e).__name__
    return ex


def execute(line: str):
    f = line.split(SEP)
    with options(lsb0=_lsb0(f)), _Files() as files:
        return _execute(f, files)


def _execute(f, files):
    op = f[1]
    extra = {}
    if op == "obj":
        _, _, cls, kind, data, off, ln, chunk, sink, _m = f
        off, ln = _opt(off), _opt(ln)
        assert _m == "0" or kind not in ("cat", "slc")
        try:
            x = _build(cls, kind, data, off, ln, files)
        except AssertionError:
            raise
        except Exception as e:                                   # noqa: BLE001
            return "err", {"exc": type(e).__name__}
        try:
            bits = x.bin
            tb = x.tobytes()
            try:
                bp = hx(x.bytes)
            except Exception:                                    # noqa: BLE001 — "refuses others"
                bp = "!"
            w = _tofile(x, chunk, sink, files)
            out = "ok %s %s %s %s" % (wire(bits), hx(tb), bp, hx(w))
            extra["dunder"] = hx(bytes(x))
            extra["len"] = len(x)
            extra["other_sink"] = hx(_tofile(x, chunk, "f" if sink == "b" else "b", files))
            extra["bits_after"] = wire(x.bin)
            extra["tobytes_again"] = hx(x.tobytes())
            extra["class"] = type(x).__name__
        except Exception as e:                                   # noqa: BLE001
            return "err", {"exc": type(e).__name__, "stage": "serialise"}
        if chunk != "-" and not HOOK:
            extra["hook_missing"] = True
        return out, extra
    if op == "rt":
        _, _, wcls, bits, chunk, rcls, rkind, _m = f
        b = unwire(bits)
        x = mk(wcls, b)
        p = files.new()
        with _chunk_env(chunk):
            with open(p, "wb") as h:
                x.tofile(h)
        raw = open(p, "rb").read()
        extra["file"] = hx(raw)
        extra["size"] = os.path.getsize(p)
        C = CLASSES[rcls]

        def rd():
            if rkind == "fname":
                return C(filename=p, length=len(b))
            if rkind == "handle":
                with open(p, "rb") as h:
                    return C(h, length=len(b))
            if rkind == "bio":
                return C(io.BytesIO(raw), length=len(b))
            if rkind in ("bytes", "bytearray"):
                return C(bytes=raw if rkind == "bytes" else bytearray(raw), length=len(b))
            raise AssertionError(rkind)
        try:
            y = rd()
            out = "ok " + wire(y.bin)
            extra["eq"] = bool(y == x)
        except AssertionError:
            raise
        except Exception as e:                                   # noqa: BLE001
            out = "err"
            extra["exc"] = type(e).__name__
        return out, extra
    if op == "arr":
        _, _, dt, isz, bits, chunk, _m = f
        b = unwire(bits)
        with options(lsb0=False):                                # the Array itself is built and inspected in msb0;
            a = _array(dt, int(isz), b)                          # only the serialisation runs in the case's mode
        try:
            tb = a.tobytes()
            w = _tofile(a, chunk, "b", files)
            out = "ok %s %s" % (hx(tb), hx(w))
            extra["other_sink"] = hx(_tofile(a, chunk, "f", files))
            with options(lsb0=False):
                extra["data_after"] = wire(a.data.bin)
                extra["len"] = len(a)
                extra["trailing"] = wire(a.trailing_bits.bin)
        except Exception as e:                                   # noqa: BLE001
            return "err", {"exc": type(e).__name__}
        return out, extra
    if op == "afrom":
        _, _, dt, isz, init, file, n, fk = f
        raw, n = unhx(file), _opt(n)
        a = _array(dt, int(isz), unwire(init))
        tag = "ok"
        try:
            if fk == "bio":
                src = io.BytesIO(raw)
                a.fromfile(src) if n is None else a.fromfile(src, n)
            else:
                p = files.new(raw)
                with open(p, "rb") as h:
                    if fk == "init":
                        assert n is None and init == "-"
                        a = bitstring.Array(dt, h)
                    elif n is None:
                        a.fromfile(h)
                    else:
                        a.fromfile(h, n)
        except AssertionError:
            raise
        except EOFError:                                         # raised AFTER the append: the Array is observed below
            tag = "eof"
        except Exception as e:                                   # noqa: BLE001
            tag = "err"
            extra["exc"] = type(e).__name__
        # what the Array holds after the call, on every path (success, EOFError, refusal)
        extra.update(_array_after(a, dt, int(isz)))
        out = "err" if tag == "err" else tag + " " + extra["data"]
        return out, extra
    if op == "art":
        _, _, dt, isz, bits, chunk, fk = f
        a = _array(dt, int(isz), unwire(bits))
        try:
            b2 = bitstring.Array(dt)
            if fk == "bio":
                w = _tofile(a, chunk, "b", files)
                b2.fromfile(io.BytesIO(w))
            else:
                p = files.new()
                with _chunk_env(chunk):
                    with open(p, "wb") as h:
                        a.tofile(h)
                with open(p, "rb") as h:
                    b2.fromfile(h)
            out = "ok " + wire(b2.data.bin)
            extra.update(_array_after(b2, dt, int(isz)))
        except Exception as e:                                   # noqa: BLE001
            out = "err"
            extra["exc"] = type(e).__name__
        return out, extra
    if op == "hist":
        _, _, target, bits, ops, _m = f
        b = unwire(bits)
        arr = None
        if target.startswith("Array:"):
            dt = target[6:]
            with options(lsb0=False):
                arr = bitstring.Array(dt, Bits(bin=b)) if b else bitstring.Array(dt)
            x = arr.data
        else:
            x = mk(target, b)
        steps = []

        def observe(label, status, k):
            nonlocal x
            if arr is not None:
                x = arr.data
            ob = {"op": label, "status": status}
            order = ["tobytes", "dunder", "prop", "tofile", "atobytes", "atofile"]
            order = order[k % 4:] + order[:k % 4]
            for w in order:
                try:
                    if w == "tobytes":
                        ob[w] = hx(x.tobytes())
                    elif w == "dunder":
                        ob[w] = hx(bytes(x))
                    elif w == "prop":
                        try:
                            ob[w] = hx(x.bytes)
                        except bitstring.InterpretError:
                            ob[w] = "!"
                    elif w == "tofile":
                        sk = io.BytesIO()
                        x.tofile(sk)
                        ob[w] = hx(sk.getvalue())
                    elif arr is not None and w == "atobytes":
                        ob[w] = hx(arr.tobytes())
                    elif arr is not None and w == "atofile":
                        sk = io.BytesIO()
                        arr.tofile(sk)
                        ob[w] = hx(sk.getvalue())
                except Exception as e:                           # noqa: BLE001
                    ob[w] = "EXC " + type(e).__name__
            ob["bits"] = wire(x.bin)
            steps.append(ob)

        observe("init", "ok", 0)
        for k, o in enumerate([t for t in ops.split(";") if t and t != "-"], 1):
            try:
                _mutate(x, arr, o)
                st = "ok"
            except AssertionError:
                raise
            except Exception as e:                               # noqa: BLE001 — a refused mutator is fine: the object
                st = "exc " + type(e).__name__                   # is observed again whatever happened
            observe(o, st, k)
        extra["steps"] = steps
        return "ok %s %s" % (steps[-1]["bits"], steps[-1].get("tobytes")), extra
    if op == "big":
        _, _, cls, nbits, seed, sink = f
        nbits = int(nbits)
        data = _big_data(nbits, int(seed))
        x = CLASSES[cls](bytes=data, length=nbits)
        del data
        os.environ.pop(ENV, None)
        h = hashlib.sha1()
        cnt = 0
        if sink == "b":
            class _Sink:
                def write(self, b):
                    nonlocal cnt
                    h.update(b)
                    cnt += len(b)
            x.tofile(_Sink())
        else:
            p = files.new()
            with open(p, "wb") as fh:
                x.tofile(fh)
            cnt = os.path.getsize(p)
            with open(p, "rb") as fh:
                for blk in iter(lambda: fh.read(1 << 24), b""):
                    h.update(blk)
            y = CLASSES[cls](filename=p, length=nbits)
            extra["readback_eq"] = bool(y == x)
            del y
        extra["tobytes_sha1"] = hashlib.sha1(x.tobytes()).hexdigest()
        return "ok %s %d" % (h.hexdigest(), cnt), extra
    raise ValueError(op)


def _mutate(x, arr, o: str) -> None:
    """Apply one in-place mutator (wire form `name[:args]`) to the mutable bitstring x (or to the Array for A.* ops)."""
    name, _, arg = o.partition(":")
    b = lambda t: ("0b" + t) if t else ""                        # noqa: E731
    n = len(x)
    if name == "reverse":
        x.reverse() if not arg else x.reverse(*map(int, arg.split(",")))
    elif name == "invert":
        x.invert() if not arg else x.invert(int(arg))
    elif name == "append":
        x.append(b(arg))
    elif name == "prepend":
        x.prepend(b(arg))
    elif name == "iadd":
        x += b(arg)
    elif name == "insert":
        t, pos = arg.split("@")
        x.insert(b(t), int(pos))
    elif name == "overwrite":
        t, pos = arg.split("@")
        x.overwrite(b(t), int(pos))
    elif name == "set":
        v, pos = arg.split(",")
        x.set(int(v), int(pos))
    elif name == "setall":
        x.set(int(arg))
    elif name == "ror":
        x.ror(int(arg))
    elif name == "rol":
        x.rol(int(arg))
    elif name == "byteswap":
        x.byteswap() if not arg else x.byteswap(int(arg))
    elif name == "shl":
        x <<= int(arg)
    elif name == "shr":
        x >>= int(arg)
    elif name == "imul":
        x *= int(arg)
    elif name == "clear":
        x.clear()
    elif name == "setitem":
        i, v = arg.split("=")
        x[int(i)] = int(v)
    elif name == "setslice":
        sl, t = arg.split("=")
        a_, b_ = sl.split(",")
        x[int(a_):int(b_)] = b(t)
    elif name == "setstep":
        x[::2] = int(arg)
    elif name == "del":
        a_, b_ = arg.split(",")
        del x[int(a_):int(b_)]
    elif name == "delitem":
        del x[int(arg)]
    elif name == "replace":
        old, new = arg.split(">")
        x.replace(b(old), b(new))
    elif name == "iand0":
        x &= BitArray(n)
    elif name == "ior1":
        x |= ~BitArray(n) if n else BitArray()
    elif name == "ixor1":
        x ^= ~BitArray(n) if n else BitArray()
    elif name == "setuint":
        x.uint = int(arg) % (1 << n) if n else 0
    elif name == "sethex":
        x.hex = arg
    elif name == "A.reverse":
        arr.reverse()
    elif name == "A.byteswap":
        arr.byteswap()
    elif name == "A.append":
        arr.append(bitstring.Array(arr.dtype, Bits(length=arr.dtype.bitlength))[0])
    elif name == "A.pop":
        arr.pop()
    elif name == "A.extend":
        arr.extend(bitstring.Array(arr.dtype, Bits(length=2 * arr.dtype.bitlength)))
    elif name == "A.insert":
        arr.insert(int(arg), bitstring.Array(arr.dtype, Bits(length=arr.dtype.bitlength))[0])
    elif name == "A.clear":
        arr.clear()
    elif name == "A.setdata":
        arr.data = BitArray(bin=arg)
    else:
        raise AssertionError("unknown mutator " + o)


def _big_data(nbits: int, seed: int) -> bytes:
    nbytes = (nbits + 7) // 8
    base = _random.Random(seed).randbytes(251)                   # prime period: a misplaced chunk shows
    return (base * (nbytes // 251 + 1))[:nbytes]


# ---------------------------------------------------------------- oracle: the property from plain int/str arithmetic
def _src_bits(raw: bytes) -> str:
    return format(int.from_bytes(raw, "big"), "0%db" % (8 * len(raw))) if raw else ""


def _exp_bytes(bits: str) -> bytes:
    s = bits + "0" * ((-len(bits)) % 8)
    return int(s, 2).to_bytes(len(s) // 8, "big") if s else b""


def _valid_window(nbits, off, ln):
    o = 0 if off is None else off
    n = nbits - o if ln is None else ln
    return (o, n) if (o >= 0 and n >= 0 and o + n <= nbits) else None


def _obj_expected_bits(kind, data, off, ln):
    if kind in ("bin", "cat"):
        return unwire(data)
    if kind == "slc":
        return unwire(data)[off:off + ln]
    src = _src_bits(unhx(data))
    w = _valid_window(len(src), off, ln)
    if w is None:
        return None
    return src[w[0]:w[0] + w[1]]


def _check_after(extra: dict, data: str, isz: int):
    """The Array after fromfile must hold exactly `data`, and everything derived from it must agree."""
    if extra.get("data") != wire(data):
        return f"Array data after the call is {extra.get('data')}, expected {wire(data)}"
    if extra.get("len") != len(data) // isz:
        return f"len(Array) after the call is {extra.get('len')}, expected {len(data) // isz}"
    tr = data[len(data) - len(data) % isz:] if len(data) % isz else ""
    if extra.get("trailing") != wire(tr):
        return f"trailing_bits after the call is {extra.get('trailing')}, expected {wire(tr)}"
    eb = hx(_exp_bytes(data))
    if extra.get("tobytes") != eb or extra.get("tofile") != eb:
        return f"tobytes()/tofile after the call gave {extra.get('tobytes')} / {extra.get('tofile')}, expected {eb}"
    if len(data) % isz == 0:
        want = "ok %d %s" % (len(data) // isz + 1, wire(data + "0" * isz))
        if extra.get("append") != want:
            return f"append of one item after the call gave {extra.get('append')}, expected {want}"
    return None


def oracle(line: str, out: str, extra: dict):
    f = line.split(SEP)
    op = f[1]
    if op == "obj":
        _, _, cls, kind, data, off, ln, chunk, sink, _m = f
        bits = _obj_expected_bits(kind, data, _opt(off), _opt(ln))
        if bits is None:
            return None                                          # invalid window: C15's, nothing claimed here
        eb = _exp_bytes(bits)
        exp = "ok %s %s %s %s" % (wire(bits), hx(eb), hx(eb) if len(bits) % 8 == 0 else "!", hx(eb))
        if out != exp:
            return f"expected {exp} (window of the source bits; int(bin + padding, 2).to_bytes), got {out}"
        for k, what in (("dunder", "bytes(s)"), ("other_sink", "tofile to the other kind of file object"),
                        ("tobytes_again", "second tobytes()")):
            if extra.get(k) != hx(eb):
                return f"{what} gave {extra.get(k)}, expected {hx(eb)}"
        if extra.get("len") != len(bits):
            return f"len() is {extra.get('len')}, expected {len(bits)}"
        if extra.get("bits_after") != wire(bits):
            return f"object changed by serialisation: {extra.get('bits_after')}"
        if extra.get("class") != cls:
            return f"class {extra.get('class')}, expected {cls}"
        return None
    if op == "rt":
        _, _, wcls, bits, chunk, rcls, rkind, _m = f
        b = unwire(bits)
        eb = _exp_bytes(b)
        if extra.get("file") != hx(eb) or extra.get("size") != len(eb):
            return f"tofile wrote {extra.get('file')} ({extra.get('size')} bytes), expected {hx(eb)}"
        if out != "ok " + wire(b):
            return f"read back {out}, expected ok {wire(b)}"
        if extra.get("eq") is not True:
            return "object read back compares unequal to the object written"
        return None
    if op == "arr":
        _, _, dt, isz, bits, chunk, _m = f
        b = unwire(bits)
        eb = _exp_bytes(b)
        exp = "ok %s %s" % (hx(eb), hx(eb))
        if out != exp:
            return f"expected {exp}, got {out}"
        if extra.get("other_sink") != hx(eb):
            return f"Array.tofile to a real file wrote {extra.get('other_sink')}, expected {hx(eb)}"
        if extra.get("data_after") != wire(b):
            return "Array data changed by serialisation"
        if extra.get("len") != len(b) // int(isz) or extra.get("trailing") != wire(b[len(b) - len(b) % int(isz):] if len(b) % int(isz) else ""):
            return f"Array len/trailing_bits wrong: {extra.get('len')} {extra.get('trailing')}"
        return None
    if op == "afrom":
        _, _, dt, isz, init, file, n, fk = f
        isz, n, init = int(isz), _opt(n), unwire(init)
        src = _src_bits(unhx(file))
        if n is not None and n < 0:
            return None                                          # negative counts: C15's
        avail = len(src) // isz
        if len(init) % isz:
            exp, data = "err", init                              # refused, nothing changes
        else:
            k = avail if n is None else min(n, avail)            # exactly min(n, available) whole items, nothing else
            data = init + src[:k * isz]
            exp = ("eof " if (n is not None and n > avail) else "ok ") + wire(data)   # EOFError iff n > available
        if out != exp:
            return f"expected {exp} (min(n, available) whole items from the start of the file; EOFError iff n > available), got {out}"
        return _check_after(extra, data, isz)
    if op == "art":
        _, _, dt, isz, bits, chunk, fk = f
        isz, b = int(isz), unwire(bits)
        p = b + "0" * ((-len(b)) % 8)
        data = p[:len(p) // isz * isz]
        exp = "ok " + wire(data)
        if out != exp:
            return f"expected {exp} (the written bytes read back as whole items), got {out}"
        return _check_after(extra, data, isz)
    if op == "hist":
        done = []
        for st in extra.get("steps", []):
            done.append(st["op"])
            bits = unwire(st["bits"])
            eb = hx(_exp_bytes(bits))
            want = {"tobytes": eb, "dunder": eb, "tofile": eb, "prop": eb if len(bits) % 8 == 0 else "!"}
            if "atobytes" in st:
                want["atobytes"] = want["atofile"] = eb
            names = {"tobytes": "tobytes()", "dunder": "bytes(s)", "prop": "the bytes property", "tofile": "tofile",
                     "atobytes": "Array.tobytes()", "atofile": "Array.tofile"}
            for k, v in want.items():
                if st.get(k) != v:
                    return (f"after `{'; '.join(done)}` the object's bits are {st['bits']} but {names[k]} gave {st.get(k)}, "
                            f"expected {v} (the bits zero-padded to a byte boundary)")
        if not extra.get("steps"):
            return "no observations"
        return None
    if op == "big":
        _, _, cls, nbits, seed, sink = f
        nbits = int(nbits)
        e = bytearray(_big_data(nbits, int(seed)))
        if nbits % 8:
            e[-1] &= (0xFF << (8 - nbits % 8)) & 0xFF
        exp = "ok %s %d" % (hashlib.sha1(e).hexdigest(), len(e))
        if out != exp:
            return f"tofile across the real chunk boundary wrote {out}, expected {exp}"
        if extra.get("tobytes_sha1") != exp.split()[1]:
            return "tobytes() of the large object differs from the expected bytes"
        if extra.get("readback_eq") is False:
            return "file read back compares unequal to the object written"
        return None
    return None


def model_line(line: str) -> str:
    f = line.split(SEP)
    if f[1] == "obj" and (f[3] in VIEW_KINDS or f[3].startswith("a_")):
        f[3] = "bytes"              # to the model every bytes-like source is its bytes (a_*: offset = length = None)
        return SEP.join(f)
    if f[1] == "hist":
        return SEP.join(["C17", "big"])                           # oracle-only
    return line


def compare(o: str, m: str, line: str) -> bool:
    if line.split(SEP)[1] in ("big", "hist"):                     # oracle-only (too large / not modelled)
        return m == "skip"
    return o == m


def nontrivial(line: str) -> bool:
    f = line.split(SEP)
    return {"obj": lambda: f[4] != "-", "rt": lambda: f[3] != "-", "arr": lambda: f[4] != "-",
            "afrom": lambda: f[5] != "-", "art": lambda: f[4] != "-", "big": lambda: True, "hist": lambda: f[3] != "-"}.get(f[1], lambda: True)()


REGIONS = {}            # no open known deviation (empty-file: fixed a177cac; tofile-lsb0-chunks: fixed 14ceb68)

# ---------------------------------------------------------------- generators
BYTE_KINDS = ["bytes", "bytearray", "mview", "bio", "fname", "handle"]
DTYPES = {1: ["bool", "u1", "bin1"], 3: ["u3", "oct3", "i3", "bin3"], 4: ["hex4", "u4"], 7: ["u7", "i7"],
          8: ["u8", "i8", "hex8", "p3binary8", "bytes1"], 12: ["u12", "i12"], 13: ["u13"], 16: ["u16", "float16", "bfloat16", "uintle16", "bytes2"],
          24: ["u24", "intbe24", "bytes3"], 32: ["float32", "u32", "floatle32"], 64: ["float64", "i64"]}


def _rbytes(rng, n: int) -> bytes:
    r = rng.random()
    if r < 0.1:
        return b"\xff" * n
    if r < 0.15:
        return b"\x00" * n
    return bytes(rng.getrandbits(8) for _ in range(n))


def _contents(rng, n: int):
    """Contents for a length: all ones (makes the zero padding visible), random, and a second random."""
    if n == 0:
        return [""]
    return ["1" * n, rand_bits(rng, n), format(rng.getrandbits(n) | 1, "0%db" % n)]


def _obj(cls, kind, data, off, ln, chunk, sink, lsb0="0"):
    return SEP.join(["C17", "obj", cls, kind, data, str(off), str(ln), chunk, sink, lsb0])


def _mode(rng, p=0.25) -> str:
    return "1" if rng.random() < p else "0"


def _mem_case(rng, cls, bits, chunk="-"):
    n = len(bits)
    r = rng.random()
    sink = rng.choice("bf")
    if r < 0.5:
        return _obj(cls, "bin", wire(bits), None, None, chunk, sink, _mode(rng, 0.5))
    if r < 0.75:
        return _obj(cls, "cat", wire(bits), rng.randint(0, n), None, chunk, sink)
    pre, post = rand_bits(rng, rng.randint(0, 9)), rand_bits(rng, rng.randint(0, 9))
    return _obj(cls, "slc", wire(pre + bits + post), len(pre), n, chunk, sink)


def _windows(nbits: int):
    """Every valid (offset, length) incl. the None forms."""
    yield None, None
    for o in range(nbits + 1):
        yield o, None
    for n in range(nbits + 1):
        yield None, n
    for o in range(nbits + 1):
        for n in range(nbits - o + 1):
            yield o, n


def _near(mult: int, upto: int, spread: int):
    s = set()
    for k in range(0, upto + 1):
        for d in range(-spread, spread + 1):
            if k * mult + d >= 0:
                s.add(k * mult + d)
    return sorted(s)


def gen(rng, tier: str):
    big = tier != "quick"
    # A. in-memory objects: every length 0..70 (all residues mod 8, several bytes) x contents x four classes
    for n in range(0, 71):
        for bits in _contents(rng, n):
            for cls in CLASS_NAMES:
                yield _mem_case(rng, cls, bits)
    for n in range(0, 11 if big else 9):                          # every content of the short lengths
        for t in itertools.product("01", repeat=n):
            yield _mem_case(rng, rng.choice(CLASS_NAMES), "".join(t))
    for n in [127, 128, 129, 255, 256, 257, 1023, 1024, 1025, 2047, 2048, 2049, 4095, 4096, 4097, 8191, 8192, 8193]:
        for cls in CLASS_NAMES:
            for bits in _contents(rng, n)[: 3 if big else 2]:
                yield _mem_case(rng, cls, bits)
    # B. windows over byte sources: exhaustive (offset, length) x source kinds x classes
    full = 7 if big else 3
    for nb in range(0, full + 1):
        for off, ln in _windows(8 * nb):
            for kind in BYTE_KINDS:
                for cls in CLASS_NAMES:
                    yield _obj(cls, kind, hx(_rbytes(rng, nb)), off, ln, "-", rng.choice("bf"), _mode(rng))
    for nb in range(full + 1, 8):                                 # quick: every window once, kind and class drawn
        for off, ln in _windows(8 * nb):
            yield _obj(rng.choice(CLASS_NAMES), rng.choice(BYTE_KINDS), hx(_rbytes(rng, nb)), off, ln, "-", rng.choice("bf"), _mode(rng))
    for _ in range(20000 if big else 2500):                       # larger sources, drawn windows biased to the edges
        nb = rng.choice([8, 9, 15, 16, 17, 31, 32, 33, 63, 64, 65, 127, 128, 129, 255, 256, 257, rng.randint(8, 300)])
        nbits = 8 * nb
        off = rng.choice([None, 0, 1, 7, 8, 9, nbits - 9, nbits - 8, nbits - 7, nbits - 1, nbits, rng.randint(0, nbits), rng.randint(0, nbits)])
        o = off or 0
        ln = rng.choice([None, 0, 1, 7, 8, 9, nbits - o, nbits - o - 1, max(0, nbits - o - 8), rng.randint(0, nbits - o), rng.randint(0, nbits - o)])
        if ln is not None and (ln < 0 or o + ln > nbits):
            ln = nbits - o
        yield _obj(rng.choice(CLASS_NAMES), rng.choice(BYTE_KINDS), hx(_rbytes(rng, nb)), off, ln, "-", rng.choice("bf"), _mode(rng))
    # B2. bytes-like sources that are not flat byte strings: the window is the window of the source's BYTES
    for kind, gran in VIEW_KINDS.items():
        sizes = [s_ for s_ in ((2, 4) if gran == 2 else (4,) if gran == 4 else (8,) if gran == 8 else (1, 2, 3)) ]
        for nb in sizes:
            ws = list(_windows(8 * nb))
            if len(ws) > 700 and not big:
                ws = [(None, None), (None, 8 * nb), (0, None), (8 * nb, None)] + rng.sample(ws, 400)
            for off, ln in ws:
                yield _obj(rng.choice(CLASS_NAMES), kind, hx(_rbytes(rng, nb)), off, ln, "-", rng.choice("bf"), _mode(rng))
        for _ in range(400 if big else 60):                       # longer views, windows in the later part
            nb = gran * rng.randint(2, 12) if gran > 1 else rng.randint(4, 40)
            nbits = 8 * nb
            off = rng.choice([None, 0, 3, nbits // 2, nbits // 2 + 5, nbits - 9, nbits - 1, nbits, rng.randint(0, nbits)])
            o = off or 0
            ln = rng.choice([None, 0, min(1, nbits - o), nbits - o, max(0, nbits - o - 3), rng.randint(0, nbits - o)])
            yield _obj(rng.choice(CLASS_NAMES), kind, hx(_rbytes(rng, nb)), off, ln, "-", rng.choice("bf"), _mode(rng))
    for kind in ("a_bytes", "a_bytearray", "a_mview", "a_mvH", "a_mv2d", "a_mvs2", "a_mvrev", "a_array"):
        for nb in (0, 1, 2, 3, 4, 6, 8, 16, 34):
            if kind in ("a_mvH", "a_mv2d") and (nb % 2 or nb == 0):
                continue
            for cls in CLASS_NAMES:
                yield _obj(cls, kind, hx(_rbytes(rng, nb)), None, None, "-", rng.choice("bf"), _mode(rng))
    # H. serialisation histories on one mutable object: observe, mutate in place, observe again
    yield from _gen_hist(rng, big)
    # C. the tofile chunk boundary with the hook's override: below / at / above every multiple
    if HOOK:
        plan = [(8, _near(8, 5, 4) + list(range(0, 41))), (64, _near(64, 4, 9)), (1024, _near(1024, 3, 9) + _near(1024, 8, 2)[-5:] + [16387]),
                (16, _near(16, 4, 3)), (24, _near(24, 3, 3)), (4096, [4095, 4096, 4097, 8191, 8192, 8193, 8200])]
        for chunk, lens in plan:
            for n in sorted(set(lens)):
                for bits in _contents(rng, n)[:2]:
                    cls = rng.choice(CLASS_NAMES)
                    yield _mem_case(rng, cls, bits, str(chunk))
                    # file / bytes backed object of n bits out of a longer source
                    tail = rng.randint(0, 3)
                    raw = _exp_bytes(bits) + _rbytes(rng, tail)
                    if tail == 0 and n % 8:
                        raw = raw[:-1] + bytes([raw[-1] | rng.getrandbits(8 - n % 8)])
                    yield _obj(rng.choice(CLASS_NAMES), rng.choice(BYTE_KINDS), hx(raw), rng.choice([None, 0]), n, str(chunk), rng.choice("bf"), _mode(rng))
                    yield SEP.join(["C17", "rt", rng.choice(CLASS_NAMES), wire(bits), str(chunk), rng.choice(CLASS_NAMES),
                                    rng.choice(["fname", "handle", "bio", "bytes"]), _mode(rng)])
                    isz = rng.choice(list(DTYPES))
                    yield SEP.join(["C17", "arr", rng.choice(DTYPES[isz]), str(isz), wire(bits), str(chunk), _mode(rng)])
                    yield SEP.join(["C17", "art", rng.choice(DTYPES[isz]), str(isz), wire(bits), str(chunk), rng.choice(["handle", "bio"])])
    # D. round trips through a real file
    for n in list(range(0, 71)) + [127, 128, 129, 1023, 1024, 1025]:
        for rkind in ("fname", "handle", "bio", "bytes", "bytearray"):
            for bits in _contents(rng, n)[: 3 if big else 2]:
                yield SEP.join(["C17", "rt", rng.choice(CLASS_NAMES), wire(bits), "-", rng.choice(CLASS_NAMES), rkind, _mode(rng)])
    # E. Array data incl. trailing bits
    for isz in DTYPES:
        for n in list(range(0, 71)) + [127, 128, 129, 1023, 1024, 1025]:
            for bits in _contents(rng, n)[:2]:
                yield SEP.join(["C17", "arr", rng.choice(DTYPES[isz]), str(isz), wire(bits), "-", _mode(rng)])
                yield SEP.join(["C17", "art", rng.choice(DTYPES[isz]), str(isz), wire(bits), "-", rng.choice(["handle", "bio"])])
    # F. Array.fromfile: file sizes 0..7 (thorough ..12) bytes x every count up to one past the end x item sizes
    def _init(isz):
        r = rng.random()
        if r < 0.5 or (isz == 1 and r >= 0.9):
            return ""
        if r < 0.9:
            return rand_bits(rng, isz * rng.randint(1, 2))
        return rand_bits(rng, isz + rng.randint(1, isz - 1))        # trailing bits: fromfile must refuse
    for isz in DTYPES:
        for nb in range(0, 13 if big else 8):
            mx = 8 * nb // isz
            counts = [None] + list(range(0, min(mx, 12) + 2)) + ([mx, mx + 1] if mx > 12 else []) + [mx + 7, mx + 1000]
            for n in counts:
                for fk in ("handle", "bio"):
                    yield SEP.join(["C17", "afrom", rng.choice(DTYPES[isz]), str(isz), wire(_init(isz)), hx(_rbytes(rng, nb)), str(n), fk])
            yield SEP.join(["C17", "afrom", rng.choice(DTYPES[isz]), str(isz), "-", hx(_rbytes(rng, nb)), "None", "init"])
    # F2. files of k whole items + 0 .. itemsize_bytes-1 extra bytes (a left-over partial item) x
    #     n in {None, 0, fewer, exactly, one more, many more} x every dtype of the width (ints, floats, hex, bytes) —
    #     both the success and the EOFError path; the Array is inspected after the call either way
    for isz in DTYPES:
        ib = (isz + 7) // 8
        for k in range(0, 5 if big else 4):
            for extra_bytes in range(0, max(ib, 2)):
                nb = (k * isz + 7) // 8 + extra_bytes
                avail = 8 * nb // isz
                ns = {None, 0, avail, avail + 1, avail + 2, avail + 50}
                if avail >= 1:
                    ns.add(avail - 1)
                if avail >= 2:
                    ns.add(1)
                for n in sorted(ns, key=lambda v: (-1 if v is None else v)):
                    for dt in DTYPES[isz]:
                        init = "" if rng.random() < 0.6 else rand_bits(rng, isz * rng.randint(1, 2))
                        yield SEP.join(["C17", "afrom", dt, str(isz), wire(init), hx(_rbytes(rng, nb)), str(n), rng.choice(["handle", "bio"])])
    # G. the real chunk boundary (no hook involved): thorough always; quick only when the hook is absent
    if (big or not HOOK) and 0 < CHUNK <= (1 << 31):
        yield SEP.join(["C17", "big", rng.choice(CLASS_NAMES), str(CHUNK + 24 + 5), str(rng.randint(1, 10 ** 6)), "f"])
        if big:
            yield SEP.join(["C17", "big", rng.choice(CLASS_NAMES), str(CHUNK + 8), str(rng.randint(1, 10 ** 6)), "b"])


def _rand_mutator(rng, n: int, array_dt=None) -> str:
    """One in-place mutator in wire form, with arguments drawn for a current length of about n bits."""
    t = lambda k: rand_bits(rng, k) if k else ""                 # noqa: E731
    p = lambda: rng.randint(0, max(0, n))                        # noqa: E731
    a_, b_ = sorted((p(), p()))
    pool = ["reverse", "reverse", "reverse:%d,%d" % (a_, b_), "invert", "invert:%d" % rng.randint(0, max(0, n - 1)),
            "append:" + t(rng.randint(1, 9)), "prepend:" + t(rng.randint(1, 9)), "iadd:" + t(rng.randint(1, 9)),
            "insert:%s@%d" % (t(rng.randint(1, 5)), p()), "overwrite:%s@%d" % (t(rng.randint(1, 5)), p()),
            "set:%d,%d" % (rng.randint(0, 1), rng.randint(0, max(0, n - 1))), "setall:%d" % rng.randint(0, 1),
            "ror:%d" % rng.randint(1, 9), "rol:%d" % rng.randint(1, 9), "byteswap", "shl:%d" % rng.randint(1, 9),
            "shr:%d" % rng.randint(1, 9), "imul:%d" % rng.randint(0, 3), "clear",
            "setitem:%d=%d" % (rng.randint(0, max(0, n - 1)), rng.randint(0, 1)), "setslice:%d,%d=%s" % (a_, b_, t(rng.randint(0, 6))),
            "setstep:%d" % rng.randint(0, 1), "del:%d,%d" % (a_, b_), "delitem:%d" % rng.randint(0, max(0, n - 1)),
            "replace:%s>%s" % (t(rng.randint(1, 2)), t(rng.randint(0, 3))), "iand0", "ior1", "ixor1",
            "setuint:%d" % rng.getrandbits(max(1, min(n, 60))), "sethex:" + "".join(rng.choice("0123456789abcdef") for _ in range(max(1, n // 4)))]
    if array_dt is not None:
        pool += ["A.reverse", "A.reverse", "A.byteswap", "A.append", "A.pop", "A.extend", "A.insert:%d" % rng.randint(0, 3),
                 "A.setdata:" + t(rng.randint(0, 40))]
    return rng.choice(pool)


ALL_MUTATORS = ["reverse", "reverse:1,6", "invert", "invert:2", "append:101", "prepend:01", "iadd:1", "insert:101@3", "overwrite:11@2",
                "set:1,3", "setall:1", "ror:3", "rol:2", "byteswap", "shl:3", "shr:2", "imul:2", "imul:0", "clear", "setitem:3=1",
                "setslice:2,5=101", "setstep:1", "del:2,4", "delitem:0", "replace:1>00", "iand0", "ior1", "ixor1", "setuint:5", "sethex:a5"]


def _gen_hist(rng, big: bool):
    hist = lambda tgt, bits, ops: SEP.join(["C17", "hist", tgt, wire(bits), ";".join(ops) or "-", _mode(rng, 0.2)])   # noqa: E731
    lengths = [0, 1, 7, 8, 9, 15, 16, 17, 24, 31, 32, 33, 64, 65]
    # every mutator on its own (observe - mutate - observe), every length, both mutable classes
    for n in lengths:
        for m in ALL_MUTATORS:
            for cls in MUTABLE:
                yield hist(cls, rand_bits(rng, n) if n else "", [m])
    # the same mutator twice and mutator pairs (a cache refreshed by the first and missed by the second)
    for n in (8, 12, 16, 24, 40):
        for m1 in ALL_MUTATORS:
            m2 = rng.choice(ALL_MUTATORS)
            yield hist(rng.choice(MUTABLE), format(rng.getrandbits(n) | 1, "0%db" % n), [m1, m2, m1])
    # drawn histories
    for _ in range(6000 if big else 900):
        n = rng.choice(lengths + [rng.randint(0, 130)])
        ops = [_rand_mutator(rng, n) for _ in range(rng.randint(2, 6))]
        yield hist(rng.choice(MUTABLE), rand_bits(rng, n) if n else "", ops)
    # Array.data and the Array's own mutators; Array.tobytes/tofile are observed as well
    for isz, dts in DTYPES.items():
        for dt in dts[:2]:
            for items in (0, 1, 2, 3, 5):
                nb = isz * items
                for m in ["reverse", "A.reverse", "A.byteswap", "invert", "A.append", "A.pop", "append:1", "setslice:0,%d=%s" % (isz, "1" * isz), "A.extend", "clear"]:
                    yield hist("Array:" + dt, rand_bits(rng, nb) if nb else "", [m])
            for _ in range(40 if big else 6):
                nb = isz * rng.randint(0, 6)
                yield hist("Array:" + dt, rand_bits(rng, nb) if nb else "", [_rand_mutator(rng, nb, dt) for _ in range(rng.randint(2, 5))])


def search(rng):
    """Used when an obligation broke (e.g. the generated chunk obligation): look for a concrete failing input,
    first across the real chunk boundary of this tree, then with the thorough generator."""
    if 0 < CHUNK <= (1 << 31):
        for nbits in (CHUNK + 16, CHUNK + 3, 2 * CHUNK + 11 if CHUNK <= (1 << 27) else CHUNK + 29):
            yield SEP.join(["C17", "big", "Bits", str(nbits), "7", "b"])
    yield from gen(rng, "thorough")
